#!/bin/bash
# usage: check.sh <property-id> quick|thorough            run the property's rules on /repo's current tree
#        check.sh <property-id> replay <violation.json>   re-evaluate one reported obligation
set -u
cd "$(dirname "$0")"
VERIF=$(pwd)
export PATH=/opt/veriftools/go1.26.8/bin:$PATH GOTOOLCHAIN=local GOPROXY=off GOSUMDB=off GOWORK=off GOFLAGS=-mod=mod
ID=${1:?property id}
MODE=${2:-${VERIF_TIER:-quick}}
"$VERIF/setup.sh" >/dev/null || { echo "checker build failed" >&2; exit 2; }
REPO=${VERIF_REPO:-/repo}
case "$MODE" in
  replay)
    exec "$VERIF/bin/grulecheck" -repo "$REPO" -replay "${3:?violation file}" ;;
  quick)
    exec "$VERIF/bin/grulecheck" -repo "$REPO" -property "$ID" -tier quick -evidence "$VERIF/evidence" -known "$VERIF/known_findings.json" ;;
  thorough)
    exec "$VERIF/bin/grulecheck" -repo "$REPO" -property "$ID" -tier thorough -evidence "$VERIF/evidence" -known "$VERIF/known_findings.json" -audit-dir "$VERIF/audit" ;;
  *) echo "unknown mode $MODE" >&2; exit 2 ;;
esac
