#!/usr/bin/env python3
"""Self-audit of grulecheck: applies catalogued variants of /repo through packages.Config.Overlay (no copy of
/repo on disk) and checks that breaking variants are reported (naming the expected rule) and benign variants
are silent. Usage: audit.py [-j N] [-k substring] [--rules R1,R2] [--json out.json] [variant files...]
A variant file (JSON) holds a list of {id, rules:[...], edits:[{file, old, new, count?}], expect:"violation"|"silent",
expect_rule?:..., note}. A variant whose `old` text no longer occurs is skipped (counted)."""
import json, sys, os, subprocess, tempfile, glob, argparse, concurrent.futures as cf

REPO = os.environ.get('VERIF_REPO', '/repo')
BIN = os.path.join(os.path.dirname(os.path.dirname(os.path.abspath(__file__))), 'bin', 'grulecheck')

def run_variant(v, known):
    overlay = {}
    for e in v['edits']:
        path = os.path.join(REPO, e['file'])
        src = overlay.get(path)
        if src is None:
            src = open(path).read()
        n = src.count(e['old'])
        want = e.get('count', 1)
        if want == 'any':
            want = n if n >= 1 else 1
        if n != want:
            return dict(id=v['id'], outcome='skipped', detail='old text occurs %d times (want %d) in %s' % (n, want, e['file']))
        overlay[path] = src.replace(e['old'], e['new'])
    with tempfile.NamedTemporaryFile('w', suffix='.json', delete=False, dir=os.environ.get('TMPDIR', '/tmp')) as f:
        json.dump(overlay, f)
        ov = f.name
    try:
        cmd = [BIN, '-property', v.get('property', 'AUDIT'), '-rules', ','.join(v['rules']), '-evidence', '', '-overlay', ov, '-repo', REPO, '-known', known]
        p = subprocess.run(cmd, capture_output=True, text=True, timeout=600)
    finally:
        os.unlink(ov)
    out = p.stdout + p.stderr
    if os.environ.get('AUDIT_VERBOSE'):
        sys.stderr.write(out)
    viol = [l for l in out.splitlines() if l.strip().startswith(('violated', 'undecided'))]
    if p.returncode == 2:
        return dict(id=v['id'], outcome='error', detail=out[-600:])
    if v['expect'] == 'violation':
        if p.returncode == 1:
            er = v.get('expect_rule')
            if er and not any((' ' + er + ' ') in (' ' + l + ' ') or l.split()[1] == er for l in viol):
                return dict(id=v['id'], outcome='wrong-rule', detail='; '.join(viol)[:400])
            return dict(id=v['id'], outcome='killed', detail='; '.join(l.strip()[:160] for l in viol[:2]))
        return dict(id=v['id'], outcome='MISSED', detail=out[-300:])
    else:
        if p.returncode == 0:
            return dict(id=v['id'], outcome='silent', detail='')
        return dict(id=v['id'], outcome='FALSE-ALARM', detail='; '.join(l.strip()[:200] for l in viol[:3]))

def main():
    ap = argparse.ArgumentParser()
    ap.add_argument('-j', type=int, default=6)
    ap.add_argument('-k', default='')
    ap.add_argument('--rules', default='')
    ap.add_argument('--json', default='')
    ap.add_argument('--known', default='/verif/known_findings.json')
    ap.add_argument('files', nargs='*')
    a = ap.parse_args()
    files = a.files or sorted(glob.glob(os.path.join(os.path.dirname(os.path.dirname(os.path.abspath(__file__))), 'audit', '*.json')))
    variants = []
    for f in files:
        for v in json.load(open(f)):
            if a.k and a.k not in v['id']:
                continue
            if a.rules and not (set(a.rules.split(',')) & set(v['rules'])):
                continue
            variants.append(v)
    res = []
    with cf.ThreadPoolExecutor(max_workers=a.j) as ex:
        for r in ex.map(lambda v: run_variant(v, a.known), variants):
            res.append(r)
            print('%-12s %-40s %s' % (r['outcome'], r['id'], r['detail'][:220]))
    tally = {}
    for r in res:
        tally[r['outcome']] = tally.get(r['outcome'], 0) + 1
    print('SUMMARY', json.dumps(tally, sort_keys=True))
    if a.json:
        json.dump(dict(results=res, tally=tally), open(a.json, 'w'), indent=1)
    bad = sum(tally.get(k, 0) for k in ('MISSED', 'FALSE-ALARM', 'wrong-rule', 'error'))
    sys.exit(1 if bad else 0)

if __name__ == '__main__':
    main()
