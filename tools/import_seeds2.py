#!/usr/bin/env python3
"""Imports confirmed round-2 seeded changes from a delivery directory into /verif/seeded/<Cxx>_<c|d>/ with meta.json.
Usage: import_seeds2.py <delivery-root> <confirm-dir> [round] ; round 2 (default) stores <Cxx>_c/_d from table T,
round 3 stores <Cxx>_e/_f from table T3; the table below is the hand-written description of each seed
and of what the checker said at first contact (before any rule was added because of it)."""
import json, os, shutil, sys

T = {
 # id: (base, change, needs, first_contact, led_to)
 'C01/a': ('2463d27', 'ast/WorkingMemory.go AddExpressionAtom: on a hit returns the atom it was given instead of the registered one', 'the same atom under two different enclosing atoms, value is a copy (JSON member, map element, top-level variable), a higher-salience rule assigns the variable', 'caught', ''),
 'C01/b': ('2463d27', 'engine/GruleEngine.go ExecuteWithContext: WorkingMemory.ResetAll() only when knowledge.DataContext != dataCtx', 'same instance executed twice on the same data-context object with facts changed in between from outside', 'caught', ''),
 'C02/a': ('2463d27', 'ast/KnowledgeBase.go MakeCatalog: index entries of variables no GRL assignment targets are deleted from the catalogue ("size optimisation")', 'store + load, condition on a never-assigned variable remembered false, fact changed from Go and announced with Forget/Changed', 'missed', 'SER-12 (who may write a catalogue, no delete), SER-7/9/12 added to C02'),
 'C02/b': ('2463d27', 'ast/WorkingMemory.go ResetVariable: walk over the atom index replaced by resetting expr.ExpressionAtom of each reset expression', 'variable read through a nested atom (!X, X.Len()) whose remembered operand is a copy', 'caught', ''),
 'C03/a': ('2463d27', 'ast/Serializer.go RuleEntryMeta Write/ReadMetaFrom: salience stored as uint64(uint32(s)), reader keeps int(i)', 'negative salience, store + load', 'missed', 'SER-10 (lossless integer conversion on the stream)'),
 'C03/b': ('2463d27', 'engine/GruleEngine.go: next cycle iterates only over the still-runnable rules when the executed rule "changed no variable"; element writes do not bump the change counter', 'a firing that changes only slice/map elements and makes a higher-salience rule satisfied', 'other-rule', 'ENG-4 (of C02) reported it; ENG-4 added to C03'),
 'C04/a': ('2463d27', 'model/GoDataAccessLayer.go SetObjectValueByField: pointer-to-number branch also taken for pointer right-hand sides and writes through the pointer', 'Fact.PtrField = Other.PtrField with pointer-to-number fields: the pointee is overwritten instead of the pointer stored', 'caught', ''),
 'C04/b': ('2463d27', 'ast/Assignment.go Execute: plain = skipped when target and value compare equal with the GRL == (pkg.EvaluateEqual)', 'assignment of a value that is ==-equal but not identical (time in another location, -0.0, int vs float)', 'missed', 'OPT-11 no shortcut around Assign; ASG-1 no success path around the write'),
 'C05/a': ('2463d27', 'ast/Expression.go Evaluate: right operand of && / || evaluated before the short-circuit test', 'right operand with a side effect or an error while the left decides', 'caught', ''),
 'C05/b': ('2463d27', 'antlr listener ExitBooleanLiteral: strings.ToLower switch replaced by strconv.ParseBool with the error dropped', 'mixed-case spelling such as TrUe', 'caught', ''),
 'C06/a': ('2463d27', 'ast/DataContext.go Add/AddJSON also clear the completion flag; Variable.Assign implements a top-level assignment through Add', 'Complete() followed in the same rule by an assignment to a top-level variable', 'missed', 'ENG-10 completion-flag writers (rule of C10); class-hierarchy callees for interface calls in module functions; ENG-10 added to C06'),
 'C06/b': ('2463d27', 'engine/GruleEngine.go: max-cycle check moved into the evaluation loop (fail fast)', 'listener registered, budget exhausted: remaining evaluations of the cycle are not reported', 'caught', ''),
 'C07/a': ('2463d27', 'ast/Constant.go GetSnapshot: kind tag replaced by a literal class that merges int and float', '2 and 2.0 (or 1000 and 1e3) in one knowledge base with kind-sensitive operators', 'missed', 'SNAP-5 kind tag of constants'),
 'C07/b': ('2463d27', 'ast/WorkingMemory.go AddExpressionAtom: add-if-absent returns the unregistered duplicate', 'second occurrence of an atom; its memo is never reset', 'caught', ''),
 'C08/a': ('f0c2d01', 'ast/Variable.go Assign member branch: owner variable re-resolved only when Variable.ValueNode == nil', 'instance reused with a new data context; the assignment owner is an output-only fact no condition mentions: the write lands in the previous call\'s fact', 'other-rule', 'ASG-1 (of C04) reported it; ASG-1 added to C08'),
 'C08/b': ('f0c2d01', 'engine/GruleEngine.go: ResetAll only when knowledge.DataContext != nil, and FetchMatchingRules no longer calls InitializeContext', 'FetchMatchingRules on a never-executed instance followed by the first Execute with other facts', 'caught', ''),
 'C09/a': ('f0c2d01', 'ast/unique/Unique.go NewID: uuid replaced by a process-wide atomic counter', 'store in process 1, load in process 2, add one more rule, NewKnowledgeBaseInstance: identifiers collide in the clone table', 'missed', 'CLN-9 identifiers from a cross-process unique source'),
 'C09/b': ('f0c2d01', 'ast/KnowledgeBase.go GetSnapshot cached in a new field; KnowledgeLibrary.RemoveRuleEntry does not clear it', 'instance created, lib.RemoveRuleEntry, next NewKnowledgeBaseInstance fails; instance creation writes the shared blueprint (data race)', 'caught', ''),
 'C10/a': ('f0c2d01', 'ast/DataContext.go Add/AddJSON clear the completion flag (independent re-invention of C06_c)', 'Complete() followed by a top-level assignment in the same rule', 'caught', 'reported by the ENG-10 clause added after C06_c'),
 'C10/b': ('f0c2d01', 'ast/KnowledgeBase.go RetractRule: name scan replaced by e.RuleEntries[ruleName].Retracted = true', 'Retract of an unknown or meanwhile removed name: nil dereference turned into an action error', 'caught', ''),
 'C11/a': ('f0c2d01', 'ast/KnowledgeBase.go RemoveRuleEntry + new WorkingMemory.RemoveExpression: shared condition nodes of the removed rule are dropped from the registry', 'removed rule shares a sub-expression with a surviving rule; two FetchMatchingRules calls with flipped facts', 'other-rule', 'INV-13 (added earlier the same day from own probing) reported it; INV-13 added to C11/C08'),
 'C11/b': ('f0c2d01', 'ast/Expression.go Evaluate: && / || answered from an already remembered right operand', 'left operand errors, right operand occurs elsewhere and was evaluated earlier in the pass', 'missed', 'OPT-15 no value without evaluating an own operand'),
 'C12/a': ('f0c2d01', 'ast/WorkingMemory.go MakeCatalog: atoms that carry a FunctionCall are left out of the catalogued atom registry and index', 'method-call atom (F.GetCount()) after store + load: never reset by Changed/Forget/assignment', 'caught', ''),
 'C12/b': ('f0c2d01', 'ast/KnowledgeBase.go StoreKnowledgeBaseToWriter: writer wrapped in bufio.Writer, flushed in a defer (error dropped)', 'writer fails on the final flush: store returns nil with a truncated stream', 'missed', 'SER-4 extended to library and deferred/spawned calls'),
 'C13/a': ('f0c2d01', 'ast/BuiltInFunctions.go Forget: snippet cut at the first "(" (parenthesis dropped too); Changed delegates', 'Forget("Order.Total()") with another method whose name starts with Total: substring fallback over-invalidates', 'other-rule', 'INV-7 reported it; INV-7 added to C13'),
 'C13/b': ('f0c2d01', 'ast Expression/ExpressionAtom Evaluate: Evaluated = operands\' Evaluated instead of true', 'receiver indexed out of a call result (Cart.GetItems()[0].Heavy()): re-run every rule and cycle', 'caught', ''),
 'C14/a': ('f0c2d01', 'ast/Expression.go Evaluate: hoisted operand error checks; the right operand\'s error is never tested', 'failing right operand of == / != with a string or bool on the left', 'caught', ''),
 'C14/b': ('f0c2d01', 'engine/GruleEngine.go: break instead of continue after a failed condition', 'default mode, failing rule next to healthy ones, map order puts it first', 'caught', ''),
 'C15/a': ('f0c2d01', 'engine/GruleEngine.go: runner.Execute is handed context.WithoutCancel(ctx)', 'cancellation after the engine\'s last check of the cycle and before the actions start (inside the last condition or a listener callback)', 'caught', ''),
 'C15/b': ('f0c2d01', 'ast/RuleEntry.go: ctx.Err() replaced by a helper that compares the deadline with the clock when the context has one', 'context with a far deadline cancelled explicitly, in the same end-of-cycle window', 'caught', ''),
 'C16/a': ('f0c2d01', 'engine/GruleEngine.go: the !Deleted test hoisted out of the cycle loop (slice of live entries built once)', 'rule removed from the instance while Execute runs (from a fact method or a listener); its condition turns true in a later cycle', 'caught', ''),
 'C16/b': ('f0c2d01', 'builder/RuleBuilder.go: registration loop runs only when the walk stopped and writes RuleEntries[name] directly', 'later resource redefines an existing name and has a syntax error after it: build fails but the existing rule is replaced', 'caught', ''),
 'C17/a': ('f0c2d01', 'antlr/ParserCommon.go unquoteString: double-quoted literals decoded by strconv.Unquote', 'double-quoted description or string constant containing a raw line break: valid document rejected', 'missed', 'OPT-5: only strconv.UnquoteChar may reject a string token; OPT-5 added to C17 and C18'),
 'C17/b': ('f0c2d01', 'ast/Salience.go AcceptIntegerLiteral: range test rewritten with inclusive comparisons', 'salience exactly 2147483647 or -2147483648: valid document rejected', 'caught', ''),
 'C18/a': ('f0c2d01', 'antlr/ParserCommon.go unquoteString: every escape re-encoded with utf8.AppendRune (same mechanism as C05_b of round 1)', 'struct API, description or const string with a byte >= 0x80 that is not valid UTF-8', 'other-rule', 'OPT-5 (of C05) reported it; OPT-5 added to C18'),
 'C18/b': ('f0c2d01', 'pkg/JsonResource.go buildExpressionEx: unary not reports itself as needing no brackets; parseOperand returns unbracketed operands before applying the negation', 'unary not whose single operand is a unary not: outer negation dropped', 'missed', 'one more trigger of D18 (negation lost in parseOperand); JSN-5 second half reports the D18 return on the base commit with and without the patch, so nothing new is reported for the seed; on the repaired tree (859fe69) the seeded change is behaviour-preserving (its demo passes) and the checker is silent on it'),
 'C19/a': ('f0c2d01', 'ast/Expression.go GetSnapshot: > and >= both rendered as the mirrored <', 'X >= Y and X > Y (or Y < X) over identical operands in one knowledge base, operands equal: >= shares the node of >', 'other-rule', 'OPT-1 (of C05) reported it with an imprecise message; SNAP-4 extended (fixed slots, own operator); SNAP-3/4 added to C19'),
 'C19/b': ('f0c2d01', 'pkg/reflectools.go GetValueElem: recursion replaced by reflect.Indirect + one interface unwrap', 'operand of kind interface whose dynamic value is a pointer', 'caught', ''),
 'C20/a': ('f0c2d01', 'ast/Serializer.go ReadCatalogFromReader: the six maps pre-sized with the count read from the stream', 'one 8-byte count field edited to 2^20..2^38', 'caught', ''),
 'C20/b': ('f0c2d01', 'pkg/JsonResource.go ParseJSONRuleset decodes into []*GruleJSON and ranges over the pointers', 'a null element in the top-level JSON array: nil pointer dereference in parseRule, no barrier on the JSON rule path', 'missed', 'LDR-11 JSON null cannot become a dereferenced nil pointer'),
}

T3 = {
 'C02/a': ('7effe7d', 'engine/GruleEngine.go: DEFUNC setup folded into a helper that reuses the BuiltInFunctions object found in the data context and re-points Knowledge and DataContext but not WorkingMemory', 'same data context executed with one knowledge-base instance and later with another; a rule of the later one announces a change with Changed/Forget', 'other-rule', 'INV-7 (of C01) reported it; INV-7 added to C02'),
 'C02/b': ('7effe7d', 'ast/ArrayMapSelector.go Clone: IsCloned(e.AstID) instead of IsCloned(e.Expression.AstID): the index expression is cloned twice, the first clone is never registered', 'instance from NewKnowledgeBaseInstance, a non-constant selector expression that also occurs earlier in clone order, value going stale', 'other-rule', 'CLN-7 (of C09) reported it; clone fidelity CLN-1/2/4/7 added to C01, C02, C08, C11'),
 'C03/a': ('7effe7d', 'pkg/JsonResource.go ParseJSONRuleset: array streamed with json.Decoder into one reused GruleJSON variable', 'a non-first JSON rule that omits salience after a rule with non-zero salience: it inherits that salience instead of 0', 'missed', 'JSN-8 every JSON rule is decoded into a fresh value'),
 'C03/b': ('7effe7d', 'ast/ThenExpressionList.go Execute: loop left once dataContext.IsComplete() (same mechanism as C10_b of round 1)', 'Complete() not last in its action list, or a data context completed by an earlier Execute', 'other-rule', 'OPT-13 / ENG-10 / TRV-1 (of C04, C06, C10) reported it; OPT-13, ENG-10 added to C03'),
 'C04/a': ('7effe7d', 'model/GoDataAccessLayer.go: FieldByName replaced by a cached field-index lookup keyed by Type.String()+"."+field', 'two distinct fact struct types with the same package and type name and a same-named field at another index', 'other-rule', 'ASG-3 (of C05) reported it; ASG-3 added to C04'),
 'C04/b': ('7effe7d', 'ast/ThenExpressionList.go Execute: loop left once dataContext.IsComplete() (third independent re-invention)', 'Complete() before the last action, or a completed data context reused', 'caught', ''),
 'C07/a': ('7effe7d', 'ast/WorkingMemory.go IndexVariables made incremental (re-invention of C01_a / C02_a)', 'knowledge base filled by two BuildRuleFromResource calls; the later resource adds expressions over variables the earlier one used', 'other-rule', 'INV-5 (of C01/C02) reported it; INV-5, INV-10, INV-13 added to C07'),
 'C07/b': ('7effe7d', 'ast/KnowledgeBase.go RemoveRuleEntry (both) + new WorkingMemory.RemoveExpression: the removed rule\'s when tree is deleted from the registry although shared with surviving rules', 'sibling with a common sub-expression removed, then the instance executed again with new facts or another resource built', 'other-rule', 'INV-13 (of C01/C02/C08/C11) reported it; INV-13 added to C07'),
 'C09/a': ('7effe7d', 'ast/Expression.go Clone: Negated copied only in the branch that clones the bracketed operand, not when it comes from the clone table', '!(X) whose operand X also occurs elsewhere and is cloned earlier: NewKnowledgeBaseInstance fails with "the clone is not identical"', 'missed', 'CLN-1: semantic scalars are copied on every path through Clone'),
 'C09/b': ('7effe7d', 'model/DataAccessLayer.go StrMatchRegexPattern: compiled patterns cached in an unlocked package-level map', 'two goroutines executing rules that use MatchString at the same moment: concurrent map writes', 'caught', ''),
 'C11/a': ('7effe7d', 'ast/ArgumentList.go Clone: IsCloned(e.AstID) instead of the argument\'s id (same slip as C02_e in another Clone)', 'an expression used both as an argument and elsewhere, instance reused for a second FetchMatchingRules with other facts', 'other-rule', 'CLN-7 (of C09) reported it; clone fidelity added to C11'),
 'C11/b': ('7effe7d', 'pkg/reflectmath.go: int-vs-uint arms of the four ordering comparisons run in the unsigned domain', 'ordering comparison of a negative signed operand with an unsigned one in a when', 'other-rule', 'OPT-9/OPT-10 (of C19/C05) reported it; the evaluation core added to C01, C02, C03, C11'),
 'C12/a': ('7effe7d', 'ast/Serializer.go: new helper intToUint64 (returns 0 for negative input) used by the stream writers', 'rule with a negative salience, stored and loaded', 'caught', ''),
 'C12/b': ('7effe7d', 'ast/KnowledgeBase.go LoadKnowledgeBaseFromReader: registration folded into overwrite || !exist || len(existing.RuleEntries) == 0', 'library holds an empty placeholder for the stream\'s name/version and overwrite=false', 'caught', ''),
 'C01/a': ('ab880df', 'ast/ArrayMapSelector.go Clone: clone-table lookup for the index expression dropped (third appearance of the duplicate-clone mechanism)', 'instance from NewKnowledgeBaseInstance; X[expr] whose expr also occurs earlier; copy-valued expression; an action falsifies the condition', 'caught', 'clone fidelity had been added to C01 after round-3 batch 1'),
 'C01/b': ('ab880df', 'model/JsonDataAccessLayer.go: JSON nodes remember the member wrappers they hand out; dropped in SetObjectValueByField but not in SetMapValueAt', 'JSON fact; member read with the dot form and written through the selector form', 'missed', 'ASG-5 value nodes are views (no method but constructors and AppendValue stores into the node)'),
 'C05/a': ('ab880df', 'model/GoDataAccessLayer.go CallFunction: argument-count pre-check that demands len(args) >= NumIn() for variadic methods', 'variadic fact method or Max/Min called with only its fixed arguments', 'missed', 'OPT-16 arity pre-checks agree with reflect\'s rule'),
 'C05/b': ('ab880df', 'builder/RuleBuilder.go: rule text normalised before lexing (BOM stripped, CRLF -> LF), also inside string literals', 'string literal containing a raw CR LF', 'missed', 'LDR-13 the text lexed is byte for byte what the resource delivered'),
 'C06/a': ('ab880df', 'ast/KnowledgeBase.go new BuiltIns(dataCtx) caching the built-in host per knowledge base (DataContext bound at first use); engine prologues use it', 'instance used for a second Execute with another data context and a rule that relies on Complete()', 'other-rule', 'INV-7 (of C01/C02/C08) reported it; INV-7 added to C06'),
 'C06/b': ('ab880df', 'engine/GruleEngine.go: completion detected as an edge (IsComplete() && !completedBefore)', 'data context already completed before the run and the run relies on Complete() again', 'caught', ''),
 'C08/a': ('ab880df', 'ast/ArgumentList.go Clone: lookup with the list\'s own id (same slip as C11_e)', 'instance reused with facts that change an expression used both as argument and elsewhere', 'caught', 'clone fidelity had been added to C08 after round-3 batch 1'),
 'C08/b': ('ab880df', 'ast/KnowledgeBase.go BuiltIns(dataCtx) host cached per knowledge base (same as C06_e)', 'second call on an instance with a new data context and a rule calling Complete()', 'caught', ''),
 'C10/a': ('ab880df', 'engine/GruleEngine.go: DEFUNC registration folded into a helper that keeps one BuiltInFunctions in a new GruleEngine field and re-points it per run', 'two executions on the same engine overlap (nested Execute from a fact method, or two goroutines)', 'other-rule', 'INV-7 reported it; INV-7 added to C10'),
 'C10/b': ('ab880df', 'ast/DataContext.go IsComplete returns the flag and clears it', 'Complete() not last and a later action of the same rule queries IsComplete()', 'caught', ''),
 'C13/a': ('ab880df', 'builder/RuleBuilder.go + ast/WorkingMemory.go: the cleanup of a rejected text moved before the builder adds the good rules; RemoveUnreachable no longer re-indexes', 'good rule followed by a broken rule in one resource, then a second build re-using the same call text', 'other-rule', 'INV-13 / LDR-5 / LDR-2 reported it; INV-13, INV-5, INV-10 added to C13'),
 'C13/b': ('ab880df', 'ast/ThenExpression.go Execute: clears the memo flag along the whole chain of method-call receivers of a call statement', 'statement whose receiver is a side-effect-free accessor also used in conditions (F.GetAudit().Note();)', 'caught', ''),
 'C14/a': ('ab880df', 'ast/ExpressionAtom.go Evaluate: the scattered memo stores replaced by one deferred e.Evaluated = remember && err == nil (runs during a panic with err still nil)', 'an atom that evaluated before panics later and is read again without a reset', 'caught', 'reported through the changed shape of the memo stores (INV-2/3/4), not by a rule about deferred stores'),
 'C14/b': ('ab880df', 'new pkg.ArrayIndex helper without a default branch used at the three array-selector sites', 'slice selected with a string, bool or nil: element 0 is read or overwritten silently', 'missed', 'ASG-6 an array selector is converted by an operation that fails for a non-integer'),
}

def main():
    root, conf = sys.argv[1], sys.argv[2]
    rnd = int(sys.argv[3]) if len(sys.argv) > 3 else 2
    table, suffix = (T, {'a': 'c', 'b': 'd'}) if rnd == 2 else (T3, {'a': 'e', 'b': 'f'})
    for sid, (base, change, needs, fc, led) in sorted(table.items()):
        prop, ab = sid.split('/')
        src = os.path.join(root, prop, ab)
        cj = os.path.join(conf, prop + '_' + ab + '.json')
        if not (os.path.exists(os.path.join(src, 'patch.diff')) and os.path.exists(cj)):
            print('skip (not delivered/confirmed yet):', sid); continue
        c = json.load(open(cj))
        ok = c.get('applies') == 'yes' and c.get('builds') == 'yes' and c.get('demo_with_patch_exit') != '0' and c.get('suite_with_patch_exit') == '0' and c.get('demo_without_patch_exit') == '0'
        if not ok:
            print('NOT CONFIRMED:', sid, c); continue
        dst = os.path.join('/verif/seeded', prop + '_' + suffix[ab])
        os.makedirs(dst, exist_ok=True)
        for f in ('patch.diff', 'demo_test.go', 'notes.md'):
            if os.path.exists(os.path.join(src, f)):
                shutil.copy(os.path.join(src, f), os.path.join(dst, f))
        mp = os.path.join(dst, 'meta.json')
        meta = json.load(open(mp)) if os.path.exists(mp) else {}
        meta.update(dict(id=os.path.basename(dst), property=prop, round=rnd, base_commit=base,
                         author='independent sub-agent given only the property text, the list of earlier seeds to avoid, and a scratch worktree',
                         change=change, needs_to_manifest=needs, first_contact=fc, led_to=led,
                         confirmed=dict(tool='tools/confirm_seed.sh (scratch worktree of the base commit, removed afterwards)', patch_applies=True, builds=True,
                                        demo_place=c.get('place'), demo_tests=c.get('tests'),
                                        demo_with_patch='FAIL (exit %s)' % c.get('demo_with_patch_exit'),
                                        suite_with_patch='157 baseline tests pass (exit 0): %s' % c.get('suite_summary'),
                                        demo_without_patch='PASS (exit 0)')))
        json.dump(meta, open(mp, 'w'), indent=1)
        print('imported', sid, '->', dst)

if __name__ == '__main__':
    main()
