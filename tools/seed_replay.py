#!/usr/bin/env python3
"""Replays the stored seeded changes of one property against the current tree WITHOUT touching /repo: each patch is
applied to scratch copies of the files it touches (outside /repo and /verif, removed afterwards), the result is handed to
grulecheck as an overlay, and the property's own rules must report it. Seeds whose patch no longer applies to the
current tree (a later fix changed the same lines) or that are marked evaluate_on_base are skipped and counted.
Usage: seed_replay.py --property Cxx [--json out.json] [-j N]"""
import argparse, json, os, re, shutil, subprocess, sys, tempfile, concurrent.futures as cf

HERE = os.path.dirname(os.path.dirname(os.path.abspath(__file__)))
REPO = os.environ.get('VERIF_REPO', '/repo')
BIN = os.path.join(HERE, 'bin', 'grulecheck')

def prop_rules(pid):
    src = open(os.path.join(HERE, 'checker', 'props.go')).read()
    m = re.search(r'propRules\["%s"\] = \[\]string\{([^}]*)\}' % pid, src)
    return re.findall(r'"([A-Z]+-\d+)"', m.group(1)) if m else []

def replay(sid, rules, known):
    d = os.path.join(HERE, 'seeded', sid)
    meta = json.load(open(os.path.join(d, 'meta.json')))
    if meta.get('evaluate_on_base'):
        return dict(id=sid, outcome='skipped', detail='behaviour-preserving on the repaired tree; evaluated on its base commit by tools/seed_eval.py')
    patch = os.path.join(d, 'patch.diff')
    files = re.findall(r'^\+\+\+ b/(\S+)', open(patch).read(), re.M)
    tmp = tempfile.mkdtemp(prefix='seedreplay.')
    try:
        for f in files:
            src = os.path.join(REPO, f)
            if not os.path.exists(src):
                return dict(id=sid, outcome='skipped', detail='file %s is not in the current tree' % f)
            os.makedirs(os.path.dirname(os.path.join(tmp, f)), exist_ok=True)
            shutil.copy(src, os.path.join(tmp, f))
        p = subprocess.run(['git', 'apply', '--whitespace=nowarn', patch], cwd=tmp, capture_output=True, text=True)
        if p.returncode != 0:
            return dict(id=sid, outcome='skipped', detail='patch no longer applies to the current tree (base %s)' % meta.get('base_commit'))
        overlay = {os.path.join(REPO, f): open(os.path.join(tmp, f)).read() for f in files}
        ov = os.path.join(tmp, 'overlay.json')
        json.dump(overlay, open(ov, 'w'))
        r = subprocess.run([BIN, '-property', 'SEED', '-rules', ','.join(rules), '-evidence', '', '-overlay', ov, '-repo', REPO, '-known', known], capture_output=True, text=True, timeout=900)
        hits = sorted({l.split()[1] for l in r.stdout.splitlines() if l.strip().startswith(('violated', 'undecided'))})
        if r.returncode == 1 and hits:
            return dict(id=sid, outcome='reported', detail=','.join(hits))
        if r.returncode == 2:
            if 'LOAD-FAILURE' in (r.stdout + r.stderr):
                return dict(id=sid, outcome='skipped', detail='the patch applies to the current tree but does not compile there (later code uses what it removes); evaluated on its base commit by tools/seed_eval.py')
            return dict(id=sid, outcome='error', detail=(r.stdout + r.stderr)[-300:])
        return dict(id=sid, outcome='NOT-REPORTED', detail='')
    finally:
        shutil.rmtree(tmp, ignore_errors=True)

def main():
    ap = argparse.ArgumentParser()
    ap.add_argument('--property', required=True)
    ap.add_argument('--json', default='')
    ap.add_argument('--known', default=os.path.join(HERE, 'known_findings.json'))
    ap.add_argument('-j', type=int, default=4)
    a = ap.parse_args()
    rules = prop_rules(a.property)
    sids = sorted(s for s in os.listdir(os.path.join(HERE, 'seeded')) if s.startswith(a.property + '_'))
    res = []
    with cf.ThreadPoolExecutor(max_workers=a.j) as ex:
        for r in ex.map(lambda s: replay(s, rules, a.known), sids):
            res.append(r)
            print('%-13s %-8s %s' % (r['outcome'], r['id'], r['detail'][:160]))
    tally = {}
    for r in res:
        tally[r['outcome']] = tally.get(r['outcome'], 0) + 1
    print('SUMMARY', json.dumps(tally, sort_keys=True))
    if a.json:
        json.dump(dict(results=res, tally=tally), open(a.json, 'w'), indent=1)
    sys.exit(1 if tally.get('NOT-REPORTED', 0) or tally.get('error', 0) else 0)

if __name__ == '__main__':
    main()
