#!/usr/bin/env python3
"""Generates /verif/MANIFEST.json from the table below and the rules registered in checker/props.go."""
import json, re, os, subprocess

VERIF = os.path.dirname(os.path.dirname(os.path.abspath(__file__)))
props = [json.loads(l) for l in open(os.path.join(VERIF, 'properties.jsonl'))]
src = open(os.path.join(VERIF, 'checker', 'props.go')).read()
rules = {m.group(1): re.findall(r'"([A-Z]+-\d+)"', m.group(2)) for m in re.finditer(r'propRules\["(C\d+)"\] = \[\]string\{([^}]*)\}', src)}

TECH = {
 'C01': 'must-pass-through on SSA (write => invalidate), dominance of memo stores by error tests, index/reset structure, who-may-write',
 'C02': 'loop-exit classification on SSA, range-loop completeness, must-pass-through invalidation',
 'C03': 'symbolic arg-max recognition on SSA, dominance, call-graph scan for go/channel ops',
 'C04': 'dispatch/table agreement over typed AST+SSA, operand-order provenance',
 'C05': 'operator table chain (grammar, generated parser, listener, snapshot, evaluator, arithmetic), kind-table extraction',
 'C06': 'symbolic budget-guard form, back-edge ranking argument, notification protocol by dominance/path search',
 'C07': 'field coverage of snapshots vs. evaluation reads, format-verb table, injective operator rendering',
 'C08': 'derived run-state field set (call graph + field stores) vs. must-pass-through resets per entry point',
 'C09': 'clone field coverage, alias provenance of clone stores, receiver-rooted store scan, global-store scan over call graph',
 'C10': 'dominance/path search around Retract/Complete sites, call-graph non-reachability',
 'C11': 'call-graph non-reachability of actions, comparator direction, candidate-append dominance',
 'C12': 'write/read mirror of serializer pairs on SSA, field coverage across traversals, error-discipline path search',
 'C13': 'memo-guard dominance, must-set-memo path search, bulk-invalidator placement via call graph',
 'C14': 'recover-barrier shape, dropped-error path search over the evaluation/action call tree',
 'C15': 'dominance of scope calls by ctx.Err() tests, %w binding of format operands',
 'C16': 'insert-if-absent dominance, tombstone coverage across clone/serialize, who-may-write',
 'C17': 'error-channel wiring (dominance), must-reach AddError path search, HasError gate',
 'C18': 'switch table vs. documentation table, parenthesisation provenance, quoting sinks',
 'C19': 'sibling kind-table agreement of the six comparison functions, mirror cells, time-method whitelist',
 'C20': 'panic reachability without barrier (call graph), unproven bounds triage, stream-sized allocation taint',
}
NOTE = 'Trusted base: go/types + go/ssa + VTA call graph (x/tools v0.50.0), Go language semantics, dependencies and standard library, user fact methods (outside the program). A discharged obligation is a structural necessary condition that holds on every path of the loaded code, not a behavioural verdict; what each rule does not decide is stated in DESIGN.md section 4.'

checks = []
na = []
NA_REASON = {}
for p in props:
    pid = p['id']
    if pid in rules and rules[pid]:
        checks.append({
            'property_id': pid,
            'quick_cmd': './check.sh %s quick' % pid,
            'thorough_cmd': './check.sh %s thorough' % pid,
            'evidence_file': '/verif/evidence/%s.json' % pid,
            'replay_cmd_template': './check.sh %s replay {path}' % pid,
            'engine': 'grulecheck',
            'level_claimed': {
                'category': 'other',
                'text': 'Static analysis: structural necessary conditions of the property (rules %s), checked exhaustively over the type-checked SSA program / call graph of the current tree; holds for every input, history and schedule that can drive the code down the analysed paths. It decides the named structural clauses, not the behaviour itself.' % ', '.join(rules[pid]),
                'design_ref': 'DESIGN.md section 4, %s; rule catalogue section 3' % pid,
            },
            'level_note': NOTE,
            'technique': 'static analysis: ' + TECH[pid],
        })
    else:
        na.append({'property_id': pid, 'reason': NA_REASON.get(pid, 'static rules for this property are designed (DESIGN.md section 3/4) but not yet implemented in grulecheck; not claimed until they are')})

commits = subprocess.run(['git', '-C', '/repo', 'log', '--format=%h %s', '48e622e..HEAD'], capture_output=True, text=True).stdout.strip().splitlines()
man = {
 'version': 1,
 'setup_cmd': './setup.sh',
 'hooks': {
  'guard': 'verif',
  'enable': 'none needed: no instrumentation of /repo is used; checks analyse the source as it is (build tag verif is declared and unused)',
  'baseline_off_cmd': '/verif/tools/run_baseline.sh /repo',
  'source_commits': [c for c in commits],
  'add_only': True,
 },
 'engines': [{'name': 'grulecheck', 'path': '/verif/checker', 'serves_properties': [c['property_id'] for c in checks], 'kind_free_text': 'repository-specific static analyser in Go (go/packages, go/ssa, VTA call graph, typed AST); one rule catalogue, one obligation per rule instance; self-audit by overlay variants'}],
 'checks': checks,
 'notes': 'All source_commits are unguarded "fix:" repairs of genuine defects found by the rules (see known_findings.json, DESIGN.md section 5); there are no hook commits. Exit codes: 0 held (KNOWN-FINDING lines possible), 1 VIOLATION, 2 checker/loader failure.',
 'not_applicable': na,
}
json.dump(man, open(os.path.join(VERIF, 'MANIFEST.json'), 'w'), indent=1)
print('checks:', [c['property_id'] for c in checks]); print('not claimed:', [n['property_id'] for n in na])
