#!/usr/bin/env python3
"""Evaluates every seeded change under /verif/seeded against the current checker and records, in its meta.json, which
rules report it (for the property's own check and over all rules). A seed is applied to /repo transiently when it
applies to HEAD, otherwise in a scratch worktree of its base commit (removed afterwards). Usage: seed_eval.py [ids...]"""
import json, os, subprocess, sys, tempfile, re, shutil

VERIF = '/verif'
BIN = VERIF + '/bin/grulecheck'

def prop_rules():
    src = open(VERIF + '/checker/props.go').read()
    return {m.group(1): re.findall(r'"([A-Z]+-\d+)"', m.group(2)) for m in re.finditer(r'propRules\["(C\d+)"\] = \[\]string\{([^}]*)\}', src)}

def run_rules(repo, rules):
    p = subprocess.run([BIN, '-repo', repo, '-property', 'SEED', '-rules', rules, '-evidence', '', '-known', VERIF + '/known_findings.json'], capture_output=True, text=True)
    hits = []
    global LAST_MSGS
    LAST_MSGS = {}
    for l in p.stdout.splitlines():
        l = l.strip()
        if l.startswith('violated') or l.startswith('undecided'):
            h = l.split()[1] + ' : ' + l.split(' : ', 1)[1].split(' at ')[0] if ' : ' in l else l
            hits.append(h)
            # the message without its position: a seed can change what an obligation that already fails on its base says
            LAST_MSGS.setdefault(h, set()).add(re.sub(r'[\w/]+\.go:\d+', '', l.split(' at ', 1)[1].split(': ', 1)[1] if ' at ' in l and ': ' in l.split(' at ', 1)[1] else ''))
    return p.returncode, sorted(set(hits))

LAST_MSGS = {}

def baseline_hits(repo, rules):
    """violations already present on the unpatched base (e.g. defects repaired later)."""
    return set(run_rules(repo, rules)[1])

def main():
    rules = prop_rules()
    ids = sys.argv[1:] or sorted(os.listdir(VERIF + '/seeded'))
    subprocess.check_call([VERIF + '/setup.sh'], stdout=subprocess.DEVNULL)
    for sid in ids:
        d = os.path.join(VERIF, 'seeded', sid)
        mp = os.path.join(d, 'meta.json')
        if not os.path.exists(mp):
            continue
        meta = json.load(open(mp))
        patch = os.path.join(d, 'patch.diff')
        assert subprocess.run(['git', '-C', '/repo', 'status', '--porcelain'], capture_output=True, text=True).stdout == '', '/repo not clean'
        applies = subprocess.run(['git', '-C', '/repo', 'apply', '--check', patch], capture_output=True).returncode == 0 and not meta.get('evaluate_on_base')
        if applies:
            # the patch may apply to HEAD and still not compile there (an import it removes is used by later code)
            subprocess.check_call(['git', '-C', '/repo', 'apply', patch])
            try:
                rc, _ = run_rules('/repo', 'LDR-2')
            finally:
                subprocess.check_call(['git', '-C', '/repo', 'checkout', '--', '.'])
                subprocess.check_call(['git', '-C', '/repo', 'clean', '-fdq'])
            if rc == 2:
                applies = False
        wt = None
        try:
            if applies:
                repo = '/repo'
                base_extra = set()
                base_msgs = {}
                subprocess.check_call(['git', '-C', '/repo', 'apply', patch])
                where = 'HEAD'
            else:
                wt = tempfile.mkdtemp(prefix='seedeval.')
                subprocess.check_call(['git', '-C', '/repo', 'worktree', 'add', '-q', '--detach', wt, meta['base_commit']])
                repo = wt
                base_extra = baseline_hits(repo, 'all')
                base_msgs = dict(LAST_MSGS)
                subprocess.check_call(['git', '-C', wt, 'apply', patch])
                where = 'base commit ' + meta['base_commit']
            pr = rules.get(meta['property'], [])
            _, own = run_rules(repo, ','.join(pr))
            own_msgs = dict(LAST_MSGS)
            _, anyr = run_rules(repo, 'all')
            any_msgs = dict(LAST_MSGS)
            def new(h, msgs):
                return h not in base_extra or (not applies and msgs.get(h, set()) != base_msgs.get(h, set()))
            own = [h for h in own if new(h, own_msgs)]
            anyr = [h for h in anyr if new(h, any_msgs)]
        finally:
            if applies:
                subprocess.check_call(['git', '-C', '/repo', 'checkout', '--', '.'])
                subprocess.check_call(['git', '-C', '/repo', 'clean', '-fdq'])
            elif wt:
                subprocess.run(['git', '-C', '/repo', 'worktree', 'remove', '--force', wt])
                shutil.rmtree(wt, ignore_errors=True)
        meta['evaluated_on'] = where
        meta['caught_by_property_check'] = own
        meta['caught_by_any_rule'] = anyr
        meta['detected'] = bool(own)
        json.dump(meta, open(mp, 'w'), indent=1)
        print('%-8s %-5s own=%s%s' % (sid, 'CAUGHT' if own else ('other' if anyr else 'MISSED'), [h.split(' : ')[0] for h in own][:4], '' if own else ' any=%s' % [h.split(' : ')[0] for h in anyr][:4]))

if __name__ == '__main__':
    main()
