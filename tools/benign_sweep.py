#!/usr/bin/env python3
"""Robustness sweep of grulecheck against generic behaviour-preserving edits, applied to every function of a whole
package at once through an overlay (nothing is written to /repo). Every rule has to stay silent on each of them.
The edits: (1) a builtin println of the receiver as first statement of every method, (2) an empty deferred closure as
first statement of every function (go/ssa then spills results through a local and adds a recover block), (3) a dead
branch `if false { panic(..) }`, (4) an unused unexported field and a harmless method on every struct of package ast, (5) other spellings of comparisons in
all packages at once (len(x) > 0 as != 0, == 0 as < 1, nil on the left, !(err == nil)), (6) an error built into a local
before it is returned, (7) every method of a package with a simple signature split into a one-line wrapper and an
implementation of another name (the loader of the checker makes pure delegation transparent).
Usage: benign_sweep.py [-j N] [--rules R1,R2] [--json out.json]   exit 1 if any rule reports anything."""
import re, json, glob, os, subprocess, sys, tempfile, concurrent.futures as cf
HERE = os.path.dirname(os.path.dirname(os.path.abspath(__file__)))
REPO = os.environ.get('VERIF_REPO', '/repo')
BIN = os.path.join(HERE, 'bin', 'grulecheck')
PKGS = ['ast', 'engine', 'pkg', 'model', 'builder', 'antlr']

def files(pk):
    return [f for f in glob.glob(os.path.join(REPO, pk, '*.go')) if not f.endswith('_test.go')]

def first_stmt(pk, line, methods_only=False):
    ov = {}
    for f in files(pk):
        out = []
        for l in open(f).read().split('\n'):
            out.append(l)
            if methods_only:
                m = re.match(r'^func \((\w+) \*?\w+\) .*\{$', l)
                if m:
                    out.append('\t' + line % m.group(1))
            elif re.match(r'^func .*\{$', l):
                out.append('\t' + line)
        ov[f] = '\n'.join(out)
    return ov

def fields_and_methods():
    ov = {}
    for f in files('ast'):
        s = open(f).read()
        names = [n for n in re.findall(r'^type (\w+) struct \{$', s, re.M) if not n.endswith('Meta') and n != 'Catalog']
        if not names:
            continue
        s = re.sub(r'^(type (\w+) struct \{)$', lambda m: m.group(1) + ('\n\tzzNote string' if m.group(2) in names else ''), s, flags=re.M)
        for n in names:
            s += '\n// ZZDescribe is a harmless addition\nfunc (zz *%s) ZZDescribe() string { return zz.zzNote }\n' % n
        ov[f] = s
    return ov

RULES = 'all'

def delegation(pk):
    ov = {}
    for f in files(pk):
        out = []
        for l in open(f).read().split('\n'):
            m = re.match(r'^func \((\w+) (\*?\w+)\) (\w+)\(([^()]*)\) (\(?[^{()]*\)?) ?\{$', l)
            if m and 'func' not in m.group(4) and '...' not in m.group(4) and m.group(5).strip() != '' and not re.match(r'^\(\w+ ', m.group(5).strip()):
                recv, rt, name, params, res = m.groups()
                names = [part.strip().split()[0] for part in params.split(',') if part.strip()]
                out.append('func (%s %s) %s(%s) %s {\n\treturn %s.%sImpl(%s)\n}\n' % (recv, rt, name, params, res.strip(), recv, name, ', '.join(names)))
                out.append('func (%s %s) %sImpl(%s) %s {' % (recv, rt, name, params, res.strip()))
            else:
                out.append(l)
        ov[f] = '\n'.join(out)
    return ov

def run(job):
    name, ov = job
    with tempfile.NamedTemporaryFile('w', suffix='.json', delete=False) as t:
        json.dump(ov, t)
    try:
        r = subprocess.run([BIN, '-property', 'AUDIT', '-rules', RULES, '-evidence', '', '-overlay', t.name, '-repo', REPO, '-known', os.path.join(HERE, 'known_findings.json')], capture_output=True, text=True)
    finally:
        os.unlink(t.name)
    bad = [l.strip()[:300] for l in (r.stdout + r.stderr).splitlines() if l.strip().startswith(('violated', 'undecided', 'LOAD'))]
    return name, r.returncode, bad

def main():
    global RULES
    j = int(sys.argv[sys.argv.index('-j') + 1]) if '-j' in sys.argv else 4
    if '--rules' in sys.argv:
        RULES = sys.argv[sys.argv.index('--rules') + 1]
    out_json = sys.argv[sys.argv.index('--json') + 1] if '--json' in sys.argv else ''
    results = []
    jobs = []
    for pk in PKGS:
        jobs.append(('println receiver / ' + pk, first_stmt(pk, 'println(%s)', True)))
        jobs.append(('empty defer / ' + pk, first_stmt(pk, 'defer func() {}()')))
        jobs.append(('dead branch / ' + pk, first_stmt(pk, 'if false { panic("never") }')))
    jobs.append(('unused field and method / ast', fields_and_methods()))
    for pk in PKGS:
        jobs.append(('wrapper + Impl for every method / ' + pk, delegation(pk)))
    for name, pat, rep in [('len(x) > 0 as len(x) != 0', r'len\(([^()]+)\) > 0', r'len(\1) != 0'), ('len(x) == 0 as len(x) < 1', r'len\(([^()]+)\) == 0', r'len(\1) < 1'),
                           ('x != nil as nil != x', r'(\b[\w.]+) != nil\b', r'nil != \1'), ('x == nil as nil == x', r'(\b[\w.]+) == nil\b', r'nil == \1'),
                           ('if err != nil as if !(err == nil)', r'if err != nil \{', r'if !(err == nil) {'),
                           ('return fmt.Errorf(..) through a local', r'(?m)^(\t+)return fmt\.Errorf\((.*)\)$', r'\1zzErr := fmt.Errorf(\2)\n\1return zzErr'),
                           ('return x, fmt.Errorf(..) through a local', r'(?m)^(\t+)return ([^,()]+), fmt\.Errorf\((.*)\)$', r'\1zzErr := fmt.Errorf(\3)\n\1return \2, zzErr')]:
        ov = {}
        for pk in PKGS:
            for f in files(pk):
                src = open(f).read()
                out, k = re.subn(pat, rep, src)
                if k:
                    ov[f] = out
        jobs.append((name + ' / all packages', ov))
    fail = 0
    with cf.ThreadPoolExecutor(max_workers=j) as ex:
        for name, rc, bad in ex.map(run, jobs):
            print('%-8s %s' % ('silent' if rc == 0 else 'ALARM', name))
            for b in bad[:6]:
                print('    ', b)
            fail += rc != 0
            results.append(dict(edit=name, outcome='silent' if rc == 0 else 'ALARM', reports=bad[:3]))
    print('SUMMARY %d edits, %d with reports' % (len(jobs), fail))
    if out_json:
        json.dump(dict(edits=len(jobs), with_reports=fail, results=results), open(out_json, 'w'), indent=1)
    sys.exit(1 if fail else 0)

if __name__ == '__main__':
    main()
