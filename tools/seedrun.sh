#!/bin/bash
# usage: seedrun.sh <patch.diff> [rules|all]  -- applies a seeded change to /repo, runs the rules, reverts.
set -u
P=$1; R=${2:-all}
cd /repo || exit 2
if [ -n "$(git status --porcelain)" ]; then echo "/repo not clean" >&2; exit 2; fi
git apply "$P" || { echo "patch does not apply" >&2; exit 2; }
/verif/setup.sh >/dev/null
/verif/bin/grulecheck -repo /repo -property SEED -rules "$R" -evidence '' -known /verif/known_findings.json 2>&1 | grep -v "^VIOLATION" | cut -c1-400
RC=${PIPESTATUS[0]}
git checkout -- . && git clean -fdq
exit $RC
