#!/bin/bash
# Runs the repository's pinned test suite (hooks: none; guard "verif" is unused) and
# compares with /root/.vp/BASELINE.json when present. Usage: run_baseline.sh [repo-dir]
set -u
REPO=${1:-/repo}
export GOFLAGS=-mod=mod GOPROXY=off GOSUMDB=off GOTOOLCHAIN=local GOWORK=off PATH=/opt/veriftools/go1.26.8/bin:$PATH
OUT=$(mktemp /tmp/baseline.XXXXXX.json)
(cd "$REPO" && go test -mod=mod -json -vet=off -count=1 -timeout 25m ./... > "$OUT" 2>/dev/null)
python3 - "$OUT" <<'PY'
import json,sys,os
res={}
for l in open(sys.argv[1]):
    try: e=json.loads(l)
    except Exception: continue
    if e.get('Test') and e.get('Action') in('pass','fail','skip'):
        res[e['Package']+'::'+e['Test']]=e['Action']
npass=sum(1 for v in res.values() if v=='pass')
fails=sorted(k for k,v in res.items() if v=='fail')
print('passed',npass,'failed',len(fails))
for f in fails: print('  FAIL',f)
bp='/root/.vp/BASELINE.json'
rc=0
if os.path.exists(bp):
    base=json.load(open(bp))['stable_pass']
    miss=[t for t in base if res.get(t)!='pass']
    print('baseline tests not passing:',len(miss))
    for m in miss: print('  MISSING',m)
    rc=1 if miss else 0
else:
    known={'github.com/hyperjumptech/grule-rule-engine/pkg::TestNewURLResource','github.com/hyperjumptech/grule-rule-engine/pkg::TestGitResource'}
    rc=1 if set(fails)-known else 0
sys.exit(rc)
PY
RC=$?
rm -f "$OUT"
exit $RC
