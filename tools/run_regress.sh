#!/bin/bash
# Convenience only, NOT a check and not registered in MANIFEST.json (it executes the engine): copies the scenario
# tests kept as text under /verif/regress into a scratch worktree of /repo's HEAD (or of the commit given as $1),
# runs them and removes the worktree. They are the inputs quoted in DESIGN.md section 5 for D31/D32.
set -u
export GOFLAGS=-mod=mod GOPROXY=off GOSUMDB=off GOTOOLCHAIN=local GOWORK=off PATH=/opt/veriftools/go1.26.8/bin:$PATH
REV=${1:-HEAD}
WT=$(mktemp -d /tmp/regress.XXXXXX)
git -C /repo worktree add -q --detach "$WT" "$REV" || exit 2
trap 'git -C /repo worktree remove --force "$WT" 2>/dev/null; rm -rf "$WT"' EXIT
for f in "$(dirname "$0")"/../regress/*_test.go.txt; do
  PLACE=$(head -1 "$f" | sed -n 's#^// place in: *##p'); [ -z "$PLACE" ] && PLACE=engine
  cp "$f" "$WT/$PLACE/zz_$(basename "${f%.txt}")"
done
cd "$WT" && go test -vet=off -count=1 -run 'TestAliases|TestMapGrowth|TestUnrelated|TestAppendAlias|TestOtherKey|TestDeepNesting|TestJSONNumbersKeep|TestPlainOperandOfAndOr|TestSLLAgreesWithLL|TestShapes|TestRejectedTextLeavesNoRule|TestJSONAppendIsKept|TestCancellationAtTheCycleLimit|TestNestedSelectorsBuild|TestManySmallResourcesAfterALongCondition' -v ./engine/ ./builder/ ./pkg/ 2>&1 | grep -E '^(---|ok|FAIL|\s+zz_)' | cut -c1-200
