#!/bin/bash
# usage: seedrun2.sh <patch.diff> <base-commit> [rules|all] -- runs the rules on a scratch worktree of <base-commit> with the patch applied
set -u
P=$1; BASE=$2; R=${3:-all}
WT=$(mktemp -d /tmp/seedrun.XXXXXX)
git -C /repo worktree add -q --detach "$WT" "$BASE" || exit 2
trap 'git -C /repo worktree remove --force "$WT" 2>/dev/null; rm -rf "$WT"' EXIT
git -C "$WT" apply "$P" || { echo "patch does not apply" >&2; exit 2; }
/verif/setup.sh >/dev/null
/verif/bin/grulecheck -repo "$WT" -property SEED -rules "$R" -evidence '' -known /verif/known_findings.json 2>&1 | grep -v "^VIOLATION\|KNOWN-FINDING\|path:" | cut -c1-420
