#!/bin/bash
# usage: confirm_seed.sh <seed-dir> <base-commit> <out-json>
# Confirms a seeded change in a scratch worktree: applies, builds, demo fails with it, suite passes with it, demo passes without it.
set -u
SD=$1; BASE=$2; OUT=$3
export GOFLAGS=-mod=mod GOPROXY=off GOSUMDB=off GOTOOLCHAIN=local GOWORK=off PATH=/opt/veriftools/go1.26.8/bin:$PATH
WT=$(mktemp -d /tmp/seedwt.XXXXXX)
git -C /repo worktree add -q --detach "$WT" "$BASE" || { echo "worktree failed"; exit 2; }
cleanup() { git -C /repo worktree remove --force "$WT" 2>/dev/null; rm -rf "$WT"; }
trap cleanup EXIT
PLACE=$(head -1 "$SD/demo_test.go" | sed -n 's#^// place in: *##p' | tr -d '` ' | sed 's#/$##')
[ -z "$PLACE" ] && PLACE=engine
DEMO="$WT/$PLACE/zz_seed_demo_test.go"
res() { python3 - "$OUT" "$@" <<'PY'
import json,sys
out=sys.argv[1]; kv=dict(a.split('=',1) for a in sys.argv[2:])
json.dump(kv, open(out,'w'), indent=1)
PY
}
cd "$WT"
git apply "$SD/patch.diff" || { res applies=no; exit 1; }
go build ./... >/dev/null 2>&1 || { res applies=yes builds=no; exit 1; }
cp "$SD/demo_test.go" "$DEMO"
NAMES=$(grep -o '^func Test[A-Za-z0-9_]*' "$DEMO" | sed 's/func //' | paste -sd'|')
go test -vet=off -count=1 -run "^($NAMES)\$" "./$PLACE/" >/tmp/$$.with.log 2>&1; WITH=$?
rm -f "$DEMO"
# full suite with the patch
/verif/tools/run_baseline.sh "$WT" >/tmp/$$.suite.log 2>&1; SUITE=$?
git checkout -q -- . ; git clean -fdq
cp "$SD/demo_test.go" "$DEMO"
go test -vet=off -count=1 -run "^($NAMES)\$" "./$PLACE/" >/tmp/$$.without.log 2>&1; WITHOUT=$?
rm -f "$DEMO"
res applies=yes builds=yes demo_with_patch_exit=$WITH suite_with_patch_exit=$SUITE demo_without_patch_exit=$WITHOUT place=$PLACE tests="$NAMES" suite_summary="$(head -1 /tmp/$$.suite.log)"
rm -f /tmp/$$.with.log /tmp/$$.suite.log /tmp/$$.without.log
[ $WITH -ne 0 ] && [ $SUITE -eq 0 ] && [ $WITHOUT -eq 0 ]
