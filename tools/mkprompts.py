#!/usr/bin/env python3
"""Writes the prompts for a round of seeded-change sub-agents: one file per property, holding only the property text,
the environment recipe and one-line descriptions of the changes earlier rounds produced (to steer away from them).
Nothing from /verif's checker, rules or DESIGN goes into a prompt. Usage: mkprompts.py <round> <out-dir> <worktree-root> <seed-root>"""
import json, os, sys

rnd, out, wtroot, seedroot = int(sys.argv[1]), sys.argv[2], sys.argv[3], sys.argv[4]
os.makedirs(out, exist_ok=True)
props = [json.loads(l) for l in open('/verif/properties.jsonl')]
seeds = {}
for d in sorted(os.listdir('/verif/seeded')):
    m = json.load(open('/verif/seeded/%s/meta.json' % d))
    seeds.setdefault(m['property'], []).append(m)
neigh = {  # properties whose mechanisms overlap
 'C01': ['C02', 'C13', 'C08'], 'C02': ['C01', 'C13', 'C11'], 'C03': ['C06', 'C11', 'C02'], 'C04': ['C05', 'C14'], 'C05': ['C04', 'C19', 'C07'],
 'C06': ['C03', 'C10', 'C15'], 'C07': ['C13', 'C05', 'C19'], 'C08': ['C11', 'C01'], 'C09': ['C12', 'C16'], 'C10': ['C06', 'C16'],
 'C11': ['C08', 'C03', 'C14'], 'C12': ['C09', 'C20', 'C16'], 'C13': ['C01', 'C07'], 'C14': ['C04', 'C11', 'C03'], 'C15': ['C06', 'C14'],
 'C16': ['C17', 'C12', 'C10'], 'C17': ['C16', 'C20', 'C18'], 'C18': ['C17', 'C05'], 'C19': ['C05', 'C07'], 'C20': ['C12', 'C17', 'C18'],
}
T = '''You are helping evaluate a verification tool by producing realistic *seeded defects* for a Go library.

The library is hyperjumptech/grule-rule-engine (a forward-chaining rule engine for Go with an ANTLR GRL parser). You have your own scratch git worktree of it at {wt} (detached HEAD). Work ONLY inside {wt} and {sd}/ . Never read or touch /repo or /verif.

Environment for every shell call (env does not persist between calls; there is no network):
  export GOFLAGS=-mod=mod GOPROXY=off GOSUMDB=off GOTOOLCHAIN=local GOWORK=off PATH=/opt/veriftools/go1.26.8/bin:$PATH
Build: cd {wt} && go build ./...
Test suite: cd {wt} && go test -vet=off -count=1 ./...    (takes 2-5 min; the two tests pkg.TestGitResource and pkg.TestNewURLResource need network and fail already on the unchanged tree - TestGitResource panics and aborts the rest of the pkg test binary, so ALSO run: go test -vet=off -count=1 -skip 'TestGitResource|TestNewURLResource' ./pkg/ ; everything else must pass).

The property under study (id {id}):
  Title: {title}
  Statement: {statement}
  Quantified over: {quant}
  Why the existing tests cannot settle it: {why}
  Files where the mechanism lives: {files}

Your task: produce TWO independent changes (call them "a" and "b", at different places / of a different nature) to the library's non-test source code under {wt}, each of which
  1. still compiles (go build ./... succeeds),
  2. still passes the whole existing test suite (apart from the two network tests above) - you MUST actually run the suite with the change applied and confirm,
  3. breaks the property above (the library's observable behaviour now violates the statement for some input/history/schedule), and
  4. needs something SPECIFIC to manifest - a particular interleaving, a failure at a particular point, a multi-step sequence of operations, an unusual input or operand-kind combination, or two cooperating code sites that each look fine alone. Do NOT produce a change that ordinary use would expose immediately. Make it look like a plausible mistake or a plausible "optimisation"/"refactoring"/"cleanup"/"hardening" a maintainer might actually commit, not sabotage with odd constants or magic strings. Keep each change small (1-30 lines). Do not edit any *_test.go file, go.mod, or generated parser files.
For each change also write a demonstration: a new Go test file that FAILS with the change applied and PASSES on the unchanged tree. Confirm both by running it.

Deliverables - write them to {sd}/a/ and {sd}/b/ :
  - patch.diff : output of `git -C {wt} diff` containing ONLY the library change (not the demo test). It must apply with `git apply` to a clean checkout of the same commit.
  - demo_test.go : the demonstration test, with the first line being exactly the comment `// place in: <directory relative to repo root>` saying which package directory it must be copied into.
  - notes.md : which clause of the property is broken, what exactly is needed for it to manifest, and the exact commands you ran with their outcomes.
Work on "a" first, save its deliverables, then `git -C {wt} checkout -- . && git -C {wt} clean -fdq` and do "b". Leave the worktree clean when you are done. Do not use git stash. If after a serious effort you can only produce one change, deliver that one and say so.
Finish with a short report: for each change, the file/function changed and one sentence on the manifestation condition. If, while working, you notice behaviour of the UNCHANGED tree that already violates the property, say so in one paragraph at the end (with the input that shows it) - but do not use it as your seeded change.

IMPORTANT - earlier attempts. Other people already produced the following changes for this property; do NOT repeat them or close variants (a different file/function AND a different mechanism is what is wanted now):
{own}
Mechanisms already used for neighbouring properties (avoid these too):
{nb}
This is a late round (several rounds of such changes were made before), so the obvious places are taken. Code that changed recently in this repository (see git log) is fair game too. Look where nobody has looked yet: the less central files on the list above, the data access layers (Go reflection vs JSON facts), rarely used operand kinds and assignment forms, behaviour after an error or a rejected input, interactions of two operations that are each fine alone (remove then store, build twice, fetch then execute, clone then add), boundary values, helper functions shared by several callers, and invariants that a "tidy-up" of duplicated code would silently change.
'''
for p in props:
    pid = p['id']
    own = '\n'.join('  - %s (manifests with: %s)' % (m['change'], m['needs_to_manifest']) for m in seeds.get(pid, [])) or '  (none)'
    nb = '\n'.join('  - %s' % m['change'] for q in neigh.get(pid, []) for m in seeds.get(q, []))
    txt = T.format(wt=os.path.join(wtroot, pid), sd=os.path.join(seedroot, pid), id=pid, title=p['title'], statement=p['statement'], quant=p['quantifier']['text'],
                   why=p['why_tests_cant'], files=', '.join(p['anchors']['files']), own=own, nb=nb)
    open(os.path.join(out, pid + '.txt'), 'w').write(txt)
print('wrote', len(props), 'prompts to', out)
