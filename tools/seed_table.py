#!/usr/bin/env python3
"""Prints the markdown table of seeded changes (DESIGN.md section 10) from /verif/seeded/*/meta.json. Usage: seed_table.py [round]"""
import json, os, sys
rnd = int(sys.argv[1]) if len(sys.argv) > 1 else 2
rows = []
for d in sorted(os.listdir('/verif/seeded')):
    mp = os.path.join('/verif/seeded', d, 'meta.json')
    if not os.path.exists(mp):
        continue
    m = json.load(open(mp))
    if m.get('round', 1) != rnd:
        continue
    rules = sorted({h.split(' : ')[0] for h in m.get('caught_by_property_check', [])})
    rows.append('| %s | %s | %s | %s | %s |' % (d.replace('_', '/'), m['change'].replace('|', '\\|'), m['needs_to_manifest'].replace('|', '\\|'),
                {'caught': 'reported', 'missed': '**not reported**', 'other-rule': 'reported by a rule outside the property\'s check'}.get(m.get('first_contact', ''), '?') + (': ' + m['led_to'] if m.get('led_to') else ''),
                ', '.join(rules) or 'none'))
print('| seed | change | needs, to manifest | first contact | reported now by (rules of the property\'s own check) |')
print('|------|--------|--------------------|---------------|------------------------------------------------------|')
print('\n'.join(rows))
fc = {}
for r in rows:
    pass
