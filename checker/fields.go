package main

import (
	"go/token"
	"go/types"
	"sort"

	"golang.org/x/tools/go/ssa"
)

// nodeTypeNames: the 13 AST node kinds.
var nodeTypeNames = []string{"RuleEntry", "WhenScope", "ThenScope", "ThenExpressionList", "ThenExpression", "Assignment", "Expression", "ExpressionAtom", "Variable", "Constant", "FunctionCall", "ArgumentList", "ArrayMapSelector"}

// evalMethodNames: the methods through which a node's fields influence behaviour.
var evalMethodNames = []string{"Evaluate", "Execute", "Assign", "EvaluateArgumentList"}

// recvFieldReads returns the fields of the receiver's struct that fn reads (loads), directly or through static
// calls of other methods on the same receiver (depth 2). Stores are not reads.
func recvFieldReads(fn *ssa.Function, depth int) map[*types.Var]bool {
	out := map[*types.Var]bool{}
	if fn == nil || fn.Blocks == nil {
		return out
	}
	recv := receiver(fn)
	if recv == nil {
		return out
	}
	scan := func(f *ssa.Function, base ssa.Value) {}
	_ = scan
	var fns []*ssa.Function
	fns = append(fns, fn)
	fns = append(fns, fn.AnonFuncs...)
	for _, f := range fns {
		for _, b := range f.Blocks {
			for _, in := range b.Instrs {
				switch x := in.(type) {
				case *ssa.FieldAddr:
					if !isRecvOrCaptured(unspill(x.X), recv, f) {
						continue
					}
					fv := fieldOfAddr(x)
					for _, r := range *x.Referrers() {
						switch rr := r.(type) {
						case *ssa.UnOp:
							if rr.Op == token.MUL {
								out[fv] = true
							}
						case *ssa.Store:
							if rr.Addr != ssa.Value(x) {
								out[fv] = true
							}
						default:
							out[fv] = true // address escapes: treat as read
						}
					}
				case *ssa.Field:
					if isRecvOrCaptured(unspill(x.X), recv, f) {
						if st, ok := x.X.Type().Underlying().(*types.Struct); ok {
							out[st.Field(x.Field)] = true
						}
					}
				case ssa.CallInstruction:
					if depth <= 0 {
						continue
					}
					callee := x.Common().StaticCallee()
					if callee == nil || callee.Signature.Recv() == nil || len(x.Common().Args) == 0 {
						continue
					}
					if unspill(x.Common().Args[0]) == ssa.Value(recv) && callee != fn {
						for k := range recvFieldReads(callee, depth-1) {
							out[k] = true
						}
					}
				}
			}
		}
	}
	return out
}

// isRecvOrCaptured: v is the receiver parameter, or (inside a closure) a free variable load bound to it.
func isRecvOrCaptured(v ssa.Value, recv *ssa.Parameter, f *ssa.Function) bool {
	if v == ssa.Value(recv) {
		return true
	}
	if u, ok := v.(*ssa.UnOp); ok && u.Op == token.MUL {
		if fv, ok := u.X.(*ssa.FreeVar); ok && f.Parent() != nil {
			// find binding
			for _, b := range f.Parent().Blocks {
				for _, in := range b.Instrs {
					if mk, ok := in.(*ssa.MakeClosure); ok && mk.Fn == ssa.Value(f) {
						for i, bnd := range mk.Bindings {
							if i < len(f.FreeVars) && f.FreeVars[i] == fv {
								if a, ok := bnd.(*ssa.Alloc); ok {
									for _, r := range *a.Referrers() {
										if st, ok := r.(*ssa.Store); ok && st.Addr == ssa.Value(a) && st.Val == ssa.Value(recv) {
											return true
										}
									}
								}
							}
						}
					}
				}
			}
		}
	}
	return false
}

// nodeInfo holds the derived field sets of one node type.
type nodeInfo struct {
	Name     string
	Named    *types.Named
	Struct   *types.Struct
	Eval     map[*types.Var]bool // read by evaluation methods
	WM       map[*types.Var]bool // read by WorkingMemory reset/index functions
	Engine   map[*types.Var]bool // read by the engine package
	RunState map[*types.Var]bool
}

func (ni *nodeInfo) fieldByName(n string) *types.Var {
	for i := 0; i < ni.Struct.NumFields(); i++ {
		if ni.Struct.Field(i).Name() == n {
			return ni.Struct.Field(i)
		}
	}
	return nil
}

func sortedFieldNames(m map[*types.Var]bool) []string {
	var out []string
	for f := range m {
		out = append(out, f.Name())
	}
	sort.Strings(out)
	return out
}

// nodeInfos derives, for each node type, the semantic field sets from the code.
func (c *Ctx) nodeInfos() map[string]*nodeInfo {
	p := c.P
	a := c.eng()
	out := map[string]*nodeInfo{}
	// run state: derived as in ENG-1
	rs := c.derivedRunState(a)
	byType := map[*types.Named]*nodeInfo{}
	for _, n := range nodeTypeNames {
		named := p.Named("ast", n)
		if named == nil {
			continue
		}
		st, ok := named.Underlying().(*types.Struct)
		if !ok {
			continue
		}
		ni := &nodeInfo{Name: n, Named: named, Struct: st, Eval: map[*types.Var]bool{}, WM: map[*types.Var]bool{}, Engine: map[*types.Var]bool{}, RunState: map[*types.Var]bool{}}
		for i := 0; i < st.NumFields(); i++ {
			if _, ok := rs[n+"."+st.Field(i).Name()]; ok {
				ni.RunState[st.Field(i)] = true
			}
		}
		for _, mn := range evalMethodNames {
			if fn := p.Method("ast", n, mn); fn != nil && fn.Synthetic == "" {
				for f := range recvFieldReads(fn, 2) {
					if !ni.RunState[f] {
						ni.Eval[f] = true
					}
				}
			}
		}
		out[n] = ni
		byType[named] = ni
	}
	// fields of node types read anywhere in WorkingMemory's reset/index functions and in package engine
	scanAny := func(fn *ssa.Function, into func(ni *nodeInfo) map[*types.Var]bool) {
		if fn == nil {
			return
		}
		for _, b := range fn.Blocks {
			for _, in := range b.Instrs {
				fa, ok := in.(*ssa.FieldAddr)
				if !ok {
					continue
				}
				pt, ok := fa.X.Type().Underlying().(*types.Pointer)
				if !ok {
					continue
				}
				named, ok := pt.Elem().(*types.Named)
				if !ok {
					continue
				}
				ni := byType[named]
				if ni == nil {
					continue
				}
				fv := fieldOfAddr(fa)
				read := false
				for _, r := range *fa.Referrers() {
					if u, ok := r.(*ssa.UnOp); ok && u.Op == token.MUL {
						read = true
					}
				}
				if read && !ni.RunState[fv] {
					into(ni)[fv] = true
				}
			}
		}
	}
	for _, mn := range []string{"Reset", "ResetVariable", "ResetAll", "IndexVariables"} {
		fn := p.Method("ast", "WorkingMemory", mn)
		// only conditions count: a field read solely as a logging operand is diagnostic
		scanAnyCond(fn, byType, func(ni *nodeInfo) map[*types.Var]bool { return ni.WM })
	}
	for _, fn := range p.ModuleFuncs() {
		if fnPkgShort(fn) == "engine" {
			scanAnyCond(fn, byType, func(ni *nodeInfo) map[*types.Var]bool { return ni.Engine })
		}
	}
	_ = scanAny
	return out
}

// scanAnyCond records fields of node types whose loaded value flows into a comparison, a condition or a non-logging
// call (i.e. can influence behaviour), ignoring values used only as operands of logger calls / error messages.
func scanAnyCond(fn *ssa.Function, byType map[*types.Named]*nodeInfo, into func(ni *nodeInfo) map[*types.Var]bool) {
	if fn == nil {
		return
	}
	for _, b := range fn.Blocks {
		for _, in := range b.Instrs {
			fa, ok := in.(*ssa.FieldAddr)
			if !ok {
				continue
			}
			pt, ok := fa.X.Type().Underlying().(*types.Pointer)
			if !ok {
				continue
			}
			named, ok := pt.Elem().(*types.Named)
			if !ok {
				continue
			}
			ni := byType[named]
			if ni == nil {
				continue
			}
			fv := fieldOfAddr(fa)
			if ni.RunState[fv] {
				continue
			}
			for _, r := range *fa.Referrers() {
				u, ok := r.(*ssa.UnOp)
				if !ok || u.Op != token.MUL {
					continue
				}
				if influencesBehaviour(u) {
					into(ni)[fv] = true
				}
			}
		}
	}
}

func influencesBehaviour(v ssa.Value) bool {
	refs := v.Referrers()
	if refs == nil {
		return false
	}
	for _, r := range *refs {
		switch x := r.(type) {
		case *ssa.BinOp, *ssa.If, *ssa.Phi, *ssa.Lookup, *ssa.MapUpdate, *ssa.Return, *ssa.FieldAddr, *ssa.Store:
			return true
		case *ssa.MakeInterface:
			// boxed for a variadic logger / error message: diagnostic only
			continue
		case ssa.CallInstruction:
			name := calleeName(x)
			if isDiagnosticCallee(name) {
				continue
			}
			return true
		default:
			_ = x
			return true
		}
	}
	return false
}

func isDiagnosticCallee(name string) bool {
	for _, s := range []string{"Debugf", "Tracef", "Errorf", "Warnf", "Infof", "Debug", "Trace", "Error", "Warn", "Info", "Fatalf", "Sprintf"} {
		if len(name) >= len(s) && name[len(name)-len(s):] == s {
			return true
		}
	}
	return false
}
