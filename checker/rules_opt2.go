package main

import (
	"encoding/json"
	"fmt"
	"go/ast"
	"go/token"
	"go/types"
	"os"
	"path/filepath"
	"regexp"
	"sort"
	"strconv"
	"strings"

	"golang.org/x/tools/go/ssa"
)

func init() {
	register("OPT-1", "operator chain: lexer literal, token class, listener, snapshot, evaluator and arithmetic function agree for all 15 operators", 15, ruleOPT1)
	register("OPT-2", "precedence and associativity: grammar, generated parser and published table agree", 6, ruleOPT2)
	register("OPT-3", "generated parser/lexer artefacts agree with the checked-in .interp files and the grammar", 6, ruleOPT3)
	register("OPT-4", "short-circuit shape of && and ||", 2, ruleOPT4)
	register("OPT-5", "literal decoding", 5, ruleOPT5)
	register("OPT-6", "negation wiring", 4, ruleOPT6)
}

// goOpOfEval: the GRL spelling of what a pkg.Evaluate* function computes.
func evalFuncSpelling(name string) string {
	if op, ok := binaryEvalOps[name]; ok {
		return op.String()
	}
	switch name {
	case "EvaluateLogicAnd":
		return "&&"
	case "EvaluateLogicOr":
		return "||"
	}
	return "?"
}

// listenerOperatorTable: text -> Op constant name, from the Enter*Operator(s) callbacks of the listener.
func (c *Ctx) listenerOperatorTable() (map[string]string, map[string]string) {
	textToOp := map[string]string{}
	classOf := map[string]string{} // text -> class rule name
	pk := c.P.Pkg("antlr")
	if pk == nil {
		return textToOp, classOf
	}
	classByFunc := map[string]string{"EnterMulDivOperators": "mulDivOperators", "EnterAddMinusOperators": "addMinusOperators", "EnterComparisonOperator": "comparisonOperator", "EnterAndLogicOperator": "andLogicOperator", "EnterOrLogicOperator": "orLogicOperator"}
	for _, f := range pk.Syntax {
		for _, d := range f.Decls {
			fd, ok := d.(*ast.FuncDecl)
			if !ok || fd.Recv == nil {
				continue
			}
			class, ok := classByFunc[fd.Name.Name]
			if !ok {
				continue
			}
			foundSwitch := false
			ast.Inspect(fd.Body, func(n ast.Node) bool {
				sw, ok := n.(*ast.SwitchStmt)
				if !ok || sw.Tag == nil || !strings.HasSuffix(types.ExprString(sw.Tag), "GetText()") {
					return true
				}
				foundSwitch = true
				for _, st := range sw.Body.List {
					cc := st.(*ast.CaseClause)
					op := ""
					ast.Inspect(cc, func(x ast.Node) bool {
						if as, ok := x.(*ast.AssignStmt); ok && len(as.Lhs) == 1 && strings.HasSuffix(types.ExprString(as.Lhs[0]), ".Operator") {
							op = strings.TrimPrefix(types.ExprString(as.Rhs[0]), "ast.")
						}
						return true
					})
					for _, e := range cc.List {
						if bl, ok := e.(*ast.BasicLit); ok {
							s, _ := strconv.Unquote(bl.Value)
							textToOp[s] = op
							classOf[s] = class
						}
					}
				}
				return false
			})
			if !foundSwitch {
				// unconditional assignment: the class has a single operator
				ast.Inspect(fd.Body, func(x ast.Node) bool {
					if as, ok := x.(*ast.AssignStmt); ok && len(as.Lhs) == 1 && strings.HasSuffix(types.ExprString(as.Lhs[0]), ".Operator") {
						op := strings.TrimPrefix(types.ExprString(as.Rhs[0]), "ast.")
						textToOp["#"+class] = op
					}
					return true
				})
			}
		}
	}
	return textToOp, classOf
}

func ruleOPT1(c *Ctx) {
	p := c.P
	lits, err := grammarLiterals(p.RepoDir)
	classes, err2 := grammarClasses(p.RepoDir)
	if err != nil || err2 != nil || len(classes) != 5 {
		c.Fail("grammar / operator classes", "antlr/grulev3.g4", "cannot read the operator classes of the grammar")
		return
	}
	tokenLit := map[string]string{}
	for l, t := range lits {
		tokenLit[t] = l
	}
	listen, listenClass := c.listenerOperatorTable()
	// snapshot table
	sfn := p.Method("ast", "Expression", "GetSnapshot")
	efn := p.Method("ast", "Expression", "Evaluate")
	if sfn == nil || efn == nil {
		c.AnchorLost("Expression.GetSnapshot / Evaluate")
		return
	}
	snap, _ := switchTable(p.TypesInfo(sfn), p.FuncDecl(sfn).Body, func(e ast.Expr) bool { return isSelectorNamed(e, "Operator") })
	// evaluator table: Op -> pkg.Evaluate* name
	evalTab := map[string]string{}
	ast.Inspect(p.FuncDecl(efn).Body, func(n ast.Node) bool {
		sw, ok := n.(*ast.SwitchStmt)
		if !ok || sw.Tag == nil || !isSelectorNamed(sw.Tag, "Operator") {
			return true
		}
		for _, st := range sw.Body.List {
			cc := st.(*ast.CaseClause)
			fn := ""
			ast.Inspect(cc, func(x ast.Node) bool {
				if call, ok := x.(*ast.CallExpr); ok && strings.HasPrefix(types.ExprString(call.Fun), "pkg.Evaluate") {
					fn = strings.TrimPrefix(types.ExprString(call.Fun), "pkg.")
				}
				return true
			})
			for _, e := range cc.List {
				evalTab[types.ExprString(e)] = fn
			}
		}
		return false
	})
	var all []string
	for class, toks := range classes {
		for _, tok := range toks {
			all = append(all, class+"/"+tok)
		}
	}
	sort.Strings(all)
	for _, ct := range all {
		parts := strings.Split(ct, "/")
		class, tok := parts[0], parts[1]
		text, okLit := tokenLit[tok]
		construct := "operator " + tok
		if !okLit {
			c.Fail(construct, "antlr/grulev3.g4", "token "+tok+" of class "+class+" is not a literal lexer rule")
			continue
		}
		construct = "operator `" + text + "` means the same in lexer, parser, listener, snapshot, evaluator and arithmetic"
		op, okL := listen[text]
		if !okL {
			op, okL = listen["#"+class]
		} else if listenClass[text] != class {
			c.Fail(construct, "antlr/GruleParserV3Listener.go", fmt.Sprintf("the listener handles `%s` in the callback of %s but the grammar puts token %s in %s", text, listenClass[text], tok, class))
			continue
		}
		if !okL || op == "" {
			c.Fail(construct, "antlr/GruleParserV3Listener.go", "the listener does not map `"+text+"` to an operator constant: the expression keeps operator 0 (multiplication)")
			continue
		}
		sn := snap[op]
		ev := evalTab[op]
		sp := evalFuncSpelling(ev)
		ok := sn == text && sp == text
		c.Check(ok, construct, "antlr/GruleParserV3Listener.go", fmt.Sprintf("%s -> %s -> %s -> snapshot `%s`, %s (`%s`)", tok, class, op, sn, ev, sp),
			fmt.Sprintf("operator chain broken for `%s`: token %s, class %s, listener -> %s, snapshot renders `%s`, evaluator calls %s which computes `%s`", text, tok, class, op, sn, ev, sp))
	}
	// operand order in SSA: first argument derives from the left operand's evaluation, second from the right's
	left := p.Field("ast", "Expression", "LeftExpression")
	right := p.Field("ast", "Expression", "RightExpression")
	var lcall, rcall *ssa.Call
	for _, ci := range callsIn(efn) {
		call, ok := ci.(*ssa.Call)
		if !ok || !calleeNameIs(call, "Evaluate") || call.Call.IsInvoke() || len(call.Call.Args) == 0 {
			continue
		}
		if f, _ := fieldLoad(call.Call.Args[0]); f == left {
			lcall = call
		} else if f == right {
			rcall = call
		}
	}
	okOrder := lcall != nil && rcall != nil
	n := 0
	untouched, where := true, ""
	for _, ci := range callsIn(efn) {
		call, ok := ci.(*ssa.Call)
		if !ok {
			continue
		}
		callee := call.Call.StaticCallee()
		if callee == nil || fnPkgShort(callee) != "pkg" || !strings.HasPrefix(publicName(callee), "Evaluate") || len(call.Call.Args) != 2 {
			continue
		}
		n++
		if okOrder && !(derivesFromValue(call.Call.Args[0], lcall) && derivesFromValue(call.Call.Args[1], rcall)) {
			okOrder = false
		}
		// ... and untouched: the operator functions do all unwrapping and conversion themselves (OPT-9/10/14 decide their
		// tables); an adjustment of an operand on the way there (a conversion to the other operand's type, a rounding)
		// changes the value that is compared or computed with
		isResultOf := func(v ssa.Value, of *ssa.Call) bool {
			ex, ok := unspill(v).(*ssa.Extract)
			return ok && ex.Index == 0 && ex.Tuple == ssa.Value(of)
		}
		if !(isResultOf(call.Call.Args[0], lcall) && isResultOf(call.Call.Args[1], rcall)) {
			untouched = false
			where = p.InstrPos(call)
		}
	}
	c.Check(okOrder && n >= 15, "Expression.Evaluate / operands are passed left, right", p.Pos(efn.Pos()), fmt.Sprintf("%d operator calls take (left value, right value)", n), "an operator function receives its operands swapped or from another source")
	// ... and the value of an operator node is what its operator function returned: no path computes it some other way
	// (a "fast path" for operands of the same type compares two times field by field, location pointer included, where
	// the operator function compares instants: round-5 seed C19/a)
	valueF := p.Field("ast", "Expression", "Value")
	isOpResult := func(v ssa.Value) bool {
		ex, ok := unspill(v).(*ssa.Extract)
		if !ok || ex.Index != 0 {
			return false
		}
		call, ok := ex.Tuple.(*ssa.Call)
		if !ok {
			return false
		}
		callee := call.Call.StaticCallee()
		// the 15 binary functions, or EvaluateLogicSingle whose result the && / || section leaves in the same variable
		return callee != nil && fnPkgShort(callee) == "pkg" && strings.HasPrefix(publicName(callee), "Evaluate")
	}
	var leaves func(v ssa.Value, seen map[ssa.Value]bool, out *[]ssa.Value)
	leaves = func(v ssa.Value, seen map[ssa.Value]bool, out *[]ssa.Value) {
		v = unspill(v)
		if seen[v] {
			return
		}
		seen[v] = true
		if ph, ok := v.(*ssa.Phi); ok {
			for _, e := range ph.Edges {
				leaves(e, seen, out)
			}
			return
		}
		*out = append(*out, v)
	}
	shortcut, nOpStores := "", 0
	for _, b := range efn.Blocks {
		for _, in := range b.Instrs {
			f, base, val := fieldStore(in)
			if f != valueF || base != ssa.Value(receiver(efn)) {
				continue
			}
			var ls []ssa.Value
			leaves(val, map[ssa.Value]bool{}, &ls)
			fromOp := false
			for _, l := range ls {
				if isOpResult(l) {
					fromOp = true
				}
			}
			if !fromOp {
				continue
			}
			nOpStores++
			for _, l := range ls {
				if isOpResult(l) || isZeroValue(l) {
					continue
				}
				shortcut = fmt.Sprintf("at %s the value of an operator node can be %s, which no operator function returned", p.InstrPos(in), l.String())
			}
		}
	}
	c.Check(shortcut == "" && nOpStores >= 1, "Expression.Evaluate / the value of an operator node is the result of its operator function", p.Pos(efn.Pos()), fmt.Sprintf("%d store(s) of operator results, every incoming value is the first result of a pkg.Evaluate* call", nOpStores), shortcut+": that path bypasses the kind tables OPT-9/10 decide (time operands compared as structs instead of instants, mixed signed/unsigned, ...), so the six comparisons no longer agree with each other")
	c.Check(untouched && n >= 15, "Expression.Evaluate / operand values reach the operator functions unchanged", p.Pos(efn.Pos()), "arguments are the very results of the two operand evaluations", "an operand is adjusted between its evaluation and the operator function (at "+where+"): the value compared or computed with is no longer the value of the operand (e.g. a literal converted to the other operand's narrower type wraps around)")
}

// parserExpressionAlternatives extracts from the generated expression(): per alternative its precedence constant, the
// operator rule invoked and the precedence of the recursive call.
func (c *Ctx) parserExpressionAlternatives() ([][3]string, []string) {
	pk := c.P.Pkg("antlr/parser/grulev3")
	var alts [][3]string
	var sempred []string
	if pk == nil {
		return nil, nil
	}
	for _, f := range pk.Syntax {
		for _, d := range f.Decls {
			fd, ok := d.(*ast.FuncDecl)
			if !ok || fd.Recv == nil {
				continue
			}
			switch fd.Name.Name {
			case "expression":
				ast.Inspect(fd.Body, func(n ast.Node) bool {
					sw, ok := n.(*ast.SwitchStmt)
					if !ok || sw.Tag == nil || !strings.Contains(types.ExprString(sw.Tag), "AdaptivePredict") {
						return true
					}
					isBinary := false
					var cur [][3]string
					for _, st := range sw.Body.List {
						cc := st.(*ast.CaseClause)
						var prec, op, rec string
						ast.Inspect(cc, func(x ast.Node) bool {
							call, ok := x.(*ast.CallExpr)
							if !ok {
								return true
							}
							fn := types.ExprString(call.Fun)
							switch {
							case fn == "p.Precpred" && len(call.Args) == 2 && prec == "":
								prec = types.ExprString(call.Args[1])
							case fn == "p.expression" && len(call.Args) == 1:
								rec = types.ExprString(call.Args[0])
							case strings.HasPrefix(fn, "p.") && strings.Contains(fn, "Operator") && len(call.Args) == 0:
								op = strings.TrimPrefix(fn, "p.")
							}
							return true
						})
						if prec != "" && op != "" {
							isBinary = true
							cur = append(cur, [3]string{prec, op, rec})
						}
					}
					if isBinary {
						alts = cur
						return false
					}
					return true
				})
			case "Expression_Sempred":
				ast.Inspect(fd.Body, func(x ast.Node) bool {
					if call, ok := x.(*ast.CallExpr); ok && types.ExprString(call.Fun) == "p.Precpred" && len(call.Args) == 2 {
						sempred = append(sempred, types.ExprString(call.Args[1]))
					}
					return true
				})
			}
		}
	}
	return alts, sempred
}

// docPrecedenceTable reads the "Operator precedence" table of docs/en/GRL_en.md: rank -> operators.
func docPrecedenceTable(repo string) (map[int][]string, error) {
	b, err := os.ReadFile(filepath.Join(repo, "docs", "en", "GRL_en.md"))
	if err != nil {
		return nil, err
	}
	out := map[int][]string{}
	in := false
	for _, line := range strings.Split(string(b), "\n") {
		if strings.HasPrefix(line, "###") {
			in = strings.Contains(strings.ToLower(line), "operator precedence")
			continue
		}
		if !in || !strings.HasPrefix(strings.TrimSpace(line), "|") {
			continue
		}
		cells := splitTableRow(line)
		if len(cells) < 2 {
			continue
		}
		rank, err := strconv.Atoi(strings.TrimSpace(cells[0]))
		if err != nil {
			continue
		}
		for _, m := range regexp.MustCompile("`([^`]+)`").FindAllStringSubmatch(cells[1], -1) {
			out[rank] = append(out[rank], strings.ReplaceAll(m[1], `\|`, "|"))
		}
	}
	if len(out) == 0 {
		return nil, fmt.Errorf("no precedence table")
	}
	return out, nil
}

// splitTableRow splits a markdown table row on unescaped pipes.
func splitTableRow(line string) []string {
	line = strings.TrimSpace(line)
	line = strings.TrimPrefix(line, "|")
	line = strings.TrimSuffix(line, "|")
	var cells []string
	var cur strings.Builder
	for i := 0; i < len(line); i++ {
		if line[i] == '\\' && i+1 < len(line) && line[i+1] == '|' {
			cur.WriteString(`\|`)
			i++
			continue
		}
		if line[i] == '|' {
			cells = append(cells, cur.String())
			cur.Reset()
			continue
		}
		cur.WriteByte(line[i])
	}
	cells = append(cells, cur.String())
	return cells
}

func ruleOPT2(c *Ctx) {
	p := c.P
	order := grammarExpressionOrder(p.RepoDir)
	classes, _ := grammarClasses(p.RepoDir)
	lits, _ := grammarLiterals(p.RepoDir)
	alts, sempred := c.parserExpressionAlternatives()
	if len(order) != 5 || len(alts) == 0 {
		c.Fail("grammar / generated expression()", "antlr/grulev3.g4", fmt.Sprintf("cannot extract the binary alternatives (grammar %d, parser %d)", len(order), len(alts)))
		return
	}
	// generated parser: same class order, strictly decreasing precedence, left associative
	okGen := len(alts) == len(order)
	why := ""
	prev := 1 << 30
	for i, a := range alts {
		prec, _ := strconv.Atoi(a[0])
		rec, _ := strconv.Atoi(a[2])
		if i < len(order) && !strings.EqualFold(a[1], order[i]) {
			okGen, why = false, fmt.Sprintf("alternative %d of the generated parser invokes %s, the grammar lists %s", i+1, a[1], order[i])
		}
		if prec >= prev {
			okGen, why = false, "precedence constants are not strictly decreasing"
		}
		if rec != prec+1 {
			okGen, why = false, fmt.Sprintf("alternative %d recurses with precedence %d instead of %d (not left associative)", i+1, rec, prec+1)
		}
		prev = prec
	}
	c.Check(okGen, "generated expression() / class order, decreasing precedence, left associativity", "antlr/parser/grulev3/grulev3_parser.go", fmt.Sprint(alts), why)
	okSem := len(sempred) >= len(alts)
	for i := range alts {
		if i < len(sempred) && sempred[i] != alts[i][0] {
			okSem = false
		}
	}
	c.Check(okSem, "Expression_Sempred / repeats the precedence constants", "antlr/parser/grulev3/grulev3_parser.go", fmt.Sprint(sempred[:min(len(sempred), len(alts))]), "the semantic predicate table disagrees with the precedence constants of expression()")
	// published table
	doc, err := docPrecedenceTable(p.RepoDir)
	if err != nil {
		c.Fail("docs / operator precedence table", "docs/en/GRL_en.md", err.Error())
		return
	}
	tokenLit := map[string]string{}
	for l, t := range lits {
		tokenLit[t] = l
	}
	var ranks []int
	for r := range doc {
		ranks = append(ranks, r)
	}
	sort.Sort(sort.Reverse(sort.IntSlice(ranks)))
	for i, r := range ranks {
		construct := fmt.Sprintf("docs precedence row %d matches grammar class #%d", r, i+1)
		if i >= len(order) {
			c.Fail(construct, "docs/en/GRL_en.md", "more precedence rows than operator classes")
			continue
		}
		var want []string
		for _, tok := range classes[order[i]] {
			want = append(want, tokenLit[tok])
		}
		got := append([]string{}, doc[r]...)
		sort.Strings(want)
		sort.Strings(got)
		c.Check(strings.Join(want, " ") == strings.Join(got, " "), construct, "docs/en/GRL_en.md", "{"+strings.Join(got, " ")+"}", fmt.Sprintf("the published table lists {%s} at this level, the grammar and parser group {%s} (%s)", strings.Join(got, " "), strings.Join(want, " "), order[i]))
	}
}

func min(a, b int) int {
	if a < b {
		return a
	}
	return b
}

// interpSections parses an ANTLR .interp file.
func interpSections(path string) (map[string][]string, []int64, error) {
	b, err := os.ReadFile(path)
	if err != nil {
		return nil, nil, err
	}
	secs := map[string][]string{}
	var atn []int64
	cur := ""
	for _, line := range strings.Split(string(b), "\n") {
		line = strings.TrimRight(line, "\r")
		if strings.HasSuffix(line, ":") && !strings.HasPrefix(line, "'") && !strings.HasPrefix(line, "[") {
			cur = strings.TrimSuffix(line, ":")
			continue
		}
		if cur == "atn" {
			if strings.HasPrefix(line, "[") {
				if err := json.Unmarshal([]byte(line), &atn); err != nil {
					return nil, nil, err
				}
			}
			continue
		}
		if line == "" {
			continue
		}
		secs[cur] = append(secs[cur], line)
	}
	return secs, atn, nil
}

// staticDataTables extracts staticData.<name> = []T{...} composite literals from a generated file.
func (c *Ctx) staticDataTables(fileSuffix string) (map[string][]string, []int64) {
	pk := c.P.Pkg("antlr/parser/grulev3")
	strs := map[string][]string{}
	var atn []int64
	if pk == nil {
		return strs, nil
	}
	for i, f := range pk.Syntax {
		if !strings.HasSuffix(pk.CompiledGoFiles[i], fileSuffix) {
			continue
		}
		ast.Inspect(f, func(n ast.Node) bool {
			as, ok := n.(*ast.AssignStmt)
			if !ok || len(as.Lhs) != 1 || len(as.Rhs) != 1 {
				return true
			}
			lhs := types.ExprString(as.Lhs[0])
			if !strings.HasPrefix(lhs, "staticData.") {
				return true
			}
			cl, ok := as.Rhs[0].(*ast.CompositeLit)
			if !ok {
				return true
			}
			name := strings.TrimPrefix(lhs, "staticData.")
			for _, e := range cl.Elts {
				neg := false
				if ue, ok := e.(*ast.UnaryExpr); ok && ue.Op == token.SUB {
					neg = true
					e = ue.X
				}
				bl, ok := e.(*ast.BasicLit)
				if !ok {
					continue
				}
				if neg && name == "serializedATN" {
					v, _ := strconv.ParseInt(bl.Value, 0, 64)
					atn = append(atn, -v)
					continue
				}
				if name == "serializedATN" {
					v, _ := strconv.ParseInt(bl.Value, 0, 64)
					atn = append(atn, v)
				} else if bl.Kind == token.STRING {
					s, _ := strconv.Unquote(bl.Value)
					strs[name] = append(strs[name], s)
				}
			}
			return true
		})
	}
	return strs, atn
}

func ruleOPT3(c *Ctx) {
	p := c.P
	dir := filepath.Join(p.RepoDir, "antlr", "parser", "grulev3")
	for _, spec := range []struct{ gofile, interp, what string }{{"grulev3_parser.go", "grulev3.interp", "parser"}, {"grulev3_lexer.go", "grulev3Lexer.interp", "lexer"}} {
		secs, atnI, err := interpSections(filepath.Join(dir, spec.interp))
		if err != nil {
			c.Fail(spec.what+" / .interp readable", "antlr/parser/grulev3/"+spec.interp, err.Error())
			continue
		}
		strs, atnG := c.staticDataTables(spec.gofile)
		sameATN := len(atnI) > 100 && len(atnI) == len(atnG)
		if sameATN {
			for i := range atnI {
				if atnI[i] != atnG[i] {
					sameATN = false
					break
				}
			}
		}
		c.Check(sameATN, spec.what+" / serializedATN equals the .interp ATN", "antlr/parser/grulev3/"+spec.gofile, fmt.Sprintf("%d integers identical", len(atnG)), fmt.Sprintf("the ATN compiled into %s (%d ints) differs from %s (%d ints): the parser that runs is not the one generated from the checked-in grammar", spec.gofile, len(atnG), spec.interp, len(atnI)))
		norm := func(in []string) []string {
			var out []string
			for _, s := range in {
				if s == "null" {
					s = ""
				}
				out = append(out, s)
			}
			return out
		}
		for _, pr := range [][2]string{{"LiteralNames", "token literal names"}, {"SymbolicNames", "token symbolic names"}, {"RuleNames", "rule names"}} {
			g := strs[pr[0]]
			i := norm(secs[pr[1]])
			// the generated tables drop trailing empty entries
			for len(i) > len(g) && i[len(i)-1] == "" {
				i = i[:len(i)-1]
			}
			c.Check(len(g) > 0 && strings.Join(g, "\x00") == strings.Join(i, "\x00"), spec.what+" / "+pr[0]+" equal the .interp section", "antlr/parser/grulev3/"+spec.gofile, fmt.Sprintf("%d names", len(g)), pr[0]+" of the generated "+spec.what+" differ from "+spec.interp)
		}
	}
	// every literal lexer rule of the grammar is a literal of the generated parser under the same symbolic name
	lits, err := grammarLiterals(p.RepoDir)
	strs, _ := c.staticDataTables("grulev3_parser.go")
	if err != nil || len(strs["LiteralNames"]) == 0 {
		c.Fail("grammar literals / generated LiteralNames", "antlr/grulev3.g4", "cannot compare")
		return
	}
	var bad []string
	for lit, tok := range lits {
		found := false
		for i, l := range strs["LiteralNames"] {
			if l == "'"+lit+"'" && i < len(strs["SymbolicNames"]) && strs["SymbolicNames"][i] == tok {
				found = true
			}
		}
		if !found {
			bad = append(bad, tok+"='"+lit+"'")
		}
	}
	sort.Strings(bad)
	c.Check(len(bad) == 0, "grammar literals / present in the generated parser under the same token", "antlr/grulev3.g4", fmt.Sprintf("%d literals", len(lits)), fmt.Sprintf("literal lexer rules %v of grulev3.g4 are not in the generated tables", bad))
}

// ---------- OPT-4 ----------

func ruleOPT4(c *Ctx) {
	p := c.P
	fn := p.Method("ast", "Expression", "Evaluate")
	if fn == nil {
		c.AnchorLost("Expression.Evaluate")
		return
	}
	ops := c.opConstants()
	left := p.Field("ast", "Expression", "LeftExpression")
	right := p.Field("ast", "Expression", "RightExpression")
	opF := p.Field("ast", "Expression", "Operator")
	var lcall, rcall *ssa.Call
	for _, ci := range callsIn(fn) {
		call, ok := ci.(*ssa.Call)
		if !ok || !calleeNameIs(call, "Evaluate") || call.Call.IsInvoke() || len(call.Call.Args) == 0 {
			continue
		}
		if f, _ := fieldLoad(call.Call.Args[0]); f == left {
			lcall = call
		} else if f == right {
			rcall = call
		}
	}
	if lcall == nil || rcall == nil {
		c.Fail("Expression.Evaluate / operand evaluations", p.Pos(fn.Pos()), "left/right operand evaluation calls not found")
		return
	}
	for _, spec := range []struct {
		name    string
		opConst string
		onTrue  bool // short-circuits when the left value is true
	}{{"&&", "OpAnd", false}, {"||", "OpOr", true}} {
		construct := "Expression.Evaluate / `" + spec.name + "` short-circuits on the left operand"
		k := ops[spec.opConst]
		ok := false
		why := "no test of Operator == " + spec.opConst + " found"
		for _, b := range fn.Blocks {
			iff, isIf := b.Instrs[len(b.Instrs)-1].(*ssa.If)
			if !isIf {
				continue
			}
			bo, isBo := iff.Cond.(*ssa.BinOp)
			if !isBo || bo.Op != token.EQL {
				continue
			}
			if f, _ := fieldLoad(bo.X); f != opF {
				continue
			}
			if kk, okk := constInt(bo.Y); !okk || kk != k {
				continue
			}
			if !lcall.Block().Dominates(b) {
				why = "the operator test is not after the left operand's evaluation"
				continue
			}
			if rcall.Block().Dominates(b) {
				why = "the right operand is evaluated before the operator is examined (eager evaluation)"
				continue
			}
			// a return that is not a fresh-error return, reachable from the true edge without evaluating the right operand,
			// and dominated by the edge where the left value's Bool() has the short-circuit polarity
			start := b.Succs[0].Instrs[0]
			var found *ssa.Return
			t, _ := reach(fn, start, func(in ssa.Instruction) bool {
				ret, isRet := in.(*ssa.Return)
				if !isRet {
					return false
				}
				if returnsNonNilError(ret) {
					return false
				}
				found = ret
				return true
			}, func(in ssa.Instruction) bool { return in == ssa.Instruction(rcall) }, func(bb *ssa.BasicBlock, si int) bool {
				// stay inside the region dominated by the true edge
				return b.Succs[0].Dominates(bb.Succs[si]) || bb.Succs[si] == b.Succs[0]
			})
			if isRetAtStart(start) {
				t = start
			}
			if t == nil || found == nil {
				why = "no return is reachable from the " + spec.opConst + " branch without evaluating the right operand (eager evaluation)"
				continue
			}
			pol := edgesDominate(fn, found, func(bb *ssa.BasicBlock, si int) bool {
				i2, isIf2 := bb.Instrs[len(bb.Instrs)-1].(*ssa.If)
				if !isIf2 {
					return false
				}
				kind, sTrue, okc := condOn(i2.Cond, func(v ssa.Value) bool {
					call, isCall := v.(*ssa.Call)
					return isCall && calleeNameIs(call, "Bool")
				})
				if !okc || kind != "bool" {
					return false
				}
				if spec.onTrue {
					return si == sTrue
				}
				return si == 1-sTrue
			})
			if !pol {
				why = "the early return is not taken on the short-circuit value of the left operand (" + map[bool]string{true: "true", false: "false"}[spec.onTrue] + ")"
				continue
			}
			ok = true
		}
		c.Check(ok && lcall.Block().Dominates(rcall.Block()), construct, p.Pos(fn.Pos()), "early return before the right operand is evaluated, on the short-circuit value", why)
	}
}

func isRetAtStart(in ssa.Instruction) bool { _, ok := in.(*ssa.Return); return ok }

// ---------- OPT-5 ----------

func ruleOPT5(c *Ctx) {
	p := c.P
	lm := func(n string) *ssa.Function { return p.Method("antlr", "GruleV3ParserListener", n) }
	// integer
	if fn := lm("ExitIntegerLiteral"); fn == nil {
		c.AnchorLost("ExitIntegerLiteral")
	} else {
		ok := false
		why := "integer literals are not decoded with base 0 / 64 bit: octal and hex notations or large values denote another value"
		for _, ci := range findCalls(fn, matchPkgFunc("strconv", "ParseInt")) {
			base, ok1 := constInt(ci.Common().Args[1])
			bits, ok2 := constInt(ci.Common().Args[2])
			ok = ok1 && ok2 && base == 0 && bits == 64 && calleeNameIs(asCall(ci.Common().Args[0]), "GetText")
		}
		// every decoding call in the callback is that one, on the text of the literal's own context: the optional MINUS
		// belongs to the decimal, hexadecimal and octal literal alike, and a value decoded from a child token loses it
		for _, ci := range callsIn(fn) {
			callee := ci.Common().StaticCallee()
			if callee == nil || callee.Pkg == nil || callee.Pkg.Pkg.Path() != "strconv" || !(strings.HasPrefix(publicName(callee), "Parse") || publicName(callee) == "Atoi") {
				continue
			}
			textCall := asCall(ci.Common().Args[0])
			ownText := false
			if textCall != nil && calleeNameIs(textCall, "GetText") && len(fn.Params) >= 2 {
				var rv ssa.Value
				if textCall.Common().IsInvoke() {
					rv = textCall.Common().Value
				} else if len(textCall.Common().Args) > 0 {
					rv = textCall.Common().Args[0]
					if fa, isFA := rv.(*ssa.FieldAddr); isFA {
						rv = fa.X
					}
				}
				ownText = unspill(rv) == ssa.Value(fn.Params[1])
			}
			if publicName(callee) != "ParseInt" || !ownText {
				ok = false
				why = "a literal is decoded by " + publicName(callee) + " at " + p.InstrPos(ci.(ssa.Instruction)) + " from something other than the whole text of the literal's own context: the sign (salience -0x10, F.X == -0x1F) or the notation is lost on that path"
			}
		}
		c.Check(ok, "ExitIntegerLiteral / strconv.ParseInt(text, 0, 64)", p.Pos(fn.Pos()), "base 0 (decimal, octal, hex prefixes), 64 bit, the only decoding call, on the context's own text", why)
	}
	if fn := lm("ExitFloatLiteral"); fn == nil {
		c.AnchorLost("ExitFloatLiteral")
	} else {
		ok := false
		for _, ci := range findCalls(fn, matchPkgFunc("strconv", "ParseFloat")) {
			bits, ok2 := constInt(ci.Common().Args[1])
			ok = ok2 && bits == 64 && calleeNameIs(asCall(ci.Common().Args[0]), "GetText")
		}
		c.Check(ok, "ExitFloatLiteral / strconv.ParseFloat(text, 64)", p.Pos(fn.Pos()), "64 bit", "float literals are not decoded as 64-bit values")
	}
	if fn := lm("ExitStringLiteral"); fn == nil {
		c.AnchorLost("ExitStringLiteral")
	} else {
		uq := p.Func("antlr", "unquoteString")
		ok := uq != nil && len(findCalls(fn, matchStatic(uq))) == 1
		c.Check(ok, "ExitStringLiteral / decoded by unquoteString", p.Pos(fn.Pos()), "one call", "string literals are no longer unquoted")
		// ... on every path: the decoder is also what refuses a token the lexer lets through but that is not a well-formed
		// literal (a doubled quote inside, a dangling backslash). A fast path around it ("no backslash, nothing to decode")
		// accepts `"a""b"` silently (round-5 seed C17/b). Every path from the entry to the hand-over of the literal
		// (AcceptStringLiteral) passes the call.
		if uq != nil && ok {
			uqCall := findCalls(fn, matchStatic(uq))[0].(ssa.Instruction)
			bypass := ""
			for _, ci := range callsIn(fn) {
				if !calleeNameIs(ci, "AcceptStringLiteral") {
					continue
				}
				if t, path := reach(fn, nil, func(in ssa.Instruction) bool { return in == ci.(ssa.Instruction) }, func(in ssa.Instruction) bool { return in == uqCall }, nil); t != nil {
					bypass = "the literal is handed over at " + p.InstrPos(t) + " on a path that does not decode it (" + strings.Join(pathString(p, path), " -> ") + ")"
				}
			}
			c.Check(bypass == "", "ExitStringLiteral / no path around the decoder", p.Pos(fn.Pos()), "unquoteString on every path to AcceptStringLiteral", bypass+": what only the decoder refuses (a doubled quote inside the token, which the lexer admits) is accepted as a string constant with its raw text as value")
		}
		if uq != nil {
			okChar, okMulti := false, false
			for _, ci := range findCalls(uq, matchPkgFunc("strconv", "UnquoteChar")) {
				call := ci.(*ssa.Call)
				// quote argument is the literal's own first byte
				okChar = derivesFrom(call.Call.Args[1], func(v ssa.Value) bool {
					_, idx := elemOfSlice(v)
					if ix, isIx := v.(*ssa.Index); isIx {
						idx = ix.Index
					}
					k, isK := constInt(idx)
					return idx != nil && isK && k == 0
				}) || quoteFromFirstByte(call.Call.Args[1])
				// the multibyte result steers byte-vs-rune encoding
				for _, ex := range resultValues(call, 1) {
					if refs := ex.Referrers(); refs != nil && len(*refs) > 0 {
						okMulti = true
					}
				}
			}
			c.Check(okChar, "unquoteString / UnquoteChar with the literal's own quote", p.Pos(uq.Pos()), "quote = first byte of the literal", "escapes are decoded against a fixed quote character: the other quote style decodes differently")
			// nothing but the per-character decoder (and the quote checks) may reject a string token: a whole-literal
			// decoder such as strconv.Unquote applies Go's source rules (no raw line feed, quote-dependent escapes) that the
			// GRL token does not have, so a grammatical document would be refused
			var foreign []string
			for _, ci := range callsIn(uq) {
				if errResultIndex(ci.Common().Signature()) < 0 {
					continue
				}
				if matchPkgFunc("strconv", "UnquoteChar")(ci) {
					continue
				}
				foreign = append(foreign, calleeName(ci)+" at "+p.InstrPos(ci.(ssa.Instruction)))
			}
			c.Check(len(foreign) == 0, "unquoteString / only strconv.UnquoteChar can reject a string token", p.Pos(uq.Pos()), "no other fallible call", "the literal is (also) decoded by "+strings.Join(foreign, ", ")+": that decoder has its own grammar, so string tokens the GRL lexer admits (e.g. a raw line break inside \"…\") are rejected or decoded differently")
			c.Check(okMulti, "unquoteString / single bytes from \\x and octal escapes are kept as bytes", p.Pos(uq.Pos()), "UnquoteChar's multibyte result selects byte vs. UTF-8 encoding", "every escape is re-encoded as UTF-8: \"\\xe4\\xb8\\x96\" no longer denotes the Go string (bytes >= 0x80 become two bytes)")
		}
	}
	if fn := lm("ExitBooleanLiteral"); fn == nil {
		c.AnchorLost("ExitBooleanLiteral")
	} else {
		fd := p.FuncDecl(fn)
		tab, _ := switchTable(p.TypesInfo(fn), fd.Body, func(e ast.Expr) bool {
			return strings.HasPrefix(types.ExprString(e), "strings.ToLower(")
		})
		// switchTable returns first string literal of the clause: not useful for bools; inspect assignments instead
		vals := map[string]string{}
		ast.Inspect(fd.Body, func(n ast.Node) bool {
			cc, ok := n.(*ast.CaseClause)
			if !ok || len(cc.List) != 1 {
				return true
			}
			bl, ok := cc.List[0].(*ast.BasicLit)
			if !ok {
				return true
			}
			k, _ := strconv.Unquote(bl.Value)
			ast.Inspect(cc, func(x ast.Node) bool {
				if as, ok := x.(*ast.AssignStmt); ok && len(as.Lhs) == 1 && strings.HasSuffix(types.ExprString(as.Lhs[0]), ".Boolean") {
					vals[k] = types.ExprString(as.Rhs[0])
				}
				return true
			})
			return true
		})
		c.Check(len(tab) >= 2 && vals["true"] == "true" && vals["false"] == "false", "ExitBooleanLiteral / any-case true/false", p.Pos(fn.Pos()), "switch strings.ToLower(text): \"true\"->true, \"false\"->false", fmt.Sprintf("boolean literals are not decoded case-insensitively to their value (lowercased=%v table=%v)", len(tab) >= 2, vals))
	}
}

func asCall(v ssa.Value) ssa.CallInstruction {
	if c, ok := v.(*ssa.Call); ok {
		return c
	}
	return nilCall{}
}

type nilCall struct{ ssa.CallInstruction }

func (nilCall) Common() *ssa.CallCommon {
	return &ssa.CallCommon{Value: ssa.NewConst(nil, types.Typ[types.UntypedNil])}
}

func quoteFromFirstByte(v ssa.Value) bool {
	found := false
	backSlice(v, func(x ssa.Value) bool {
		if ix, ok := x.(*ssa.Index); ok {
			if k, ok := constInt(ix.Index); ok && k == 0 {
				found = true
			}
		}
		if lk, ok := x.(*ssa.Lookup); ok {
			if k, ok := constInt(lk.Index); ok && k == 0 {
				found = true
			}
		}
		return !found
	})
	return found
}

// ---------- OPT-6 ----------

func ruleOPT6(c *Ctx) {
	p := c.P
	// listener sets Negated from ctx.NEGATION() != nil
	for _, spec := range []struct{ fn, typ string }{{"ExitExpressionAtom", "ExpressionAtom"}, {"ExitExpression", "Expression"}} {
		fn := p.Method("antlr", "GruleV3ParserListener", spec.fn)
		neg := p.Field("ast", spec.typ, "Negated")
		if fn == nil || neg == nil {
			c.AnchorLost(spec.fn)
			continue
		}
		ok := false
		for _, b := range fn.Blocks {
			for _, in := range b.Instrs {
				f, _, val := fieldStore(in)
				if f != neg || f == nil {
					continue
				}
				// value is `ctx.NEGATION() != nil`
				if bo, isBo := val.(*ssa.BinOp); isBo && bo.Op == token.NEQ && isNilConst(bo.Y) {
					if call, isCall := bo.X.(*ssa.Call); isCall && calleeNameIs(call, "NEGATION") {
						ok = true
					}
				}
			}
		}
		c.Check(ok, spec.fn+" / Negated = (NEGATION token present)", p.Pos(fn.Pos()), "Negated stored from ctx.NEGATION() != nil", "the negation flag of "+spec.typ+" is not taken from the presence of the `!` token")
	}
	// evaluators negate iff Negated and the value is a bool
	for _, typ := range []string{"Expression", "ExpressionAtom"} {
		fn := p.Method("ast", typ, "Evaluate")
		neg := p.Field("ast", typ, "Negated")
		val := p.Field("ast", typ, "Value")
		if fn == nil {
			c.AnchorLost(typ + ".Evaluate")
			continue
		}
		ok := false
		unwrapped := false
		for _, b := range fn.Blocks {
			for _, in := range b.Instrs {
				f, base, v := fieldStore(in)
				if f != val || f == nil || base != ssa.Value(receiver(fn)) {
					continue
				}
				// reflect.ValueOf(!x.Bool())
				call, isCall := v.(*ssa.Call)
				if !isCall || !calleeNameIs(call, "ValueOf") {
					continue
				}
				isNotBool := derivesFrom(call.Call.Args[0], func(x ssa.Value) bool {
					u, isU := x.(*ssa.UnOp)
					if !isU || u.Op != token.NOT {
						return false
					}
					bc, isBC := u.X.(*ssa.Call)
					return isBC && calleeNameIs(bc, "Bool")
				})
				if !isNotBool {
					continue
				}
				underNeg := edgesDominate(fn, in, func(bb *ssa.BasicBlock, si int) bool {
					iff, isIf := bb.Instrs[len(bb.Instrs)-1].(*ssa.If)
					if !isIf {
						return false
					}
					kind, sTrue, okc := condOn(iff.Cond, func(x ssa.Value) bool {
						lf, lb := fieldLoad(x)
						return lf == neg && lb == ssa.Value(receiver(fn))
					})
					return okc && kind == "bool" && si == sTrue
				})
				underBool := edgesDominate(fn, in, func(bb *ssa.BasicBlock, si int) bool {
					iff, isIf := bb.Instrs[len(bb.Instrs)-1].(*ssa.If)
					if !isIf {
						return false
					}
					bo, isBo := iff.Cond.(*ssa.BinOp)
					if !isBo {
						return false
					}
					kc, isK := bo.X.(*ssa.Call)
					k, okk := constInt(bo.Y)
					if !isK || !calleeNameIs(kc, "Kind") || !okk || k != 1 {
						return false
					}
					// the kind is taken from the operand behind pointers and interfaces, like every other operator does
					if uw, isCall := unspill(kc.Call.Args[0]).(*ssa.Call); isCall && strings.HasSuffix(calleeName(uw), "GetValueElem") {
						unwrapped = true
					}
					return (bo.Op == token.EQL && si == 0) || (bo.Op == token.NEQ && si == 1)
				})
				if underNeg && underBool {
					ok = true
				}
			}
		}
		c.Check(ok, typ+".Evaluate / negates exactly when Negated and the value is a bool", p.Pos(fn.Pos()), "Value = !Value.Bool() under Negated && Kind()==Bool", "negation is applied without the flag, without the kind test, or not at all")
		c.Check(ok && unwrapped, typ+".Evaluate / negation looks at the operand behind pointers and interfaces", p.Pos(fn.Pos()), "kind test on pkg.GetValueElem(value)", "the kind test of `!` is made on the raw value: for a *bool field or a bool held in an interface the negation is skipped with a warning, so `!F.PB && true` equals `F.PB && true` (&&, || and the comparisons do unwrap their operands)")
	}
}

func init() {
	register("OPT-15", "a condition node yields a value only from its memo or after evaluating its own operand", 2, ruleOPT15)
}

// OPT-15: in Expression.Evaluate and ExpressionAtom.Evaluate, a return without error that is not the memo hit on the
// receiver's own Evaluated flag must follow an evaluation of one of the receiver's operands (left operand first for
// binary nodes). A shortcut that answers from somewhere else (a sibling's memo, a cached table) skips the operand's
// errors and makes the result depend on evaluation order.
func ruleOPT15(c *Ctx) {
	p := c.P
	for _, tn := range []string{"Expression", "ExpressionAtom"} {
		top := p.Method("ast", tn, "Evaluate")
		if top == nil {
			c.AnchorLost(tn + ".Evaluate")
			continue
		}
		evF := p.Field("ast", tn, "Evaluated")
		isZero := func(v ssa.Value) bool {
			if k, ok := v.(*ssa.Const); ok {
				return k.Value == nil
			}
			if ld, ok := v.(*ssa.UnOp); ok && ld.Op == token.MUL {
				if al, ok := ld.X.(*ssa.Alloc); ok {
					for _, r := range *al.Referrers() {
						if _, isStore := r.(*ssa.Store); isStore {
							return false
						}
					}
					return true
				}
			}
			return false
		}
		// analyse returns the offending return (nil when the function satisfies the rule) and the number of operand evaluations seen.
		var analyse func(fn *ssa.Function, depth int) (ssa.Instruction, []*ssa.BasicBlock, int)
		analyse = func(fn *ssa.Function, depth int) (ssa.Instruction, []*ssa.BasicBlock, int) {
			recv := ssa.Value(receiver(fn))
			n := 0
			isOperandEval := func(in ssa.Instruction) bool {
				call, ok := in.(*ssa.Call)
				if !ok || len(call.Call.Args) == 0 || call.Call.IsInvoke() {
					return false
				}
				callee := call.Call.StaticCallee()
				if callee == nil {
					return false
				}
				if f, base := fieldLoad(call.Call.Args[0]); f != nil && base == recv && strings.HasPrefix(publicName(callee), "Evaluate") {
					return true
				}
				// delegation: a helper method of the same node that itself satisfies the rule
				if call.Call.Args[0] == recv && callee != fn && callee.Blocks != nil && depth < 2 && callee.Signature.Results().Len() == fn.Signature.Results().Len() {
					if t, _, k := analyse(callee, depth+1); t == nil && k > 0 {
						return true
					}
				}
				return false
			}
			for _, b := range fn.Blocks {
				for _, in := range b.Instrs {
					if isOperandEval(in) {
						n++
					}
				}
			}
			t, path := reach(fn, nil, func(in ssa.Instruction) bool {
				r, ok := in.(*ssa.Return)
				if !ok || returnsNonNilError(r) {
					return false
				}
				first, _ := returnOperandsThroughAllocs(r)
				if first == nil && len(r.Results) > 0 {
					first = r.Results[0]
				}
				return !isZero(first)
			}, isOperandEval, func(b *ssa.BasicBlock, si int) bool {
				iff, isIf := b.Instrs[len(b.Instrs)-1].(*ssa.If)
				if !isIf {
					return true
				}
				kind, sTrue, okc := condOn(iff.Cond, func(v ssa.Value) bool {
					f, base := fieldLoad(v)
					return f == evF && base == recv
				})
				if okc && kind == "bool" {
					return si != sTrue // the memo hit is the one accepted shortcut
				}
				return true
			})
			return t, path, n
		}
		t, path, n := analyse(top, 0)
		if n == 0 {
			c.Fail(tn+".Evaluate / operand evaluations", p.Pos(top.Pos()), "no evaluation of a receiver operand found (anchor lost)")
			continue
		}
		construct := tn + ".Evaluate / no value without evaluating an own operand"
		if t == nil {
			c.OK(construct, p.Pos(top.Pos()), fmt.Sprintf("every non-memo success return with a value follows one of %d operand evaluations", n))
		} else {
			c.Fail(construct, p.InstrPos(t), "a value is returned without error although neither the node's own memo was hit nor any of its operands was evaluated: operand errors are skipped and the answer depends on what other nodes happen to remember", pathString(p, path)...)
		}
	}
}
