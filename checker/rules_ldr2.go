package main

import (
	"fmt"
	"go/token"
	"go/types"
	"sort"
	"strings"

	"golang.org/x/tools/go/ssa"
)

func init() {
	register("LDR-6", "no explicit panic is reachable from a loader entry point without a recover barrier", 8, ruleLDR6)
	register("LDR-7", "implicit panics (index, slice, unchecked type assertion) on barrier-less loader paths are guarded or justified", 10, ruleLDR7)
	register("LDR-8", "allocation sizes taken from the binary stream are bounded", 1, ruleLDR8)
}

type loaderEntry struct {
	name string
	fn   *ssa.Function
}

func (c *Ctx) loaderEntries() []loaderEntry {
	p := c.P
	es := []loaderEntry{
		{"builder.BuildRuleFromResource", p.Method("builder", "RuleBuilder", "BuildRuleFromResource")},
		{"builder.BuildRuleFromResources", p.Method("builder", "RuleBuilder", "BuildRuleFromResources")},
		{"builder.BuildRulesFromBundle", p.Method("builder", "RuleBuilder", "BuildRulesFromBundle")},
		{"pkg.JSONResource.Load", p.Method("pkg", "JSONResource", "Load")},
		{"pkg.ParseJSONRule", p.Func("pkg", "ParseJSONRule")},
		{"pkg.ParseJSONRuleset", p.Func("pkg", "ParseJSONRuleset")},
		{"pkg.ParseRule", p.Func("pkg", "ParseRule")},
		{"ast.DataContext.AddJSON", p.Method("ast", "DataContext", "AddJSON")},
		{"model.NewJSONValueNode", p.Func("model", "NewJSONValueNode")},
		{"ast.LoadKnowledgeBaseFromReader", p.Method("ast", "KnowledgeLibrary", "LoadKnowledgeBaseFromReader")},
	}
	return es
}

// isBarrier: fn installs a deferred recover() in its entry block.
func isBarrier(fn *ssa.Function) bool {
	if fn == nil || fn.Blocks == nil {
		return false
	}
	for _, rb := range findRecoverBarriers(fn) {
		if rb.deferInstr.Block() == fn.Blocks[0] {
			return true
		}
		// installed after some guard code: it is a barrier for the function when every call of a module function
		// (or through an interface) happens after it
		all := true
		db := rb.deferInstr.Block()
		for _, ci := range callsIn(fn) {
			in := ci.(ssa.Instruction)
			if in == rb.deferInstr {
				continue
			}
			if _, isDefer := in.(*ssa.Defer); isDefer {
				continue // runs at the end, under the barrier if that was deferred later... or not at all protected; deferred calls are judged by ERR-4
			}
			callee := ci.Common().StaticCallee()
			if callee != nil && !fnInModule(callee) {
				continue
			}
			if _, isBuiltin := ci.Common().Value.(*ssa.Builtin); isBuiltin {
				continue
			}
			after := (in.Block() == db && instrIndex(in) > instrIndex(rb.deferInstr)) || (in.Block() != db && db.Dominates(in.Block()))
			if !after {
				all = false
			}
		}
		if all {
			return true
		}
	}
	return false
}

// generatedExempt: the generated parser/lexer package (ANTLR output checked in next to its grammar; OPT-3 checks that
// the artefacts agree). Its indices and predicate numbers come from the ATN serialised in the same file.
func generatedExempt(fn *ssa.Function) bool {
	return strings.HasPrefix(fnPkgShort(fn), "antlr/parser/")
}

// barrierlessLoaderFuncs: module functions reachable from the entry without passing below a recover barrier.
func (c *Ctx) barrierlessLoaderFuncs(e loaderEntry) []*ssa.Function {
	if e.fn == nil {
		return nil
	}
	funcs := c.reachableStop([]*ssa.Function{e.fn}, false, func(f *ssa.Function) bool { return isBarrier(f) || isByteSource(f) })
	var out []*ssa.Function
	for f := range funcs {
		if isBarrier(f) {
			continue // its own body runs under its barrier (installed in the entry block)
		}
		if isByteSource(f) && f != e.fn {
			continue
		}
		out = append(out, f)
	}
	sort.Slice(out, func(i, j int) bool { return out[i].String() < out[j].String() })
	return out
}

func ruleLDR6(c *Ctx) {
	p := c.P
	// control
	if fp, err := fixture(); err != nil {
		c.Control(false, err.Error())
	} else {
		pf := fp.Func("Panicker")
		n := 0
		if pf != nil {
			for _, b := range pf.Blocks {
				for _, in := range b.Instrs {
					if _, ok := in.(*ssa.Panic); ok {
						n++
					}
				}
			}
		}
		c.Control(n == 1, "panic-instruction scanner flags the fixture's Panicker")
	}
	for _, e := range c.loaderEntries() {
		if e.fn == nil {
			c.AnchorLost(e.name)
			continue
		}
		if isBarrier(e.fn) {
			c.OK(e.name+" / no unprotected explicit panic", p.Pos(e.fn.Pos()), "the entry point itself installs a recover barrier (SER-8)")
			continue
		}
		var bad []string
		fl := c.barrierlessLoaderFuncs(e)
		for _, f := range fl {
			if generatedExempt(f) {
				continue
			}
			live := liveBlocks(f)
			for _, b := range f.Blocks {
				if !live[b] {
					continue // behind a condition that is a constant (if false {…}, a debug switch that is a const)
				}
				for _, in := range b.Instrs {
					if _, ok := in.(*ssa.Panic); ok {
						bad = append(bad, fnName(f)+" at "+p.InstrPos(in))
					}
				}
			}
		}
		sort.Strings(bad)
		c.Check(len(bad) == 0, e.name+" / no unprotected explicit panic", p.Pos(e.fn.Pos()), fmt.Sprintf("%d barrier-less module functions scanned", len(fl)), "an explicit panic is reachable without a recover barrier: "+strings.Join(bad, "; ")+" (arbitrary input makes the loader panic instead of returning an error)")
	}
}

// ---------- LDR-7 ----------

// ldr7Justified: frozen justifications keyed function : expression kind, one reason each (confirmed by reading).
var ldr7Justified = map[string]string{
	"(*antlr.GruleV3ParserListener).ExitRuleEntry : slice txt[1:len-1]":        "txt is the text of a DQUOTA_STRING/SQUOTA_STRING token, which the lexer only produces with both quotes (length >= 2)",
	"(*antlr.GruleV3ParserListener).EnterVariable : slice GetText()[1:]":       "the text of a memberVariable context starts with DOT and its length was tested > 0 in the same condition",
	"(*antlr.GruleV3ParserListener).EnterExpressionAtom : slice GetText()[1:]": "the text of a memberVariable context starts with DOT and its length was tested > 0",
}

type implicitSite struct {
	fn   *ssa.Function
	in   ssa.Instruction
	kind string
	desc string
}

// indexGuarded: an index/slice operation is safe by a recognised idiom.
func indexGuarded(fn *ssa.Function, loops []*Loop, in ssa.Instruction) (bool, string) {
	lenOf := func(v ssa.Value, of ssa.Value) bool {
		call, ok := v.(*ssa.Call)
		if !ok {
			return false
		}
		bi, ok := call.Call.Value.(*ssa.Builtin)
		return ok && (bi.Name() == "len" || bi.Name() == "cap") && (call.Call.Args[0] == of || sameValueExpr(call.Call.Args[0], of) || sameLocalLoad(call.Call.Args[0], of))
	}
	// boundedBy: idx < len(x) holds on every path to `in`
	boundedBy := func(idx ssa.Value, x ssa.Value) bool {
		if k, ok := constInt(idx); ok {
			// constant index: array of sufficient length, or guarded by a length test
			if at, ok := derefArray(x.Type()); ok && k < at.Len() {
				return true
			}
			return lengthGuard(fn, in, x, k+1)
		}
		// idx == len(x) - k, with a guard len(x) >= k
		if bo, ok := idx.(*ssa.BinOp); ok && bo.Op == token.SUB {
			if k, ok := constInt(bo.Y); ok && k >= 1 && (lenOf(bo.X, x) || lenValueOf(bo.X, x)) && lengthGuard(fn, in, x, k) {
				return true
			}
			// idx == i - k, x == make(T, L - k), guard i < L
			if k, ok := constInt(bo.Y); ok && k >= 0 {
				i := bo.X
				var L ssa.Value
				backSlice(x, func(v ssa.Value) bool {
					if ms, ok := v.(*ssa.MakeSlice); ok {
						if lb, ok := ms.Len.(*ssa.BinOp); ok && lb.Op == token.SUB {
							if k2, ok := constInt(lb.Y); ok && k2 == k {
								L = lb.X
							}
						}
						return false
					}
					return true
				})
				if L != nil && edgesDominate(fn, in, func(b *ssa.BasicBlock, si int) bool {
					iff, ok := b.Instrs[len(b.Instrs)-1].(*ssa.If)
					if !ok {
						return false
					}
					c2, ok := iff.Cond.(*ssa.BinOp)
					return ok && c2.Op == token.LSS && c2.X == i && sameLenCall(c2.Y, L) && si == 0
				}) {
					// and i >= k: i is a phi starting at k that only grows
					if phi, ok := i.(*ssa.Phi); ok {
						for _, e := range phi.Edges {
							if k0, ok := constInt(e); ok && k0 >= k {
								return true
							}
						}
					}
				}
			}
		}
		// loop index: phi with `phi < len(x)` (or < n where x = make(T, n)) as loop condition, or range index
		return edgesDominate(fn, in, func(b *ssa.BasicBlock, si int) bool {
			iff, ok := b.Instrs[len(b.Instrs)-1].(*ssa.If)
			if !ok {
				return false
			}
			bo, ok := iff.Cond.(*ssa.BinOp)
			if !ok {
				return false
			}
			same := func(a ssa.Value) bool { return a == idx || stripConv(a) == stripConv(idx) || plusMinusOne(idx, a) }
			if bo.Op == token.LSS && same(bo.X) && (lenOf(bo.Y, x) || madeWithLen(x, bo.Y)) && si == 0 {
				return true
			}
			if bo.Op == token.GEQ && same(bo.X) && (lenOf(bo.Y, x) || madeWithLen(x, bo.Y)) && si == 1 {
				return true
			}
			return false
		})
	}
	switch x := in.(type) {
	case *ssa.IndexAddr:
		if boundedBy(x.Index, x.X) {
			return true, "index bounded by the length"
		}
	case *ssa.Index:
		if boundedBy(x.Index, x.X) {
			return true, "index bounded by the length"
		}
	case *ssa.Slice:
		// x[lo:hi]: accepted when both are constants 0 / nil, or hi is len-derived under a length guard
		lo, hi := x.Low, x.High
		if lo == nil && hi == nil {
			return true, "full slice"
		}
		if _, isArr := derefArray(x.X.Type()); isArr {
			return true, "slice of an array with constant bounds"
		}
		if lo != nil {
			if k, ok := constInt(lo); ok && hi == nil && lengthGuard(fn, in, x.X, k) {
				return true, "low bound guarded by a length test"
			}
		}
		if lo == nil && hi != nil {
			// x[:n] where n <= len guaranteed by min/len
			if lenOf(hi, x.X) {
				return true, "high bound is the length"
			}
		}
		if lo != nil && hi != nil {
			klo, okLo := constInt(lo)
			if okLo {
				// hi = len(x)-k with a guard len(x) >= klo+k
				if bo, ok := hi.(*ssa.BinOp); ok && bo.Op == token.SUB {
					if kh, ok := constInt(bo.Y); ok && (lenOf(bo.X, x.X) || lenValueOf(bo.X, x.X)) && lengthGuard(fn, in, x.X, klo+kh) {
						return true, "bounds guarded by a length test"
					}
				}
			}
			// written += n loop of WriteFull style: bytes[written:]
		}
	}
	return false, ""
}

func plusMinusOne(a, b ssa.Value) bool {
	if bo, ok := a.(*ssa.BinOp); ok && (bo.Op == token.SUB || bo.Op == token.ADD) {
		if _, ok := constInt(bo.Y); ok && bo.X == b {
			return bo.Op == token.SUB
		}
	}
	return false
}

func derefArray(t types.Type) (*types.Array, bool) {
	if p, ok := t.Underlying().(*types.Pointer); ok {
		t = p.Elem()
	}
	a, ok := t.Underlying().(*types.Array)
	return a, ok
}

// sameLocalLoad: both values are loads of the same local variable (an address-taken local such as the target of
// json.Unmarshal), or loads of the same element address.
func sameLocalLoad(a, b ssa.Value) bool {
	ua, ok1 := a.(*ssa.UnOp)
	ub, ok2 := b.(*ssa.UnOp)
	if !ok1 || !ok2 || ua.Op != token.MUL || ub.Op != token.MUL {
		return false
	}
	_, isAlloc := ua.X.(*ssa.Alloc)
	return isAlloc && ua.X == ub.X
}

// madeWithLen: x is make([]T, n) (possibly through a phi-free local) and bound is n.
func madeWithLen(x ssa.Value, bound ssa.Value) bool {
	found := false
	isMadeWith := func(v ssa.Value) bool {
		ms, ok := v.(*ssa.MakeSlice)
		return ok && (ms.Len == bound || stripConv(ms.Len) == stripConv(bound) || sameLenCall(ms.Len, bound))
	}
	// x was put, in a dominating block of the same function, into the field or map element it is now read from:
	//   base.f = make(T, n) ... base.f[i]        m[k] = make(T, n) ... m[k][i]
	if inst, ok := x.(ssa.Instruction); ok && inst.Parent() != nil {
		fn := inst.Parent()
		if f, base := fieldLoad(x); f != nil {
			for _, b := range fn.Blocks {
				for _, in := range b.Instrs {
					if sf, sbase, val := fieldStore(in); sf == f && sbase == base && isMadeWith(val) && b.Dominates(inst.Block()) {
						return true
					}
				}
			}
		}
		var lk *ssa.Lookup
		switch y := x.(type) {
		case *ssa.Lookup:
			lk = y
		case *ssa.Extract:
			lk, _ = y.Tuple.(*ssa.Lookup)
		}
		if lk != nil {
			for _, b := range fn.Blocks {
				for _, in := range b.Instrs {
					mu, ok := in.(*ssa.MapUpdate)
					if !ok || !isMadeWith(mu.Value) || !b.Dominates(inst.Block()) {
						continue
					}
					if (mu.Map == lk.X || sameValueExpr(mu.Map, lk.X)) && (mu.Key == lk.Index || sameValueExpr(mu.Key, lk.Index)) {
						return true
					}
				}
			}
		}
	}
	backSlice(x, func(v ssa.Value) bool {
		if ms, ok := v.(*ssa.MakeSlice); ok {
			if ms.Len == bound || stripConv(ms.Len) == stripConv(bound) {
				found = true
			}
			if sameLenCall(ms.Len, bound) {
				found = true
			}
			return false
		}
		return true
	})
	return found
}

func lenValueOf(v ssa.Value, of ssa.Value) bool {
	// v is a phi-free local holding len(of)
	call, ok := v.(*ssa.Call)
	if !ok {
		return false
	}
	bi, ok := call.Call.Value.(*ssa.Builtin)
	return ok && bi.Name() == "len" && (call.Call.Args[0] == of || sameStringSource(call.Call.Args[0], of))
}

func sameStringSource(a, b ssa.Value) bool {
	return stripConv(a) == stripConv(b)
}

// lengthGuard: every path to `in` passes an edge implying len(x) >= need.
func lengthGuard(fn *ssa.Function, in ssa.Instruction, x ssa.Value, need int64) bool {
	if need <= 0 {
		return true
	}
	isLen := func(v ssa.Value) bool {
		call, ok := v.(*ssa.Call)
		if !ok {
			return false
		}
		bi, ok := call.Call.Value.(*ssa.Builtin)
		if !ok || bi.Name() != "len" {
			return false
		}
		a := call.Call.Args[0]
		return a == x || sameValueExpr(a, x) || stripConv(a) == stripConv(x) || sameCallExpr(a, x)
	}
	return edgesDominate(fn, in, func(b *ssa.BasicBlock, si int) bool {
		iff, ok := b.Instrs[len(b.Instrs)-1].(*ssa.If)
		if !ok {
			return false
		}
		bo, ok := iff.Cond.(*ssa.BinOp)
		if !ok || !isLen(bo.X) {
			return false
		}
		k, ok := constInt(bo.Y)
		if !ok {
			return false
		}
		switch bo.Op {
		case token.LSS: // len < k : false edge gives len >= k
			return si == 1 && k >= need
		case token.LEQ:
			return si == 1 && k+1 >= need
		case token.GEQ:
			return si == 0 && k >= need
		case token.GTR:
			return si == 0 && k+1 >= need
		case token.EQL:
			return (si == 0 && k >= need) || (si == 1 && k == 0 && need == 1)
		case token.NEQ:
			return (si == 1 && k >= need) || (si == 0 && k == 0 && need == 1)
		}
		return false
	})
}

// sameCallExpr: both values are calls of the same method on the same receiver chain (ctx.X().GetText()).
func sameCallExpr(a, b ssa.Value) bool {
	ca, ok1 := a.(*ssa.Call)
	cb, ok2 := b.(*ssa.Call)
	if !ok1 || !ok2 {
		return false
	}
	if ca.Call.IsInvoke() != cb.Call.IsInvoke() {
		return false
	}
	if ca.Call.IsInvoke() {
		if ca.Call.Method != cb.Call.Method {
			return false
		}
		return ca.Call.Value == cb.Call.Value || sameCallExpr(ca.Call.Value, cb.Call.Value)
	}
	if ca.Call.StaticCallee() == nil || ca.Call.StaticCallee() != cb.Call.StaticCallee() || len(ca.Call.Args) != len(cb.Call.Args) {
		return false
	}
	for i := range ca.Call.Args {
		if ca.Call.Args[i] != cb.Call.Args[i] && !sameCallExpr(ca.Call.Args[i], cb.Call.Args[i]) {
			return false
		}
	}
	return true
}

func siteExprDesc(in ssa.Instruction) string {
	switch x := in.(type) {
	case *ssa.IndexAddr:
		return "index " + shortVal(x.X) + "[" + shortVal(x.Index) + "]"
	case *ssa.Index:
		return "index " + shortVal(x.X) + "[" + shortVal(x.Index) + "]"
	case *ssa.Slice:
		lo, hi := "", ""
		if x.Low != nil {
			lo = shortVal(x.Low)
		}
		if x.High != nil {
			hi = shortVal(x.High)
		}
		return "slice " + shortVal(x.X) + "[" + lo + ":" + hi + "]"
	case *ssa.TypeAssert:
		return "assert " + shortVal(x.X) + ".(" + types.TypeString(x.AssertedType, func(p *types.Package) string { return p.Name() }) + ")"
	}
	return in.String()
}

func shortVal(v ssa.Value) string {
	switch x := v.(type) {
	case *ssa.Const:
		return x.Value.ExactString()
	case *ssa.Parameter:
		return x.Name()
	case *ssa.Call:
		if x.Call.IsInvoke() {
			return x.Call.Method.Name() + "()"
		}
		if bi, ok := x.Call.Value.(*ssa.Builtin); ok {
			return bi.Name()
		}
		if f := x.Call.StaticCallee(); f != nil {
			return f.Name() + "()"
		}
	case *ssa.BinOp:
		return shortVal(x.X) + x.Op.String() + shortVal(x.Y)
	case *ssa.UnOp:
		if f, _ := fieldLoad(v); f != nil {
			return f.Name()
		}
		if a, ok := x.X.(*ssa.Alloc); ok {
			return a.Comment
		}
	case *ssa.Phi:
		return x.Comment
	case *ssa.Alloc:
		return x.Comment
	case *ssa.Extract:
		return "r" + fmt.Sprint(x.Index)
	case *ssa.MakeSlice:
		return "make"
	case *ssa.Slice:
		return shortVal(x.X) + "[:]"
	}
	return v.Name()
}

func ruleLDR7(c *Ctx) {
	p := c.P
	seen := map[ssa.Instruction]bool{}
	nFuncs := map[*ssa.Function]bool{}
	total, guarded := 0, 0
	for _, e := range c.loaderEntries() {
		if e.fn == nil || isBarrier(e.fn) {
			continue
		}
		for _, f := range c.barrierlessLoaderFuncs(e) {
			if generatedExempt(f) || nFuncs[f] {
				continue
			}
			nFuncs[f] = true
			loops := naturalLoops(f)
			for _, b := range f.Blocks {
				for _, in := range b.Instrs {
					if seen[in] {
						continue
					}
					kind := ""
					switch x := in.(type) {
					case *ssa.IndexAddr:
						// writes into a fresh array literal (varargs etc.) are compiler generated and in range
						if _, isAlloc := x.X.(*ssa.Alloc); isAlloc {
							continue
						}
						kind = "index"
					case *ssa.Index:
						kind = "index"
					case *ssa.Slice:
						if _, isAlloc := x.X.(*ssa.Alloc); isAlloc {
							continue
						}
						kind = "slice"
					case *ssa.TypeAssert:
						if x.CommaOk {
							continue
						}
						kind = "assert"
					default:
						continue
					}
					seen[in] = true
					total++
					desc := siteExprDesc(in)
					construct := fmt.Sprintf("%s : %s", fnName(f), desc)
					if kind != "assert" {
						if ok, how := indexGuarded(f, loops, in); ok {
							guarded++
							c.OK(construct, p.InstrPos(in), how)
							continue
						}
					} else {
						// an unchecked assertion inside a type switch case / after a comma-ok test of the same value is safe
						if assertGuarded(f, in.(*ssa.TypeAssert)) {
							guarded++
							c.OK(construct, p.InstrPos(in), "dominated by a successful type test of the same value")
							continue
						}
					}
					if reason, ok := ldr7JustifiedFor(f, in); ok {
						c.OK(construct+" [justified]", p.InstrPos(in), "frozen justification: "+reason)
						continue
					}
					c.Fail(construct, p.InstrPos(in), "this "+kind+" operation can panic on arbitrary input: it is on a loader path without recover barrier, no dominating guard was recognised and it is not in the table of justified sites")
				}
			}
		}
	}
	c.Notes = append(c.Notes, fmt.Sprintf("LDR-7 scanned %d barrier-less loader functions: %d candidate sites, %d discharged by a recognised guard", len(nFuncs), total, guarded))
}

// assertGuarded: x.(T) is dominated by the ok edge of a comma-ok assertion of the same value to the same type, or is part
// of a type switch (the SSA of a type switch uses comma-ok asserts, so plain asserts never arise there).
func assertGuarded(fn *ssa.Function, ta *ssa.TypeAssert) bool {
	return edgesDominate(fn, ta, func(b *ssa.BasicBlock, si int) bool {
		iff, ok := b.Instrs[len(b.Instrs)-1].(*ssa.If)
		if !ok {
			return false
		}
		kind, sTrue, okc := condOn(iff.Cond, func(v ssa.Value) bool {
			ex, isEx := v.(*ssa.Extract)
			if !isEx || ex.Index != 1 {
				return false
			}
			t2, isTA := ex.Tuple.(*ssa.TypeAssert)
			return isTA && t2.CommaOk && t2.X == ta.X && types.Identical(t2.AssertedType, ta.AssertedType)
		})
		return okc && kind == "bool" && si == sTrue
	})
}

// ldr7JustifiedFor matches the frozen justification table: keyed by function and a coarse expression shape.
func ldr7JustifiedFor(f *ssa.Function, in ssa.Instruction) (string, bool) {
	desc := siteExprDesc(in)
	for k, reason := range ldr7Justified {
		parts := strings.SplitN(k, " : ", 2)
		if parts[0] != fnName(f) {
			continue
		}
		want := parts[1]
		switch {
		case strings.HasPrefix(want, "slice GetText()[1:]") && strings.HasPrefix(desc, "slice GetText()[1:]"):
			return reason, true
		case strings.HasPrefix(want, "slice txt[1:len-1]") && strings.HasPrefix(desc, "slice ") && strings.Contains(desc, "[1:len-1]"):
			return reason, true
		case want == desc:
			return reason, true
		}
	}
	return "", false
}

// ---------- LDR-8 ----------

// streamSized: v derives from a length/count read from the binary stream.
func streamSized(v ssa.Value) bool {
	return derivesFromArgs(v, func(x ssa.Value) bool {
		call, ok := x.(*ssa.Call)
		if !ok {
			return false
		}
		n := calleeName(call)
		return strings.HasSuffix(n, "ReadIntFromReader") || strings.Contains(n, "Uint64") && strings.Contains(n, "binary")
	})
}

// derivesFromArgs is derivesFrom that also looks through conversions and arithmetic.
func derivesFromArgs(v ssa.Value, pred func(ssa.Value) bool) bool {
	found := false
	seen := map[ssa.Value]bool{}
	var rec func(v ssa.Value, d int)
	rec = func(v ssa.Value, d int) {
		if v == nil || seen[v] || found || d > 10 {
			return
		}
		seen[v] = true
		if pred(v) {
			found = true
			return
		}
		switch x := v.(type) {
		case *ssa.Convert:
			rec(x.X, d+1)
		case *ssa.ChangeType:
			rec(x.X, d+1)
		case *ssa.Extract:
			rec(x.Tuple, d+1)
		case *ssa.BinOp:
			rec(x.X, d+1)
			rec(x.Y, d+1)
		case *ssa.Phi:
			for _, e := range x.Edges {
				rec(e, d+1)
			}
		case *ssa.UnOp:
			if a, ok := x.X.(*ssa.Alloc); ok {
				for _, r := range *a.Referrers() {
					if st, ok := r.(*ssa.Store); ok && st.Addr == ssa.Value(a) {
						rec(st.Val, d+1)
					}
				}
			}
		}
	}
	rec(v, 0)
	return found
}

// sizeSanitised: the allocation is dominated by a comparison of the size value against a bound whose failing edge
// leaves through an error return.
func sizeSanitised(fn *ssa.Function, mk ssa.Instruction, size ssa.Value) bool {
	roots := map[ssa.Value]bool{}
	var collect func(v ssa.Value, d int)
	collect = func(v ssa.Value, d int) {
		if v == nil || d > 6 || roots[v] {
			return
		}
		roots[v] = true
		switch x := v.(type) {
		case *ssa.Convert:
			collect(x.X, d+1)
		case *ssa.ChangeType:
			collect(x.X, d+1)
		case *ssa.BinOp:
			collect(x.X, d+1)
		}
	}
	collect(size, 0)
	loops := naturalLoops(fn)
	return edgesDominate(fn, mk, func(b *ssa.BasicBlock, si int) bool {
		iff, ok := b.Instrs[len(b.Instrs)-1].(*ssa.If)
		if !ok {
			return false
		}
		bo, ok := iff.Cond.(*ssa.BinOp)
		if !ok {
			return false
		}
		var other ssa.Value
		if roots[bo.X] {
			other = bo.Y
		} else if roots[bo.Y] {
			other = bo.X
		} else {
			return false
		}
		_ = other
		switch bo.Op {
		case token.GTR, token.GEQ, token.LSS, token.LEQ:
			// the other edge must be an error exit
			return onlyErrorReturns(b.Succs[1-si], loops)
		}
		return false
	})
}

func ruleLDR8(c *Ctx) {
	p := c.P
	// control
	if fp, err := fixture(); err != nil {
		c.Control(false, err.Error())
	} else {
		af := fp.Func("Allocator")
		n := 0
		if af != nil {
			for _, b := range af.Blocks {
				for _, in := range b.Instrs {
					if ms, ok := in.(*ssa.MakeSlice); ok && derivesFromArgs(ms.Len, func(v ssa.Value) bool { _, isP := v.(*ssa.Parameter); return isP }) {
						n++
					}
				}
			}
		}
		c.Control(n == 1, "size-taint scanner flags the fixture's Allocator")
	}
	fl := c.storeLoadFuncs()
	n := 0
	for _, fn := range fl {
		for _, b := range fn.Blocks {
			for _, in := range b.Instrs {
				var size ssa.Value
				switch x := in.(type) {
				case *ssa.MakeSlice:
					if streamSized(x.Len) {
						size = x.Len
					} else if streamSized(x.Cap) {
						size = x.Cap
					}
				case *ssa.MakeMap:
					if x.Reserve != nil && streamSized(x.Reserve) {
						size = x.Reserve
					}
				}
				if size == nil {
					continue
				}
				n++
				construct := fmt.Sprintf("%s / make sized by a stream value", fnName(fn))
				c.Check(sizeSanitised(fn, in, size), construct, p.InstrPos(in), "size compared against a bound before allocating", "a length/count read from the stream is used as an allocation size without a bound: a few corrupt bytes request terabytes and the runtime aborts the process (recover cannot help)")
			}
		}
	}
	if n == 0 {
		c.OK("load path / no allocation sized by an unvalidated stream value", "-", fmt.Sprintf("%d functions scanned, no make() whose size derives from ReadIntFromReader/binary.Uint64", len(fl)))
	}
	c.Notes = append(c.Notes, fmt.Sprintf("LDR-8 scanned %d load/store functions, %d stream-sized allocations", len(fl), n))
}

// sameLenCall: both values are len(...) of the same value.
func sameLenCall(a, b ssa.Value) bool {
	if a == b {
		return true
	}
	ca, ok1 := a.(*ssa.Call)
	cb, ok2 := b.(*ssa.Call)
	if !ok1 || !ok2 {
		return false
	}
	ba, ok1 := ca.Call.Value.(*ssa.Builtin)
	bb, ok2 := cb.Call.Value.(*ssa.Builtin)
	if !ok1 || !ok2 || ba.Name() != "len" || bb.Name() != "len" {
		return false
	}
	x, y := ca.Call.Args[0], cb.Call.Args[0]
	return x == y || sameValueExpr(x, y) || sameLocalLoad(x, y)
}

// isByteSource: Load/MustLoad of a resource that only *obtains* bytes (file, URL, git, reader, embedded). C20 quantifies
// over the bytes presented to a loader, not over I/O faults while fetching them; the JSON resources are not sources, they
// translate the bytes and stay in scope.
func isByteSource(f *ssa.Function) bool {
	if f == nil || f.Signature.Recv() == nil || fnPkgShort(f) != "pkg" {
		return false
	}
	root := f
	for root.Parent() != nil {
		root = root.Parent()
	}
	if root.Name() != "Load" && root.Name() != "MustLoad" {
		return false
	}
	t := root.Signature.Recv().Type()
	if pt, ok := t.(*types.Pointer); ok {
		t = pt.Elem()
	}
	n, ok := t.(*types.Named)
	return ok && !strings.HasPrefix(n.Obj().Name(), "JSON")
}

func init() {
	register("LDR-11", "a JSON null cannot become a nil pointer that a loader dereferences", 3, ruleLDR11)
}

// pointerComponents lists the pointer types met inside t (slice/array elements, map values, struct fields), i.e. the
// places where encoding/json stores nil for a JSON null.
func pointerComponents(t types.Type, path string, seen map[types.Type]bool, out map[string]*types.Pointer) {
	if seen[t] {
		return
	}
	seen[t] = true
	switch u := t.Underlying().(type) {
	case *types.Pointer:
		out[path] = u
		pointerComponents(u.Elem(), path+"*", seen, out)
	case *types.Slice:
		pointerComponents(u.Elem(), path+"[]", seen, out)
	case *types.Array:
		pointerComponents(u.Elem(), path+"[]", seen, out)
	case *types.Map:
		pointerComponents(u.Elem(), path+"[k]", seen, out)
	case *types.Struct:
		for i := 0; i < u.NumFields(); i++ {
			pointerComponents(u.Field(i).Type(), path+"."+u.Field(i).Name(), seen, out)
		}
	}
}

// nilGuarded: instruction `at` is dominated by the non-nil edge of a nil test of v.
func nilGuarded(fn *ssa.Function, at ssa.Instruction, v ssa.Value) bool {
	return edgesDominate(fn, at, func(b *ssa.BasicBlock, si int) bool {
		iff, isIf := b.Instrs[len(b.Instrs)-1].(*ssa.If)
		if !isIf {
			return false
		}
		kind, sNil, okc := condOn(iff.Cond, func(x ssa.Value) bool { return x == v })
		return okc && kind == "nil" && si == 1-sNil
	})
}

// unguardedDerefs: dereferences (field address, load through) of pointer value v in fn that no nil test protects; values
// handed to module callees are followed one level into the callee's parameter.
func (c *Ctx) unguardedDerefs(fn *ssa.Function, v ssa.Value, depth int) []string {
	p := c.P
	var bad []string
	refs := v.Referrers()
	if refs == nil {
		return nil
	}
	for _, r := range *refs {
		switch x := r.(type) {
		case *ssa.FieldAddr:
			if x.X == v && !nilGuarded(fn, x, v) {
				bad = append(bad, "field access at "+p.InstrPos(x))
			}
		case *ssa.UnOp:
			if x.Op == token.MUL && x.X == v && !nilGuarded(fn, x, v) {
				bad = append(bad, "load at "+p.InstrPos(x))
			}
		case *ssa.Phi:
			bad = append(bad, c.unguardedDerefs(fn, x, depth)...)
		case ssa.CallInstruction:
			if nilGuarded(fn, x.(ssa.Instruction), v) {
				continue
			}
			callee := x.Common().StaticCallee()
			if callee == nil || callee.Blocks == nil || !fnInModule(callee) || depth >= 2 {
				continue
			}
			for i, a := range x.Common().Args {
				if a == v && i < len(callee.Params) {
					for _, b := range c.unguardedDerefs(callee, callee.Params[i], depth+1) {
						bad = append(bad, b+" (via "+fnName(callee)+")")
					}
				}
			}
		}
	}
	return bad
}

func ruleLDR11(c *Ctx) {
	p := c.P
	seenFn := map[*ssa.Function]bool{}
	n := 0
	for _, e := range c.loaderEntries() {
		if e.fn == nil {
			c.AnchorLost(e.name)
			continue
		}
		for _, fn := range c.barrierlessLoaderFuncs(e) {
			if seenFn[fn] || generatedExempt(fn) {
				continue
			}
			seenFn[fn] = true
			for _, ci := range callsIn(fn) {
				name := calleeName(ci)
				if name != "encoding/json.Unmarshal" && name != "(*encoding/json.Decoder).Decode" {
					continue
				}
				args := ci.Common().Args
				target := args[len(args)-1]
				if mi, ok := target.(*ssa.MakeInterface); ok {
					target = mi.X
				}
				// a decode helper: the target is a parameter, typed at the call sites of the helper
				var targets []ssa.Value
				if prm, isPrm := unspill(target).(*ssa.Parameter); isPrm {
					idx := -1
					for i, fp := range fn.Params {
						if fp == prm {
							idx = i
						}
					}
					if node := p.CallGraph().Nodes[fn]; node != nil && idx >= 0 {
						for _, in := range node.In {
							if in.Site == nil || in.Site.Common().StaticCallee() != fn || idx >= len(in.Site.Common().Args) {
								continue
							}
							a := in.Site.Common().Args[idx]
							if mi, ok := a.(*ssa.MakeInterface); ok {
								a = mi.X
							}
							targets = append(targets, a)
						}
					}
				} else {
					targets = []ssa.Value{target}
				}
				if len(targets) == 0 {
					c.Undecided(fnName(fn)+" / decode target", p.InstrPos(ci.(ssa.Instruction)), "decode target is a parameter and no call site of the helper was found")
					continue
				}
				for _, target := range targets {
					pt, ok := target.Type().Underlying().(*types.Pointer)
					if !ok {
						c.Undecided(fnName(fn)+" / decode target", p.InstrPos(ci.(ssa.Instruction)), "decode target is not a pointer the rule can type")
						continue
					}
					n++
					comps := map[string]*types.Pointer{}
					pointerComponents(pt.Elem(), "", map[types.Type]bool{}, comps)
					construct := fmt.Sprintf("%s / decode into %s", fnName(fn), types.TypeString(pt.Elem(), func(pk *types.Package) string { return pk.Name() }))
					if len(comps) == 0 {
						c.OK(construct, p.InstrPos(ci.(ssa.Instruction)), "the target type has no pointer components: a JSON null leaves a zero value, never a nil pointer")
						continue
					}
					// every load of such a pointer in the loader functions must be nil-tested before it is dereferenced
					var bad []string
					for _, lf := range c.barrierlessLoaderFuncs(e) {
						for _, b := range lf.Blocks {
							for _, in := range b.Instrs {
								v, isVal := in.(ssa.Value)
								if !isVal {
									continue
								}
								isComp := false
								for _, cp := range comps {
									if types.Identical(v.Type(), cp) {
										isComp = true
									}
								}
								if !isComp {
									continue
								}
								switch x := v.(type) {
								case *ssa.UnOp:
									if x.Op != token.MUL {
										continue
									}
									if _, isAlloc := x.X.(*ssa.Alloc); isAlloc {
										continue // a local variable's value: judged where it was produced
									}
								case *ssa.Extract, *ssa.Lookup:
								default:
									continue
								}
								for _, d := range c.unguardedDerefs(lf, v, 0) {
									bad = append(bad, d)
								}
							}
						}
					}
					sort.Strings(bad)
					var paths []string
					for k := range comps {
						paths = append(paths, k)
					}
					sort.Strings(paths)
					c.Check(len(bad) == 0, construct, p.InstrPos(ci.(ssa.Instruction)), fmt.Sprintf("pointer components %v are nil-tested before every dereference", paths), fmt.Sprintf("the target type has pointer components %v: a JSON `null` there decodes to a nil pointer, which is dereferenced without a nil test (%s): the loader panics on that input", paths, strings.Join(uniq(bad), "; ")))
				}
			}
		}
	}
	if n == 0 {
		c.Fail("JSON decode sites on loader paths", "-", "no json.Unmarshal / Decoder.Decode call found on a loader path (anchor lost)")
	}
}

func init() {
	register("LDR-12", "a node's snapshot renders each child at most once on any path (snapshot size stays linear in the rule text)", 13, ruleLDR12)
}

// LDR-12: GetSnapshot is called for every node while a rule text is loaded. If one path through a node's GetSnapshot
// renders the same child twice, the text doubles per nesting level: a rule text of n bytes costs 2^n bytes of memory.
func ruleLDR12(c *Ctx) {
	p := c.P
	for _, n := range nodeTypeNames {
		fn := p.Method("ast", n, "GetSnapshot")
		if fn == nil {
			c.AnchorLost("(*ast." + n + ").GetSnapshot")
			continue
		}
		recv := ssa.Value(receiver(fn))
		type site struct {
			call  *ssa.Call
			field *types.Var
		}
		var sites []site
		for _, ci := range callsIn(fn) {
			call, ok := ci.(*ssa.Call)
			if !ok || !calleeNameIs(call, "GetSnapshot") {
				continue
			}
			var rv ssa.Value
			if call.Call.IsInvoke() {
				rv = call.Call.Value
			} else if len(call.Call.Args) > 0 {
				rv = call.Call.Args[0]
			}
			if f, base := fieldLoad(unspill(rv)); f != nil && base == recv {
				sites = append(sites, site{call, f})
			}
		}
		bad := ""
		for i, a := range sites {
			for j, b := range sites {
				if i == j || a.field != b.field {
					continue
				}
				if t, _ := reach(fn, a.call, func(in ssa.Instruction) bool { return in == ssa.Instruction(b.call) }, nil, nil); t != nil {
					bad = fmt.Sprintf("child %s is rendered at %s and again at %s on the same path", a.field.Name(), p.InstrPos(a.call), p.InstrPos(b.call))
				}
			}
		}
		c.Check(bad == "", n+".GetSnapshot / no child rendered twice on one path", p.Pos(fn.Pos()), fmt.Sprintf("%d child renderings, pairwise on exclusive paths or of different children", len(sites)), bad+": the snapshot doubles with every nesting level of this form, so a rule text of a few dozen bytes makes the loader allocate gigabytes")
	}
}

func init() {
	register("LDR-13", "the rule text that is lexed is byte for byte what the resource delivered", 1, ruleLDR13)
}

// LDR-13: string literals keep every raw character (OPT-5), so any normalisation of the text before lexing (line ends,
// BOM, trimming, case) changes what a literal denotes and what the grammar sees.
func ruleLDR13(c *Ctx) {
	p := c.P
	fn := p.Method("builder", "RuleBuilder", "BuildRuleFromResource")
	if fn == nil {
		c.AnchorLost("BuildRuleFromResource")
		return
	}
	n := 0
	for _, ci := range callsIn(fn) {
		name := calleeName(ci)
		if !strings.HasSuffix(name, "NewInputStream") {
			continue
		}
		n++
		arg := ci.Common().Args[0]
		// allowed: string(data) where data is the first result of resource.Load()
		v := arg
		okChain := true
		why := ""
		for depth := 0; depth < 6; depth++ {
			v = unspill(v)
			switch x := v.(type) {
			case *ssa.Convert:
				v = x.X
				continue
			case *ssa.ChangeType:
				v = x.X
				continue
			case *ssa.Extract:
				if call, ok := x.Tuple.(*ssa.Call); ok && x.Index == 0 && call.Call.IsInvoke() && call.Call.Method.Name() == "Load" {
					v = nil
				} else {
					okChain, why = false, "the text does not come from resource.Load()"
				}
			case *ssa.Call:
				okChain, why = false, "the text passes through "+calleeName(x)+" before it is lexed"
			case *ssa.Phi:
				okChain, why = false, "the text lexed is chosen among several values"
			case *ssa.Slice:
				okChain, why = false, "only a part of the loaded bytes is lexed"
			default:
				okChain, why = false, fmt.Sprintf("unrecognised producer %T", v)
			}
			break
		}
		c.Check(okChain, "BuildRuleFromResource / lexer input is string(resource.Load())", p.InstrPos(ci.(ssa.Instruction)), "no transformation between Load and the lexer", why+": a raw character inside a string literal (a CR before LF, a BOM, trailing blanks) is altered, so the literal denotes another string than the one written")
	}
	if n == 0 {
		c.Fail("BuildRuleFromResource / lexer input", p.Pos(fn.Pos()), "no antlr.NewInputStream call (anchor lost)")
	}
}

func init() {
	register("LDR-14", "a rule entry reaches the knowledge base only with its when and then scope", 1, ruleLDR14)
}

// LDR-14: after a syntax error the parser's recovery can still leave a rule context without body. An entry with a nil
// scope in the knowledge base makes every traversal that assumes both scopes (GetSnapshot, and with it cloning, the
// self-check and cataloguing) dereference nil: outside any recover barrier that is a crash of the loader or of the
// next NewKnowledgeBaseInstance.
func ruleLDR14(c *Ctx) {
	p := c.P
	fn := p.Method("antlr", "GruleV3ParserListener", "ExitRuleEntry")
	if fn == nil {
		c.AnchorLost("ExitRuleEntry")
		return
	}
	whenF, thenF := p.Field("ast", "RuleEntry", "WhenScope"), p.Field("ast", "RuleEntry", "ThenScope")
	n := 0
	for _, ci := range callsIn(fn) {
		if !ci.Common().IsInvoke() || ci.Common().Method.Name() != "ReceiveRuleEntry" {
			continue
		}
		n++
		entry := unspill(ci.Common().Args[0])
		for _, f := range []*types.Var{whenF, thenF} {
			ff := f
			ok := edgesDominate(fn, ci.(ssa.Instruction), func(b *ssa.BasicBlock, si int) bool {
				iff, isIf := b.Instrs[len(b.Instrs)-1].(*ssa.If)
				if !isIf {
					return false
				}
				kind, sNil, okc := condOn(iff.Cond, func(v ssa.Value) bool {
					lf, lb := fieldLoad(v)
					return lf == ff && unspill(lb) == entry
				})
				return okc && kind == "nil" && si == 1-sNil
			})
			c.Check(ok, "ExitRuleEntry / entry handed over only with its "+f.Name(), p.InstrPos(ci.(ssa.Instruction)), "ReceiveRuleEntry dominated by "+f.Name()+" != nil", "a rule entry without "+f.Name()+" (text ending right after the rule header, e.g. `rule r \"d\"`) is added to the knowledge base: RuleEntry.GetSnapshot dereferences the missing scope, so the builder's clean-up, the next NewKnowledgeBaseInstance or a store panics outside any recover barrier")
		}
	}
	if n == 0 {
		c.Fail("ExitRuleEntry / hands the entry to its receiver", p.Pos(fn.Pos()), "no ReceiveRuleEntry call (anchor lost)")
	}
}

func init() {
	register("LDR-15", "the binary loader runs no recursive traversal over the graph it rebuilds", 1, ruleLDR15)
}

// LDR-15: the ids in a stream may form any graph, cycles included; the rebuilt nodes are only as acyclic as the stream
// says. A recursive walk over them (GetSnapshot, Clone, MakeCatalog, Evaluate ...) inside the loader does not terminate
// on a cyclic stream, and a stack overflow is fatal: the loader's recover() cannot contain it.
func ruleLDR15(c *Ctx) {
	p := c.P
	entry := p.Method("ast", "KnowledgeLibrary", "LoadKnowledgeBaseFromReader")
	if entry == nil {
		c.AnchorLost("LoadKnowledgeBaseFromReader")
		return
	}
	reach := c.reachableModuleFuncs([]*ssa.Function{entry}, false)
	g := c.P.CallGraph()
	// a function is recursive when it can reach itself through module functions
	var bad []string
	for fn := range reach {
		if fn.Blocks == nil || generatedExempt(fn) {
			continue
		}
		seen := map[*ssa.Function]bool{}
		stack := []*ssa.Function{}
		if n := g.Nodes[fn]; n != nil {
			for _, e := range n.Out {
				if e.Callee.Func != nil && fnInModule(e.Callee.Func) {
					stack = append(stack, e.Callee.Func)
				}
			}
		}
		rec := false
		for len(stack) > 0 && !rec {
			f := stack[len(stack)-1]
			stack = stack[:len(stack)-1]
			if f == fn {
				rec = true
				break
			}
			if seen[f] || !reach[f] {
				continue
			}
			seen[f] = true
			if n := g.Nodes[f]; n != nil {
				for _, e := range n.Out {
					if e.Callee.Func != nil && fnInModule(e.Callee.Func) {
						stack = append(stack, e.Callee.Func)
					}
				}
			}
		}
		if rec {
			bad = append(bad, fnName(fn))
		}
	}
	sort.Strings(bad)
	c.Check(len(bad) == 0, "LoadKnowledgeBaseFromReader / reaches no recursive function", p.Pos(entry.Pos()), fmt.Sprintf("%d module functions reachable, none on a call cycle", len(reach)), "recursive functions are reachable while a stream is loaded ("+strings.Join(bad, ", ")+"): on a well-formed stream whose ids close a cycle the recursion never ends and the stack overflow aborts the process")
}

// liveBlocks: blocks reachable from the entry when a branch on a constant condition follows only the edge that is taken.
func liveBlocks(f *ssa.Function) map[*ssa.BasicBlock]bool {
	live := map[*ssa.BasicBlock]bool{}
	if len(f.Blocks) == 0 {
		return live
	}
	stack := []*ssa.BasicBlock{f.Blocks[0]}
	// recover block of a function with defers
	if f.Recover != nil {
		stack = append(stack, f.Recover)
	}
	for len(stack) > 0 {
		b := stack[len(stack)-1]
		stack = stack[:len(stack)-1]
		if live[b] {
			continue
		}
		live[b] = true
		if len(b.Instrs) > 0 {
			if iff, ok := b.Instrs[len(b.Instrs)-1].(*ssa.If); ok {
				if k, isK := constBool(iff.Cond); isK {
					if k {
						stack = append(stack, b.Succs[0])
					} else {
						stack = append(stack, b.Succs[1])
					}
					continue
				}
			}
		}
		stack = append(stack, b.Succs...)
	}
	return live
}
