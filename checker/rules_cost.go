package main

import (
	"fmt"
	"go/constant"
	"go/types"
	"sort"
	"strings"

	"golang.org/x/tools/go/ssa"
)

func init() {
	register("LDR-16", "building a rule text does no work per syntax node that grows with the size of the node's subtree", 6, ruleLDR16)
}

// LDR-16 (C20, time as a function of the input length). The tree walker calls the listener once per syntax node, so
// whatever a callback does per call is multiplied by the number of nodes, and on a nested expression the subtree of a
// node is as large as its depth. Two mechanisms made the build cubic in the nesting depth (8 KB of parentheses: 24 s,
// 120 GB of allocations; D33):
//
//	(a) the runtime's rule-context GetText concatenates the text of every level again on the level above (quadratic
//	    in the depth for one call) and the listener asked for it in every callback;
//	(b) WorkingMemory.Add* asks every node for its snapshot, and GetSnapshot recursed to the leaves every time.
//
// The rule decides, from the code: (a) no function of the listener package calls GetText on a rule context of a
// recursive nonterminal (the recursive nonterminals are read from the generated context types: the getters of a
// context type that return context types form a graph, the kinds on a cycle are recursive), nor on a rule context of
// unknown kind; terminal nodes, tokens and the contexts of non-recursive nonterminals are bounded by one token or
// one level. (b) In the graph of GetSnapshot methods every cycle passes a method that returns a remembered text first
// (all recursive calls behind the "nothing remembered" edge of a test of a receiver field, the other edge returns
// that field), the field is stored only by WorkingMemory.Add*, and there with the very value the node is registered
// under. What remains is quadratic and is in the design, not in a mechanism: the registry keys are the snapshot texts,
// each embedding its children's verbatim (SNAP-6 needs exactly that); clause (c) reports it as a known finding.
func ruleLDR16(c *Ctx) {
	p := c.P
	// ---- recursive nonterminals from the generated context types
	gpkg := p.ByPath[fullPkg("antlr/parser/grulev3")]
	if gpkg == nil {
		c.AnchorLost("package antlr/parser/grulev3")
		return
	}
	kindOf := func(t types.Type) string { // "Expression" for *ExpressionContext / IExpressionContext
		if pt, ok := t.(*types.Pointer); ok {
			t = pt.Elem()
		}
		if sl, ok := t.(*types.Slice); ok {
			t = sl.Elem()
		}
		n, ok := t.(*types.Named)
		if !ok || n.Obj().Pkg() == nil || n.Obj().Pkg().Path() != gpkg.Types.Path() {
			return ""
		}
		name := n.Obj().Name()
		if !strings.HasSuffix(name, "Context") {
			return ""
		}
		name = strings.TrimSuffix(name, "Context")
		if _, isIface := n.Underlying().(*types.Interface); isIface {
			name = strings.TrimPrefix(name, "I")
		}
		return name
	}
	edges := map[string]map[string]bool{}
	sc := gpkg.Types.Scope()
	for _, nm := range sc.Names() {
		tn, ok := sc.Lookup(nm).(*types.TypeName)
		if !ok {
			continue
		}
		if _, isStruct := tn.Type().Underlying().(*types.Struct); !isStruct {
			continue
		}
		k := kindOf(tn.Type())
		if k == "" {
			continue
		}
		if edges[k] == nil {
			edges[k] = map[string]bool{}
		}
		ms := types.NewMethodSet(types.NewPointer(tn.Type()))
		for i := 0; i < ms.Len(); i++ {
			fn, ok := ms.At(i).Obj().(*types.Func)
			if !ok || fn.Pkg() == nil || fn.Pkg().Path() != gpkg.Types.Path() {
				continue
			}
			res := fn.Type().(*types.Signature).Results()
			for j := 0; j < res.Len(); j++ {
				if ck := kindOf(res.At(j).Type()); ck != "" && fn.Name() != "GetRuleContext" && fn.Name() != "GetParser" {
					edges[k][ck] = true
				}
			}
		}
	}
	reaches := func(from, to string) bool {
		seen := map[string]bool{}
		stack := []string{}
		for n := range edges[from] {
			stack = append(stack, n)
		}
		for len(stack) > 0 {
			x := stack[len(stack)-1]
			stack = stack[:len(stack)-1]
			if x == to {
				return true
			}
			if seen[x] {
				continue
			}
			seen[x] = true
			for n := range edges[x] {
				stack = append(stack, n)
			}
		}
		return false
	}
	recursive := map[string]bool{}
	var recNames []string
	for k := range edges {
		if reaches(k, k) {
			recursive[k] = true
			recNames = append(recNames, k)
		}
	}
	sort.Strings(recNames)
	if len(edges) < 10 || len(recNames) < 3 {
		c.AnchorLost(fmt.Sprintf("generated context types (found %d kinds, %d recursive)", len(edges), len(recNames)))
		return
	}
	c.Notes = append(c.Notes, "LDR-16 recursive nonterminals (from the getters of the generated context types): "+strings.Join(recNames, ", "))

	// ---- (a) GetText on rule contexts inside the listener package
	isAntlrRT := func(t types.Type, names ...string) bool {
		if pt, ok := t.(*types.Pointer); ok {
			t = pt.Elem()
		}
		n, ok := t.(*types.Named)
		if !ok || n.Obj().Pkg() == nil || !strings.HasPrefix(n.Obj().Pkg().Path(), "github.com/antlr4-go/antlr") {
			return false
		}
		for _, x := range names {
			if n.Obj().Name() == x {
				return true
			}
		}
		return false
	}
	lpkg := p.SSAPkg("antlr")
	if lpkg == nil {
		c.AnchorLost("package antlr")
		return
	}
	var lfuncs []*ssa.Function
	for _, f := range p.ModuleFuncs() {
		if fnPkgShort(f) == "antlr" && f.Blocks != nil {
			lfuncs = append(lfuncs, f)
		}
	}
	sort.Slice(lfuncs, func(i, j int) bool { return lfuncs[i].String() < lfuncs[j].String() })
	nText, nBounded := 0, 0
	for _, fn := range lfuncs {
		for _, ci := range callsIn(fn) {
			if !calleeNameIs(ci, "GetText") {
				continue
			}
			var rt types.Type
			if ci.Common().IsInvoke() {
				rt = ci.Common().Value.Type()
			} else if len(ci.Common().Args) > 0 {
				a := ci.Common().Args[0]
				rt = a.Type()
				// promoted through the embedded base context: take the embedding context type
				if fa, ok := a.(*ssa.FieldAddr); ok {
					rt = fa.X.Type()
				}
			}
			if rt == nil {
				continue
			}
			nText++
			kind := kindOf(rt)
			construct := fmt.Sprintf("%s / GetText on %s", fnName(fn), types.TypeString(rt, func(p *types.Package) string { return p.Name() }))
			switch {
			case isAntlrRT(rt, "TerminalNode", "ErrorNode", "Token", "TerminalNodeImpl", "ErrorNodeImpl", "CommonToken"):
				nBounded++
			case kind != "" && !recursive[kind]:
				nBounded++
			case kind != "":
				c.Touch(fnName(fn))
				c.Fail(construct, p.InstrPos(ci), fmt.Sprintf("the runtime's GetText of a rule context concatenates the text of every level again on the level above, and %s is a recursive nonterminal: asked once per node, an expression nested n levels deep costs time and allocations of order n^3 (8 KB of parentheses: 24 s, 120 GB allocated). Collect the text in one pass over the subtree", kind))
			default:
				c.Touch(fnName(fn))
				c.Fail(construct, p.InstrPos(ci), "GetText on a rule context of unknown kind in the listener package: quadratic in the depth of the subtree for one call")
			}
		}
	}
	c.Check(nText > 0, "listener package / GetText call sites classified", p.Pos(lpkg.Members["NewGruleV3ParserListener"].Pos()), fmt.Sprintf("%d call sites, %d on terminals, tokens or non-recursive nonterminals, none on a recursive nonterminal", nText, nBounded), "no GetText call found in the listener package")

	// ---- (b) the snapshot recursion is cut by a remembered text on every cycle
	wm := map[string]*ssa.Function{"Expression": p.Method("ast", "WorkingMemory", "AddExpression"), "ExpressionAtom": p.Method("ast", "WorkingMemory", "AddExpressionAtom"), "Variable": p.Method("ast", "WorkingMemory", "AddVariable")}
	snapFn := map[string]*ssa.Function{}
	for _, n := range nodeTypeNames {
		if f := p.Method("ast", n, "GetSnapshot"); f != nil {
			snapFn[n] = f
		} else {
			c.AnchorLost("(*ast." + n + ").GetSnapshot")
			return
		}
	}
	byFn := map[*ssa.Function]string{}
	for n, f := range snapFn {
		byFn[f] = n
	}
	calls := map[string]map[string]bool{}
	for n, f := range snapFn {
		calls[n] = map[string]bool{}
		for _, ci := range callsIn(f) {
			if !calleeNameIs(ci, "GetSnapshot") {
				continue
			}
			if sf := ci.Common().StaticCallee(); sf != nil {
				if t, ok := byFn[sf]; ok {
					calls[n][t] = true
				}
				continue
			}
			// interface call: every node kind implementing it
			for t := range snapFn {
				calls[n][t] = true
			}
		}
	}
	cached, cachedNames := c.snapshotCacheKinds(snapFn, wm)
	// per-node premise: the registering functions ask for the snapshot
	perNode := false
	for _, add := range wm {
		if add != nil {
			for _, ci := range callsIn(add) {
				if calleeNameIs(ci, "GetSnapshot") {
					perNode = true
				}
			}
		}
	}
	// cycle search in the graph without the cached kinds
	var cycle []string
	state := map[string]int{}
	var dfs func(n string, path []string) bool
	dfs = func(n string, path []string) bool {
		if cached[n] {
			return false
		}
		switch state[n] {
		case 1:
			for i, x := range path {
				if x == n {
					cycle = append(append([]string{}, path[i:]...), n)
				}
			}
			return true
		case 2:
			return false
		}
		state[n] = 1
		var ts []string
		for t := range calls[n] {
			ts = append(ts, t)
		}
		sort.Strings(ts)
		for _, t := range ts {
			if dfs(t, append(path, n)) {
				return true
			}
		}
		state[n] = 2
		return false
	}
	found := false
	names := append([]string{}, nodeTypeNames...)
	sort.Strings(names)
	for _, n := range names {
		if dfs(n, nil) {
			found = true
			break
		}
	}
	pos := p.Pos(snapFn["Expression"].Pos())
	if !perNode {
		c.OK("GetSnapshot recursion / cut by a remembered text on every cycle", pos, "the registering functions do not ask for a snapshot per node")
	} else if found {
		c.Fail("GetSnapshot recursion / cut by a remembered text on every cycle", pos, fmt.Sprintf("WorkingMemory.Add* asks every node for its snapshot, and the cycle %s of GetSnapshot methods renders the whole subtree from scratch each time: the build costs time and allocations of order n^3 in the nesting depth n of an expression. Keep the text a node was registered under and return it first", strings.Join(cycle, " -> ")))
	} else {
		c.OK("GetSnapshot recursion / cut by a remembered text on every cycle", pos, "every cycle of GetSnapshot methods passes one of "+strings.Join(cachedNames, ", "))
	}

	// ---- (c) what remains: the registry keys are the texts themselves
	for _, n := range []string{"Expression", "ExpressionAtom", "Variable"} {
		add := wm[n]
		if add == nil {
			c.AnchorLost("WorkingMemory.Add" + n)
			continue
		}
		for _, b := range add.Blocks {
			for _, in := range b.Instrs {
				mu, ok := in.(*ssa.MapUpdate)
				if !ok {
					continue
				}
				unbounded := false
				if call, ok := mu.Key.(*ssa.Call); ok && calleeNameIs(call, "GetSnapshot") {
					unbounded = true
				}
				c.Check(!unbounded, fmt.Sprintf("WorkingMemory.Add%s / registry key has a size bound", n), p.InstrPos(in), "the key is not the snapshot text itself", "the key is the node's whole snapshot text, which embeds the snapshots of its children verbatim: the keys of an expression nested n levels deep add up to order n^2 bytes (16 KB of parentheses, or a chain of a few thousand && terms: 311 MB of heap, 20000 times the input)")
			}
		}
	}
	ldr16IndexSearch(c)
	ldr16TwoStage(c)
}

// snapshotCacheKinds finds the node kinds whose GetSnapshot returns a remembered text first and checks that the text is
// the node's own snapshot as registered (written only by WorkingMemory.Add<kind> with the registry key, or taken over
// from the blueprint in Clone). Obligations are recorded for the current rule.
func (c *Ctx) snapshotCacheKinds(snapFn map[string]*ssa.Function, wm map[string]*ssa.Function) (map[string]bool, []string) {
	p := c.P
	// which kinds return a remembered text first
	cached := map[string]bool{}
	var cachedNames []string
	for _, n := range nodeTypeNames {
		f := snapFn[n]
		recv := ssa.Value(receiver(f))
		var cacheField *types.Var
		var guard *ssa.If
		emptySucc := -1
		for _, b := range f.Blocks {
			iff, ok := b.Instrs[len(b.Instrs)-1].(*ssa.If)
			if !ok {
				continue
			}
			fld, succEmpty, ok := emptyStringTest(iff.Cond, recv)
			if !ok {
				continue
			}
			// the other edge returns the field
			nb := b.Succs[1-succEmpty]
			if r, isRet := nb.Instrs[len(nb.Instrs)-1].(*ssa.Return); isRet && len(r.Results) == 1 {
				if rf, rb := fieldLoad(r.Results[0]); rf == fld && rb == recv {
					cacheField, guard, emptySucc = fld, iff, succEmpty
				}
			}
		}
		if cacheField == nil {
			continue
		}
		allBehind := true
		for _, ci := range callsIn(f) {
			if !calleeNameIs(ci, "GetSnapshot") {
				continue
			}
			if !edgesDominate(f, ci.(ssa.Instruction), func(b *ssa.BasicBlock, si int) bool {
				return b == guard.Block() && si == emptySucc
			}) {
				allBehind = false
			}
		}
		if !allBehind {
			continue
		}
		// stored only by the registering function, with the key the node is registered under
		add := wm[n]
		okStore := add != nil
		nStores := 0
		for _, mf := range p.ModuleFuncs() {
			for _, b := range mf.Blocks {
				for _, in := range b.Instrs {
					sf, base, val := fieldStore(in)
					if sf != cacheField {
						continue
					}
					// a clone may take over the text of its blueprint (CLN-1 decides that their semantic fields are equal)
					if cf := p.Method("ast", n, "Clone"); cf != nil && mf == cf {
						if vf, vb := fieldLoad(val); vf == cacheField && vb == ssa.Value(receiver(cf)) {
							continue
						}
					}
					nStores++
					if mf != add {
						okStore = false
						c.Fail(fmt.Sprintf("%s / remembered snapshot of %s written outside %s", fnName(mf), n, "WorkingMemory.Add"+n), p.InstrPos(in), "the text a node returns as its snapshot is written by a function other than the one that registers the node under that text: the registry key and the node's own answer can come apart")
						continue
					}
					// same value as the key of the map update, same node as the stored element
					match := false
					for _, b2 := range mf.Blocks {
						for _, in2 := range b2.Instrs {
							if mu, ok := in2.(*ssa.MapUpdate); ok && mu.Key == val && unspill(mu.Value) == unspill(base) {
								match = true
							}
						}
					}
					// and the key is this node's own snapshot
					isOwn := false
					if call, ok := val.(*ssa.Call); ok && calleeNameIs(call, "GetSnapshot") {
						var rv ssa.Value
						if call.Call.IsInvoke() {
							rv = call.Call.Value
						} else if len(call.Call.Args) > 0 {
							rv = call.Call.Args[0]
						}
						isOwn = unspill(rv) == unspill(base)
					}
					if !match || !isOwn {
						okStore = false
						c.Fail(fmt.Sprintf("%s / remembered snapshot is the node's own, as registered", fnName(mf)), p.InstrPos(in), "the text stored on the node is not the result of that node's GetSnapshot() that is also the key it is registered under")
					}
				}
			}
		}
		if okStore && nStores > 0 {
			cached[n] = true
			cachedNames = append(cachedNames, n)
			c.OK(fmt.Sprintf("%s.GetSnapshot / returns the remembered text first; stored by WorkingMemory.Add%s with the registry key", n, n), p.Pos(f.Pos()), fmt.Sprintf("field %s, %d store(s)", cacheField.Name(), nStores))
		}
	}
	sort.Strings(cachedNames)
	return cached, cachedNames
}

func init() {
	register("SNAP-7", "a remembered snapshot is the node's own text as registered", 3, ruleSNAP7)
}

// SNAP-7 (C07, C13): since D33 a registered node answers GetSnapshot with the text it was registered under. The text is
// the sharing key, so it has to be that node's own snapshot: written only when the node is registered, with the key
// of the registry entry (or copied from the blueprint by Clone); that nothing changes the node afterwards is INV-12.
func ruleSNAP7(c *Ctx) {
	p := c.P
	wm := map[string]*ssa.Function{"Expression": p.Method("ast", "WorkingMemory", "AddExpression"), "ExpressionAtom": p.Method("ast", "WorkingMemory", "AddExpressionAtom"), "Variable": p.Method("ast", "WorkingMemory", "AddVariable")}
	snapFn := map[string]*ssa.Function{}
	for _, n := range nodeTypeNames {
		if f := p.Method("ast", n, "GetSnapshot"); f != nil {
			snapFn[n] = f
		} else {
			c.AnchorLost("(*ast." + n + ").GetSnapshot")
			return
		}
	}
	_, names := c.snapshotCacheKinds(snapFn, wm)
	// a kind that remembers a text but is not recognised as sound shows up as a failure above; kinds without a
	// remembered text have nothing to check
	c.OK("GetSnapshot / kinds answering from a remembered text", p.Pos(snapFn["Expression"].Pos()), fmt.Sprintf("%d: %s", len(names), strings.Join(names, ", ")))
	for _, n := range nodeTypeNames {
		// every string field of a node kind that its GetSnapshot returns directly must be one of the recognised ones
		f := snapFn[n]
		recv := ssa.Value(receiver(f))
		for _, r := range returnsOf(f) {
			if len(r.Results) != 1 {
				continue
			}
			if rf, rb := fieldLoad(r.Results[0]); rf != nil && rb == recv {
				ok := false
				for _, x := range names {
					if x == n {
						ok = true
					}
				}
				c.Check(ok, n+".GetSnapshot / a field returned as the snapshot is a sound remembered text", p.InstrPos(r), "field "+rf.Name(), "GetSnapshot returns the field "+rf.Name()+" directly, but it is not established that this field holds the node's own snapshot as registered")
			}
		}
	}
}

// emptyStringTest: cond tests whether a string field of recv is empty (`len(recv.f) > 0`, `recv.f != ""`, `== ""`, ...);
// returns the field and the successor index taken when it is empty.
func emptyStringTest(cond ssa.Value, recv ssa.Value) (*types.Var, int, bool) {
	bo, ok := cond.(*ssa.BinOp)
	if !ok {
		return nil, 0, false
	}
	strField := func(v ssa.Value) *types.Var {
		f, base := fieldLoad(v)
		if f != nil && base == recv {
			if bt, ok := f.Type().Underlying().(*types.Basic); ok && bt.Kind() == types.String {
				return f
			}
		}
		return nil
	}
	// len(recv.f) OP 0
	lenField := func(v ssa.Value) *types.Var {
		call, ok := v.(*ssa.Call)
		if !ok {
			return nil
		}
		if bi, ok := call.Call.Value.(*ssa.Builtin); ok && bi.Name() == "len" && len(call.Call.Args) == 1 {
			return strField(call.Call.Args[0])
		}
		return nil
	}
	if f := lenField(bo.X); f != nil {
		if k, ok := constInt(bo.Y); ok && k == 0 {
			switch bo.Op.String() {
			case ">", "!=":
				return f, 1, true
			case "==", "<=":
				return f, 0, true
			}
		}
	}
	if f := strField(bo.X); f != nil {
		if s, ok := constString(bo.Y); ok && s == "" {
			switch bo.Op.String() {
			case "!=":
				return f, 1, true
			case "==":
				return f, 0, true
			}
		}
	}
	return nil, 0, false
}

func init() {
	register("LDR-17", "the listener and the builder do not reach through a child of a syntax-tree node that the parser's error recovery may have left unset", 1, ruleLDR17)
}

// LDR-17 (C20). After a syntax error ANTLR's recovery still exits the rule contexts it had entered, so a listener
// callback can see a node whose children were never delivered (D26: a rule entry with only a header; round-4 seed
// C20/a: a then scope without its expression list). Nothing on the GRL loader path recovers from a nil dereference. The
// rule looks at every function of the listener and builder packages: a dereference of a pointer that was loaded from a
// node-typed field of a syntax-tree node (x.Child.Field, x.Child.Method() with a pointer receiver that is then
// dereferenced is not followed) has to be dominated by the non-nil edge of a nil test of the same field of the same node.
func ruleLDR17(c *Ctx) {
	p := c.P
	nodeNamed := map[*types.Named]bool{}
	for _, n := range append(append([]string{}, nodeTypeNames...), "Grl") {
		if nt := p.Named("ast", n); nt != nil {
			nodeNamed[nt] = true
		}
	}
	isNodePtr := func(t types.Type) bool {
		pt, ok := t.(*types.Pointer)
		if !ok {
			return false
		}
		nt, ok := pt.Elem().(*types.Named)
		return ok && nodeNamed[nt]
	}
	// positive control on the fixture
	if fp, err := fixture(); err != nil {
		c.Control(false, err.Error())
	} else {
		isFixNode := func(t types.Type) bool {
			pt, ok := t.(*types.Pointer)
			if !ok {
				return false
			}
			nt, ok := pt.Elem().(*types.Named)
			return ok && nt.Obj().Name() == "node"
		}
		u1 := childDerefSites(fp.Func("ChildReacher"), isFixNode)
		u2 := childDerefSites(fp.Func("GuardedChildReacher"), isFixNode)
		c.Control(len(u1) == 1 && !u1[0].guarded && len(u2) == 1 && u2[0].guarded, "child-dereference detector flags the fixture's ChildReacher and accepts GuardedChildReacher")
	}
	nSites, nGuarded := 0, 0
	var fns []*ssa.Function
	for _, fn := range p.ModuleFuncs() {
		if (fnPkgShort(fn) == "antlr" || fnPkgShort(fn) == "builder") && fn.Blocks != nil {
			fns = append(fns, fn)
		}
	}
	sort.Slice(fns, func(i, j int) bool { return fns[i].String() < fns[j].String() })
	for _, fn := range fns {
		for _, st := range childDerefSites(fn, isNodePtr) {
			nSites++
			c.Touch(fnName(fn))
			construct := fmt.Sprintf("%s / reaches through %s", fnName(fn), strings.TrimPrefix(p.fieldOwner(st.field), "?."))
			if st.guarded {
				nGuarded++
				c.OK(construct, p.InstrPos(st.at), "behind the non-nil edge of a test of the same field")
			} else {
				c.Fail(construct, p.InstrPos(st.at), "the child "+st.field.Name()+" of a syntax-tree node is dereferenced without a nil test: after a syntax error the parser's recovery exits contexts whose children were never delivered (`rule R { when F.A > 1 }` gives a then scope without an expression list), and nothing on the GRL loader path recovers from the nil dereference, which leaves BuildRuleFromResource as a panic")
			}
		}
	}
	c.OK("listener and builder packages / dereferences through a child field examined", "antlr/GruleParserV3Listener.go", fmt.Sprintf("%d functions, %d sites, %d guarded", len(fns), nSites, nGuarded))
}

type childDeref struct {
	at      ssa.Instruction
	field   *types.Var
	guarded bool
}

// childDerefSites: dereferences in fn of a pointer loaded from a node-typed field of a node, with whether a nil test of
// the same field of the same node dominates them.
func childDerefSites(fn *ssa.Function, isNodePtr func(types.Type) bool) []childDeref {
	var out []childDeref
	if fn == nil {
		return nil
	}
	for _, b := range fn.Blocks {
		for _, in := range b.Instrs {
			var ptr ssa.Value
			switch x := in.(type) {
			case *ssa.FieldAddr:
				ptr = x.X
			case *ssa.UnOp:
				if x.Op.String() == "*" {
					if _, isFA := x.X.(*ssa.FieldAddr); !isFA {
						if _, isAlloc := x.X.(*ssa.Alloc); !isAlloc {
							ptr = x.X
						}
					}
				}
			}
			if ptr == nil || !isNodePtr(ptr.Type()) {
				continue
			}
			f, base := fieldLoad(ptr)
			if f == nil || base == nil || !isNodePtr(base.Type()) {
				continue
			}
			guarded := edgesDominate(fn, in, func(bb *ssa.BasicBlock, si int) bool {
				iff, isIf := bb.Instrs[len(bb.Instrs)-1].(*ssa.If)
				if !isIf {
					return false
				}
				kind, sNil, okc := condOn(iff.Cond, func(x ssa.Value) bool {
					f2, base2 := fieldLoad(x)
					return f2 == f && base2 == base
				})
				return okc && kind == "nil" && si == 1-sNil
			})
			out = append(out, childDeref{in, f, guarded})
		}
	}
	return out
}

// ldr16TwoStage (D38): ANTLR's full LL prediction on the ambiguous `variable` rule of the grammar costs minutes on a
// long member or selector chain (a.b.b.b… of 4 KB: 75 s), its SLL prediction a second, and a text SLL accepts has the
// same parse tree under LL. The builder therefore parses with SLL first and again with LL only when SLL reported an
// error. Decided: every parse (call of the start rule Grl) is preceded by SetPredictionMode on the same parser; the
// modes, read from the constants the argument ranges over (or from the constant arguments in source order), start with
// PredictionModeSLL; a further parse is reached only over the `errors recorded` edge of a look at the reporter; and
// the reporter is emptied before every parse, so that what SLL reported does not reject a text LL accepts.
func ldr16TwoStage(c *Ctx) {
	p := c.P
	fn := p.Method("builder", "RuleBuilder", "BuildRuleFromResource")
	hasErr := p.Method("pkg", "GruleErrorReporter", "HasError")
	errorsF := p.Field("pkg", "GruleErrorReporter", "Errors")
	if fn == nil || hasErr == nil || errorsF == nil {
		c.AnchorLost("BuildRuleFromResource / GruleErrorReporter")
		return
	}
	construct := "BuildRuleFromResource / SLL prediction first, full LL only for a text SLL rejected"
	sll, ll := int64(-1), int64(-1)
	if ap := p.ByPath["github.com/antlr4-go/antlr/v4"]; ap != nil {
		for name, dst := range map[string]*int64{"PredictionModeSLL": &sll, "PredictionModeLL": &ll} {
			if k, ok := ap.Types.Scope().Lookup(name).(*types.Const); ok {
				if v, exact := constantInt64(k); exact {
					*dst = v
				}
			}
		}
	}
	if sll < 0 || ll < 0 {
		c.AnchorLost("antlr.PredictionModeSLL / PredictionModeLL")
		return
	}
	var parses, modes []ssa.CallInstruction
	for _, ci := range callsIn(fn) {
		switch {
		case calleeNameIs(ci, "Grl") && strings.Contains(calleeName(ci), "grulev3Parser"):
			parses = append(parses, ci)
		case calleeNameIs(ci, "SetPredictionMode"):
			modes = append(modes, ci)
		}
	}
	if len(parses) == 0 {
		c.AnchorLost("call of the start rule Grl() in BuildRuleFromResource")
		return
	}
	// the sequence of modes
	var seq []int64
	for _, m := range modes {
		arg := m.Common().Args[len(m.Common().Args)-1]
		if k, ok := constInt(arg); ok {
			seq = append(seq, k)
			continue
		}
		// an element of a slice literal of constants that a loop ranges over
		if vals := rangedConstants(arg); vals != nil {
			seq = append(seq, vals...)
			continue
		}
		seq = append(seq, -2)
	}
	bad := ""
	if len(modes) == 0 {
		bad = "the parser runs in its default mode, full LL prediction, on every text: a rule whose condition is a member or selector chain of 4 KB (a.b.b.b…) takes 75 s to parse, 8 KB five minutes, where SLL prediction takes a second and yields the same tree for every text it accepts"
	} else if seq[0] != sll {
		bad = fmt.Sprintf("the first prediction mode is %d, not PredictionModeSLL (%d): every text pays for full LL prediction", seq[0], sll)
	}
	inLoop := func(ci ssa.CallInstruction) *Loop {
		return innermostLoopOf(naturalLoops(fn), ci.(ssa.Instruction).Block())
	}
	for _, ps := range parses {
		if bad != "" {
			break
		}
		in := ps.(ssa.Instruction)
		// a mode is set on this parser before it parses
		set := false
		for _, m := range modes {
			mi := m.(ssa.Instruction)
			if (mi.Block() == in.Block() && instrIndex(mi) < instrIndex(in)) || (mi.Block() != in.Block() && mi.Block().Dominates(in.Block())) {
				set = true
			}
		}
		if !set {
			bad = "a parse at " + p.InstrPos(in) + " is not preceded by SetPredictionMode"
			break
		}
		// the reporter is emptied between the start of the function (or the previous parse) and this parse
		isReset := func(x ssa.Instruction) bool {
			f, _, val := fieldStore(x)
			if f != errorsF {
				return false
			}
			switch v := val.(type) {
			case *ssa.Slice:
				if a, ok := v.X.(*ssa.Alloc); ok {
					if at, ok := a.Type().Underlying().(*types.Pointer); ok {
						if arr, ok := at.Elem().Underlying().(*types.Array); ok && arr.Len() == 0 {
							return true
						}
					}
				}
				if k, ok := constInt(v.High); ok && k == 0 {
					return true
				}
			case *ssa.MakeSlice:
				if k, ok := constInt(v.Len); ok && k == 0 {
					return true
				}
			case *ssa.Const:
				return v.IsNil()
			}
			return false
		}
		if l := inLoop(ps); l != nil {
			// per iteration: from the loop header to the parse, a reset is passed
			if t, _ := reach(fn, l.Header.Instrs[len(l.Header.Instrs)-1], func(x ssa.Instruction) bool { return x == in }, isReset, func(b *ssa.BasicBlock, si int) bool { return l.Blocks[b.Succs[si]] }); t != nil {
				bad = "the reporter is not emptied before the parse at " + p.InstrPos(in) + " on every round: an error SLL prediction reported stays in the reporter and rejects a text that full LL accepts"
			}
			// a further round only over the `errors recorded` edge: the loop head is not reached again from the parse without it
			guard := func(b *ssa.BasicBlock, si int) bool {
				iff, isIf := b.Instrs[len(b.Instrs)-1].(*ssa.If)
				if !isIf {
					return false
				}
				kind, sTrue, okc := condOn(iff.Cond, func(v ssa.Value) bool {
					call, isCall := v.(*ssa.Call)
					return isCall && matchStatic(hasErr)(call)
				})
				return okc && kind == "bool" && si == sTrue
			}
			if t, _ := reach(fn, in, func(x ssa.Instruction) bool { return x.Block() == l.Header && instrIndex(x) == 0 }, nil, func(b *ssa.BasicBlock, si int) bool { return !guard(b, si) }); t != nil {
				bad = "the text is parsed again although the parse before reported no error (the loop head is reached again from the parse at " + p.InstrPos(in) + " without the `errors recorded` edge of HasError())"
			}
		}
	}
	if bad == "" && len(parses) > 1 {
		// straight-line form: a later parse is dominated by the `errors recorded` edge of a look at the reporter after the earlier one
		for i := 1; i < len(parses); i++ {
			in := parses[i].(ssa.Instruction)
			if !edgesDominate(fn, in, func(b *ssa.BasicBlock, si int) bool {
				iff, isIf := b.Instrs[len(b.Instrs)-1].(*ssa.If)
				if !isIf {
					return false
				}
				kind, sTrue, okc := condOn(iff.Cond, func(v ssa.Value) bool {
					call, isCall := v.(*ssa.Call)
					return isCall && matchStatic(hasErr)(call)
				})
				return okc && kind == "bool" && si == sTrue
			}) {
				bad = "the parse at " + p.InstrPos(in) + " is reached without an error from the earlier parse"
			}
		}
	}
	detail := fmt.Sprintf("%d parse site(s), modes %v (SLL=%d, LL=%d)", len(parses), seq, sll, ll)
	c.Check(bad == "", construct, p.InstrPos(parses[0].(ssa.Instruction)), detail, bad)
	// what remains: a text that SLL rejects is parsed in LL mode
	usesLL := false
	for _, k := range seq {
		if k != sll {
			usesLL = true
		}
	}
	if len(modes) == 0 {
		usesLL = true
	}
	c.Check(!usesLL, "BuildRuleFromResource / no text is parsed with full LL prediction", p.InstrPos(parses[0].(ssa.Instruction)), "SLL only", "a text that SLL prediction rejects is parsed again in LL mode, whose full-context prediction on the ambiguous `variable` rule of the grammar is quadratic with a large constant: `rule R { when a.b.b…b == 1 then Complete(); } }` with 2000 members and the stray brace (4 KB) takes 75 s, 8 KB five minutes")
}

// rangedConstants: v is the element variable of a `for range` over a slice literal of integer constants; returns them in order.
func rangedConstants(v ssa.Value) []int64 {
	v = unspill(v)
	ld, ok := v.(*ssa.UnOp)
	if !ok {
		return nil
	}
	ia, ok := ld.X.(*ssa.IndexAddr)
	if !ok {
		return nil
	}
	var arr *ssa.Alloc
	switch x := ia.X.(type) {
	case *ssa.Alloc:
		arr = x
	case *ssa.Slice:
		arr, _ = x.X.(*ssa.Alloc)
	}
	if arr == nil || arr.Referrers() == nil {
		return nil
	}
	vals := map[int64]int64{}
	for _, r := range *arr.Referrers() {
		ea, ok := r.(*ssa.IndexAddr)
		if !ok || ea.Referrers() == nil {
			continue
		}
		idx, isK := constInt(ea.Index)
		if !isK {
			continue
		}
		for _, rr := range *ea.Referrers() {
			if st, ok := rr.(*ssa.Store); ok && st.Addr == ssa.Value(ea) {
				k, isK := constInt(st.Val)
				if !isK {
					return nil
				}
				vals[idx] = k
			}
		}
	}
	if len(vals) == 0 {
		return nil
	}
	out := make([]int64, len(vals))
	for i := range out {
		k, ok := vals[int64(i)]
		if !ok {
			return nil
		}
		out[i] = k
	}
	return out
}

func constantInt64(k *types.Const) (int64, bool) {
	return constantToInt64(k.Val())
}

// edgesDominateFrom: every path from instruction `from` to block `to` passes one of the guard edges.
func edgesDominateFrom(fn *ssa.Function, from ssa.Instruction, to *ssa.BasicBlock, isGuardEdge func(b *ssa.BasicBlock, succIdx int) bool) bool {
	if len(to.Instrs) == 0 {
		return true
	}
	last := to.Instrs[len(to.Instrs)-1]
	t, _ := reach(fn, from, func(in ssa.Instruction) bool { return in == last }, nil, func(b *ssa.BasicBlock, si int) bool { return !isGuardEdge(b, si) })
	return t == nil
}

func constantToInt64(v constant.Value) (int64, bool) {
	return constant.Int64Val(constant.ToInt(v))
}

// ldr16IndexSearch (D43, known finding): WorkingMemory.IndexVariables decides "node X depends on variable V" by searching
// V's snapshot text in X's, for every variable and every node of the registry. With n variables whose texts are as long
// as the nesting is deep (a[a[a[…]]]) that is n * 2n searches over texts of length n: the third mechanism that makes the
// build cubic, and the one that is left (a 3 KB text of 1000 nested selectors: 37 s, of which over 90 % here). The
// obligation fails while the index is built by such an all-pairs text search (a strings.Contains of two registry keys
// inside a loop over one registry nested in a loop over another).
func ldr16IndexSearch(c *Ctx) {
	p := c.P
	fn := p.Method("ast", "WorkingMemory", "IndexVariables")
	if fn == nil {
		c.AnchorLost("(*ast.WorkingMemory).IndexVariables")
		return
	}
	loops := naturalLoops(fn)
	allPairs := ""
	for _, ci := range callsIn(fn) {
		if calleeName(ci) != "strings.Contains" {
			continue
		}
		in := ci.(ssa.Instruction)
		depth := 0
		for _, l := range loops {
			if l.Blocks[in.Block()] {
				if x := rangeOperand(l); x != nil {
					if f, _ := fieldLoad(x); f != nil && strings.HasSuffix(f.Name(), "SnapshotMap") {
						depth++
					}
				}
			}
		}
		if depth >= 2 {
			allPairs = p.InstrPos(in)
		}
	}
	// Second clause (the structural form of a78ed1b): per (node, variable) pair the registry is not asked by snapshot
	// text. A lookup in a string-keyed registry hashes the whole key, which is as long as the nesting is deep, so one
	// lookup per pair is the cubic build again (the first version of the repair did exactly that: 1000 nested selectors
	// 1.3 s instead of 0.7 s, with the gap growing by the third power). Accepted: a lookup that is reached only after the
	// pointer of the variable was not found in an index map (the nodes hold registered instances, so that never happens).
	perPair := ""
	var textLookups func(f *ssa.Function, depth int) []ssa.Instruction
	textLookups = func(f *ssa.Function, depth int) []ssa.Instruction {
		var out []ssa.Instruction
		if f == nil || f.Blocks == nil {
			return nil
		}
		for _, b := range f.Blocks {
			for _, in := range b.Instrs {
				lk, ok := in.(*ssa.Lookup)
				if !ok {
					continue
				}
				fl, _ := fieldLoad(lk.X)
				if fl == nil || !strings.HasSuffix(fl.Name(), "SnapshotMap") {
					continue
				}
				// reached only on a miss of a pointer-keyed lookup of the same function
				guarded := edgesDominate(f, in, func(bb *ssa.BasicBlock, si int) bool {
					iff, ok := bb.Instrs[len(bb.Instrs)-1].(*ssa.If)
					if !ok {
						return false
					}
					kind, s, ok := condOn(iff.Cond, func(x ssa.Value) bool {
						e, ok := x.(*ssa.Extract)
						if !ok || e.Index != 1 {
							return false
						}
						pl, ok := e.Tuple.(*ssa.Lookup)
						if !ok {
							return false
						}
						_, isPtr := pl.Index.Type().Underlying().(*types.Pointer)
						return isPtr
					})
					return ok && kind == "bool" && si == 1-s
				})
				if !guarded {
					out = append(out, in)
				}
			}
		}
		return out
	}
	nested := func(in ssa.Instruction) bool {
		depth := 0
		for _, l := range loops {
			if l.Blocks[in.Block()] {
				depth++
			}
		}
		return depth >= 2
	}
	for _, in := range textLookups(fn, 0) {
		if nested(in) {
			perPair = p.InstrPos(in)
		}
	}
	for _, ci := range callsIn(fn) {
		in := ci.(ssa.Instruction)
		if !nested(in) {
			continue
		}
		if callee, _ := calleeOf(ci); callee != nil && callee.Pkg == fn.Pkg && receiver(callee) != nil && len(ci.Common().Args) > 0 && ci.Common().Args[0] == ssa.Value(receiver(fn)) {
			if ls := textLookups(callee, 1); len(ls) > 0 {
				perPair = p.InstrPos(ls[0])
			}
		}
	}
	// Third clause (6ec6605): the walk that collects the variables below a node does not start afresh at every registered
	// node. The collectors form a call graph; every cycle of it has to pass a collector that answers a node it has
	// seen from its memo (a return of memo[receiver] and a store memo[receiver] = set), otherwise a chain of n nodes, each
	// of them registered, is walked n*n/2 steps on every build (review R5: 50 small resources after one rule with
	// 3000 alternatives took 11 s).
	var rootCols []*ssa.Function
	for _, ci := range callsIn(fn) {
		callee, _ := calleeOf(ci)
		args := ci.Common().Args
		if callee == nil || callee.Pkg != fn.Pkg || len(args) != 2 || ci.Value() == nil {
			continue
		}
		if _, isMap := ci.Value().Type().Underlying().(*types.Map); !isMap {
			continue
		}
		for _, l := range loops {
			if l.Blocks[ci.(ssa.Instruction).Block()] && isRangeValueOf(args[0], l) {
				rootCols = append(rootCols, callee)
			}
		}
	}
	if len(rootCols) > 0 {
		answersFromMemo := func(col *ssa.Function) bool {
			if len(col.Params) != 2 {
				return false
			}
			isRecv := func(v ssa.Value) bool {
				if mi, ok := v.(*ssa.MakeInterface); ok {
					v = mi.X
				}
				return v == ssa.Value(col.Params[0])
			}
			hit, store := false, false
			for _, r := range returnsOf(col) {
				if len(r.Results) == 1 {
					if e, ok := r.Results[0].(*ssa.Extract); ok && e.Index == 0 {
						if lk, ok := e.Tuple.(*ssa.Lookup); ok && lk.X == ssa.Value(col.Params[1]) && isRecv(lk.Index) {
							hit = true
						}
					}
				}
			}
			for _, b := range col.Blocks {
				for _, in := range b.Instrs {
					if mu, ok := in.(*ssa.MapUpdate); ok && mu.Map == ssa.Value(col.Params[1]) && isRecv(mu.Key) {
						store = true
					}
				}
			}
			return hit && store
		}
		name := publicName(rootCols[0])
		edges := map[*ssa.Function][]*ssa.Function{}
		var all []*ssa.Function
		seen := map[*ssa.Function]bool{}
		work := append([]*ssa.Function{}, rootCols...)
		for len(work) > 0 {
			f := work[0]
			work = work[1:]
			if seen[f] || f.Blocks == nil {
				continue
			}
			seen[f] = true
			all = append(all, f)
			for _, ci := range callsIn(f) {
				if callee, _ := calleeOf(ci); callee != nil && callee.Pkg == fn.Pkg && publicName(callee) == name && receiver(callee) != nil {
					edges[f] = append(edges[f], callee)
					work = append(work, callee)
				}
			}
		}
		// a cycle among the collectors that do not answer from the memo
		state := map[*ssa.Function]int{}
		cyc := ""
		var dfs func(f *ssa.Function)
		dfs = func(f *ssa.Function) {
			state[f] = 1
			for _, g := range edges[f] {
				if answersFromMemo(g) {
					continue
				}
				if state[g] == 1 {
					cyc = fnName(g)
				} else if state[g] == 0 {
					dfs(g)
				}
			}
			state[f] = 2
		}
		memoized := 0
		for _, f := range all {
			if answersFromMemo(f) {
				memoized++
				continue
			}
			if state[f] == 0 {
				dfs(f)
			}
		}
		c.Check(cyc == "", "WorkingMemory.IndexVariables / every node is visited once while the index is built", p.Pos(fn.Pos()), fmt.Sprintf("%d collectors, %d answer a node seen before from the memo, every cycle of the collector call graph passes one of them", len(all), memoized), "the collector "+cyc+" is on a cycle of the collector call graph none of whose members answers a node it has seen from the memo: a chain of n registered nodes is walked n*n/2 steps on every build, whatever the number of variables (after one rule with 3000 alternatives, 50 small resources took 11 s to add)")
	}
	c.Check(perPair == "", "WorkingMemory.IndexVariables / the registry is not asked by snapshot text for every pair of node and variable", p.Pos(fn.Pos()), "no lookup in a registry keyed by snapshot text inside two nested loops, except behind a miss of the pointer-keyed lookup", "for every (node, variable) pair a registry is asked by snapshot text (lookup at "+perPair+"): the key is as long as the nesting is deep and is hashed on every lookup, so the build is of the third power of the nesting depth again, as it was with the text search (D43)")
	c.Check(allPairs == "", "WorkingMemory.IndexVariables / the index is not built by a text search of every variable in every node", p.Pos(fn.Pos()), "no strings.Contains inside two nested loops over the registries", "every variable's snapshot is searched in every expression's and atom's (strings.Contains at "+allPairs+" inside two nested loops over the registries): `rule R { when a[a[a[…1…]]] == 1 then x = 1; }` with 1000 nested selectors (3 KB) takes 37 s to build, 500 take 4.5 s, 2000 five minutes; the variables below a node can be collected from the node's children instead, which is what the text containment stands for (SNAP-6)")
}

func init() {
	register("LDR-18", "what the loaders do with a document depends on its syntax only: no rejection by counting, no restructuring while linking, no reflect call on a value that may be invalid", 3, ruleLDR18)
}

// LDR-18 gathers four small structural clauses that round 6 asked for ((d) is described at its place below).
//
// (a) C17: the callbacks of the listener that can report an error into the reporter are a frozen set. A new reporting
//
//	site in a callback that had none (EnterGrl: "no rule entry found") turns a grammatical document into a rejected one.
//
// (b) C19/C05: Expression.AcceptExpression links the operand it is given and nothing else: the first one as the single
//
//	expression, the second one makes the node binary (Left = the single one, Right = the new one, Single = nil, all
//	three on every path that stores a right operand). A build-time "simplification" (X == true becomes X) yields a node
//	whose shape no evaluator knows.
//
// (c) C20: on the JSON fact loader path (AddJSON, NewJSONValueNode) no reflect.Value method that panics on the zero
//
//	Value is called on the decoded data without a validity or kind test: the text `null` decodes to exactly that.
func ruleLDR18(c *Ctx) {
	p := c.P
	// ---- (a)
	frozen := map[string]string{
		"ExitGrl":                "duplicate rule name",
		"ExitRuleEntry":          "entry without scopes, bad description, receiver errors",
		"ExitSalience":           "salience out of range",
		"ExitWhenScope":          "receiver errors",
		"ExitThenScope":          "receiver errors",
		"ExitThenExpressionList": "receiver errors",
		"ExitThenExpression":     "receiver errors",
		"ExitAssignment":         "receiver errors",
		"ExitExpression":         "receiver errors",
		"ExitExpressionAtom":     "receiver errors",
		"ExitArrayMapSelector":   "receiver errors",
		"ExitFunctionCall":       "receiver errors",
		"ExitArgumentList":       "receiver errors",
		"ExitVariable":           "receiver errors",
		"ExitMemberVariable":     "receiver errors",
		"ExitConstant":           "receiver errors",
		"ExitStringLiteral":      "malformed literal",
		"ExitIntegerLiteral":     "literal out of range",
		"ExitFloatLiteral":       "literal out of range",
		"ExitBooleanLiteral":     "receiver errors",
		"ExitMethodCall":         "receiver errors",
	}
	named := p.Named("antlr", "GruleV3ParserListener")
	if named == nil {
		c.AnchorLost("antlr.GruleV3ParserListener")
		return
	}
	ms := p.SSA.MethodSets.MethodSet(types.NewPointer(named))
	var reporting, fresh []string
	for i := 0; i < ms.Len(); i++ {
		fn := p.SSA.MethodValue(ms.At(i))
		if fn == nil || fn.Blocks == nil || delegationWrapper[fn] {
			continue
		}
		name := publicName(fn)
		if !strings.HasPrefix(name, "Enter") && !strings.HasPrefix(name, "Exit") && !strings.HasPrefix(name, "Visit") {
			continue
		}
		reports := false
		for _, ci := range callsIn(fn) {
			if calleeNameIs(ci, "AddError") {
				reports = true
			}
		}
		if reports {
			reporting = append(reporting, name)
			if _, ok := frozen[name]; !ok {
				fresh = append(fresh, name)
			}
		}
	}
	sort.Strings(reporting)
	sort.Strings(fresh)
	c.Check(len(fresh) == 0 && len(reporting) >= 5, "listener / the callbacks that can reject a text are the known ones", "antlr/GruleParserV3Listener.go", fmt.Sprintf("%d reporting callbacks, all in the frozen set", len(reporting)), "new reporting site(s) in "+strings.Join(fresh, ", ")+": a callback that could not reject a text before can now (an empty or comment-only document is grammatical under `grl: ruleEntry* EOF` and used to be accepted)")

	// ---- (b)
	if fn := p.Method("ast", "Expression", "AcceptExpression"); fn == nil || len(fn.Params) < 2 {
		c.AnchorLost("(*ast.Expression).AcceptExpression")
	} else {
		recv, prm := ssa.Value(fn.Params[0]), ssa.Value(fn.Params[1])
		leftF, rightF, singleF := p.Field("ast", "Expression", "LeftExpression"), p.Field("ast", "Expression", "RightExpression"), p.Field("ast", "Expression", "SingleExpression")
		bad := ""
		for _, b := range fn.Blocks {
			for _, in := range b.Instrs {
				f, base, val := fieldStore(in)
				if f == nil || base != recv {
					continue
				}
				switch f {
				case leftF, rightF, singleF:
				default:
					bad = "writes the field " + f.Name() + " at " + p.InstrPos(in)
					continue
				}
				if f != rightF || unspill(val) != prm {
					continue
				}
				// a right operand is stored: the same path makes the node binary
				for _, need := range []struct {
					f    *types.Var
					what string
					ok   func(v ssa.Value) bool
				}{
					{leftF, "Left = the single expression", func(v ssa.Value) bool { lf, lb := fieldLoad(v); return lf == singleF && lb == recv }},
					{singleF, "Single = nil", func(v ssa.Value) bool { return isNilConst(v) }},
				} {
					need := need
					isNeeded := func(x ssa.Instruction) bool {
						sf, sb, sv := fieldStore(x)
						return sf == need.f && sb == recv && need.ok(sv)
					}
					// either before the store (dominating, same block earlier) or on every path after it to a success return
					before := false
					for _, x := range in.Block().Instrs {
						if x == in {
							break
						}
						if isNeeded(x) {
							before = true
						}
					}
					if before {
						continue
					}
					if t, _ := reach(fn, in, func(x ssa.Instruction) bool { r, isRet := x.(*ssa.Return); return isRet && !returnsNonNilError(r) }, isNeeded, nil); t != nil {
						bad = "a right operand is stored at " + p.InstrPos(in) + " on a path that does not also set " + need.what
					}
				}
			}
		}
		c.Check(bad == "", "Expression.AcceptExpression / links the operand it is given, the second one makes the node binary", p.Pos(fn.Pos()), "only the three operand fields are written; Right is stored together with Left = Single and Single = nil", bad+": the node keeps a shape no evaluator, snapshot or clone expects (`F.P == true` reduced to `F.P` yields the raw pointer where a comparison would yield a bool)")
	}

	// ---- (d) C14/C05: in the built-in dispatch of both back ends, the value whose kind selects the string arm is the value
	// whose String() the string function is given. reflect.Value.String() never fails: on an interface or pointer it returns
	// a placeholder ("<interface {} Value>"), so a kind test on the unwrapped value with a read of the wrapped one answers
	// `F.Tags[0].Len()` with the length of the placeholder instead of an error (round-6 seed C14/k).
	for _, typ := range []string{"GoValueNode", "JSONValueNode"} {
		fn := p.Method("model", typ, "CallFunction")
		if fn == nil {
			c.AnchorLost("(*model." + typ + ").CallFunction")
			continue
		}
		var tag ssa.Value
		for _, ci := range callsIn(fn) {
			if calleeNameIs(ci, "GetBaseKind") && len(ci.Common().Args) == 1 && tag == nil {
				tag = ci.Common().Args[0]
			}
		}
		bad, nStr := "", 0
		for _, ci := range callsIn(fn) {
			if calleeName(ci) != "(reflect.Value).String" || len(ci.Common().Args) != 1 {
				continue
			}
			nStr++
			rv := ci.Common().Args[0]
			if tag == nil || !(rv == tag || sameFieldLoad(rv, tag)) {
				bad = p.InstrPos(ci.(ssa.Instruction))
			}
		}
		c.Check(bad == "" && tag != nil && nStr >= 1, typ+".CallFunction / the string functions read the value whose kind was tested", p.Pos(fn.Pos()), fmt.Sprintf("%d String() reads of the dispatch value", nStr), "the String() at "+bad+" reads another value than the one whose kind selected the string arm: for a string behind an interface or pointer it yields reflect's placeholder text, and the built-in answers on that instead of failing")
	}

	// ---- (e) C19: a float64 of a JSON fact becomes an integer only under a test that it fits: the conversion is one half of
	// a round trip (int64(f) converted back and compared with f), or sits behind the true edge of a module predicate that
	// makes that round trip. `f == math.Trunc(f)` holds for 1e19, and int64(1e19) is MinInt64 (round-6 seed C19/k).
	isFloat := func(t types.Type) bool {
		b, ok := t.Underlying().(*types.Basic)
		return ok && b.Info()&types.IsFloat != 0
	}
	isInt := func(t types.Type) bool {
		b, ok := t.Underlying().(*types.Basic)
		return ok && b.Info()&types.IsInteger != 0
	}
	roundTrips := func(cv *ssa.Convert) bool {
		if cv.Referrers() == nil {
			return false
		}
		for _, r := range *cv.Referrers() {
			back, ok := r.(*ssa.Convert)
			if !ok || !isFloat(back.Type()) || back.Referrers() == nil {
				continue
			}
			for _, r2 := range *back.Referrers() {
				if bo, isBo := r2.(*ssa.BinOp); isBo && (bo.Op.String() == "==" || bo.Op.String() == "!=") && (bo.X == cv.X || bo.Y == cv.X) {
					return true
				}
			}
		}
		return false
	}
	hasRoundTrip := func(f *ssa.Function) bool {
		if f == nil || f.Blocks == nil {
			return false
		}
		for _, b := range f.Blocks {
			for _, in := range b.Instrs {
				if cv, ok := in.(*ssa.Convert); ok && isFloat(cv.X.Type()) && isInt(cv.Type()) && roundTrips(cv) {
					return true
				}
			}
		}
		return false
	}
	var unguarded []string
	nConv := 0
	for _, f := range p.ModuleFuncs() {
		if fnPkgShort(f) != "model" || !strings.Contains(f.String(), "JSONValueNode") {
			continue
		}
		for _, b := range f.Blocks {
			for _, in := range b.Instrs {
				cv, ok := in.(*ssa.Convert)
				if !ok || !isFloat(cv.X.Type()) || !isInt(cv.Type()) {
					continue
				}
				nConv++
				if roundTrips(cv) {
					continue
				}
				guarded := edgesDominate(f, cv, func(bb *ssa.BasicBlock, si int) bool {
					iff, isIf := bb.Instrs[len(bb.Instrs)-1].(*ssa.If)
					if !isIf || si != 0 {
						return false
					}
					call, isCall := iff.Cond.(*ssa.Call)
					return isCall && call.Call.StaticCallee() != nil && fnInModule(call.Call.StaticCallee()) && hasRoundTrip(call.Call.StaticCallee())
				})
				if !guarded {
					unguarded = append(unguarded, fnName(f)+" at "+p.InstrPos(cv))
				}
			}
		}
	}
	sort.Strings(unguarded)
	c.Check(len(unguarded) == 0 && nConv >= 1, "JSON back end / a number becomes an integer only under a round-trip test", "model/JsonDataAccessLayer.go", fmt.Sprintf("%d float-to-integer conversions, each a round trip or behind one", nConv), strings.Join(unguarded, "; ")+": a whole number at or beyond 2^63 (1e19, 1.5e300) wraps to MinInt64, so that `1e19 < 1` holds for a JSON fact while the same value in a Go fact compares correctly")

	// ---- (c)
	addJSON := p.Method("ast", "DataContext", "AddJSON")
	if addJSON == nil {
		c.AnchorLost("(*ast.DataContext).AddJSON")
		return
	}
	panicsOnZero := map[string]bool{"Type": true, "Interface": true, "Len": true, "Cap": true, "Index": true, "MapIndex": true, "MapKeys": true, "MapRange": true, "Field": true, "NumField": true, "Elem": true, "Bool": true, "Int": true, "Uint": true, "Float": true, "NumMethod": true, "Method": true, "MethodByName": true, "Convert": true, "Set": true}
	var sites []string
	nFns := 0
	for f := range c.reachableStop([]*ssa.Function{addJSON}, false, func(f *ssa.Function) bool { return isBarrier(f) }) {
		nFns++
		for _, ci := range callsIn(f) {
			callee := ci.Common().StaticCallee()
			if callee == nil || callee.Pkg == nil || callee.Pkg.Pkg.Path() != "reflect" || callee.Signature.Recv() == nil || !panicsOnZero[callee.Name()] || len(ci.Common().Args) == 0 {
				continue
			}
			if !isNamed(callee.Signature.Recv().Type(), "reflect", "Value") {
				continue
			}
			v := ci.Common().Args[0]
			in := ci.(ssa.Instruction)
			guarded := edgesDominate(f, in, func(b *ssa.BasicBlock, si int) bool {
				iff, isIf := b.Instrs[len(b.Instrs)-1].(*ssa.If)
				if !isIf {
					return false
				}
				tested := false
				backSlice(iff.Cond, func(x ssa.Value) bool {
					if call, isCall := x.(*ssa.Call); isCall {
						if n := calleeName(call); (n == "(reflect.Value).IsValid" || n == "(reflect.Value).Kind") && len(call.Call.Args) > 0 && (call.Call.Args[0] == v || sameFieldLoad(call.Call.Args[0], v)) {
							tested = true
						}
					}
					return !tested
				})
				if bo, isBo := iff.Cond.(*ssa.BinOp); isBo && !tested {
					for _, o := range []ssa.Value{bo.X, bo.Y} {
						if call, isCall := o.(*ssa.Call); isCall {
							if n := calleeName(call); (n == "(reflect.Value).IsValid" || n == "(reflect.Value).Kind") && len(call.Call.Args) > 0 && (call.Call.Args[0] == v || sameFieldLoad(call.Call.Args[0], v)) {
								tested = true
							}
						}
					}
				}
				return tested
			})
			if !guarded {
				sites = append(sites, fnName(f)+" calls reflect.Value."+callee.Name()+" at "+p.InstrPos(in))
			}
		}
	}
	sort.Strings(sites)
	c.Check(len(sites) == 0, "DataContext.AddJSON / no reflect call that panics on the zero Value without a validity test", p.Pos(addJSON.Pos()), fmt.Sprintf("%d functions on the path, none", nFns), strings.Join(sites, "; ")+": the JSON text `null` decodes to the zero reflect.Value, on which that method panics, and nothing on the path of AddJSON recovers")
}
