package main

import (
	"fmt"
	"go/ast"
	"go/token"
	"go/types"
	"os"
	"path/filepath"
	"sort"
	"strings"

	"golang.org/x/tools/go/callgraph"
	"golang.org/x/tools/go/callgraph/cha"
	"golang.org/x/tools/go/callgraph/vta"
	"golang.org/x/tools/go/packages"
	"golang.org/x/tools/go/ssa"
	"golang.org/x/tools/go/ssa/ssautil"
)

const modPath = "github.com/hyperjumptech/grule-rule-engine"

// Prog is the loaded, type-checked and SSA-built program of /repo's current working tree.
type Prog struct {
	RepoDir string
	Fset    *token.FileSet
	Roots   []*packages.Package          // module packages
	ByPath  map[string]*packages.Package // all packages by import path
	SSA     *ssa.Program
	cg      *callgraph.Graph
	chaG    *callgraph.Graph
	allFns  map[*ssa.Function]bool
	GOOS    string
	GOARCH  string
}

// shortPkg maps "ast" -> modPath+"/ast".
func fullPkg(short string) string {
	if short == "" {
		return modPath
	}
	if strings.Contains(short, ".") {
		return short
	}
	return modPath + "/" + short
}

func inModule(path string) bool {
	return path == modPath || strings.HasPrefix(path, modPath+"/")
}

// Load loads /repo/... (non-test files) with optional overlay, type-checks and builds SSA for the whole program.
func Load(repo string, overlay map[string][]byte, goos, goarch string) (*Prog, error) {
	if _, err := os.Stat("/opt/veriftools/go1.26.8/bin/go"); err == nil && !strings.HasPrefix(os.Getenv("PATH"), "/opt/veriftools/go1.26.8/bin:") {
		// go/packages resolves the go command through this process's PATH
		os.Setenv("PATH", "/opt/veriftools/go1.26.8/bin:"+os.Getenv("PATH"))
	}
	env := os.Environ()
	env = append(env, "GOWORK=off", "GOFLAGS=-mod=mod", "GOPROXY=off", "GOSUMDB=off", "GOTOOLCHAIN=local", "CGO_ENABLED=0")
	if goos != "" {
		env = append(env, "GOOS="+goos)
	}
	if goarch != "" {
		env = append(env, "GOARCH="+goarch)
	}
	fset := token.NewFileSet()
	cfg := &packages.Config{
		Mode:    packages.LoadAllSyntax,
		Dir:     repo,
		Fset:    fset,
		Env:     env,
		Tests:   false,
		Overlay: overlay,
	}
	pkgs, err := packages.Load(cfg, "./...")
	if err != nil {
		return nil, fmt.Errorf("packages.Load: %w", err)
	}
	p := &Prog{RepoDir: repo, Fset: fset, ByPath: map[string]*packages.Package{}, GOOS: goos, GOARCH: goarch}
	var errs []string
	packages.Visit(pkgs, nil, func(pk *packages.Package) {
		p.ByPath[pk.PkgPath] = pk
		if inModule(pk.PkgPath) {
			for _, e := range pk.Errors {
				errs = append(errs, e.Error())
			}
		}
	})
	for _, pk := range pkgs {
		if inModule(pk.PkgPath) {
			p.Roots = append(p.Roots, pk)
		}
	}
	sort.Slice(p.Roots, func(i, j int) bool { return p.Roots[i].PkgPath < p.Roots[j].PkgPath })
	if len(errs) > 0 {
		return nil, fmt.Errorf("type/load errors in module packages:\n  %s", strings.Join(errs, "\n  "))
	}
	if len(p.Roots) < 12 {
		return nil, fmt.Errorf("only %d module packages loaded (expected >= 12)", len(p.Roots))
	}
	prog, _ := ssautil.AllPackages(pkgs, ssa.InstantiateGenerics)
	prog.Build()
	normalizeDeferSpills(prog)
	normalizeDelegation(prog)
	p.SSA = prog
	return p, nil
}

// normalizeDeferSpills undoes one artefact of go/ssa: in a function that defers anything, results are not returned
// directly but stored into a synthetic local, `rundefers` runs, and the local is loaded again for the return (the
// recover block needs the local). The rules reason about what a return hands out, and adding a `defer` to a function
// must not change any verdict. Where the local is touched by nothing but its own stores and loads (no closure captures
// it: that is the case of named results written by a recover handler, which the barrier rules treat on their own),
// the result of the return is replaced by the value stored into the local last in the same block.
func normalizeDeferSpills(prog *ssa.Program) {
	for fn := range ssautil.AllFunctions(prog) {
		if fn.Recover == nil || fn.Blocks == nil {
			continue
		}
		private := func(a *ssa.Alloc) bool {
			if a.Heap || a.Referrers() == nil {
				return false
			}
			for _, r := range *a.Referrers() {
				switch x := r.(type) {
				case *ssa.Store:
					if x.Addr != ssa.Value(a) {
						return false
					}
				case *ssa.UnOp:
					if x.Op != token.MUL {
						return false
					}
				case *ssa.DebugRef:
				default:
					return false
				}
			}
			return true
		}
		for _, b := range fn.Blocks {
			if b == fn.Recover || len(b.Instrs) == 0 {
				continue
			}
			ret, ok := b.Instrs[len(b.Instrs)-1].(*ssa.Return)
			if !ok {
				continue
			}
			for i, res := range ret.Results {
				ld, ok := res.(*ssa.UnOp)
				if !ok || ld.Op != token.MUL || ld.Block() != b {
					continue
				}
				a, ok := ld.X.(*ssa.Alloc)
				if !ok || !private(a) {
					continue
				}
				var last *ssa.Store
				for _, in := range b.Instrs {
					if in == ssa.Instruction(ld) {
						break
					}
					if st, ok := in.(*ssa.Store); ok && st.Addr == ssa.Value(a) {
						last = st
					}
				}
				if last == nil {
					continue
				}
				ret.Results[i] = last.Val
				if refs := last.Val.Referrers(); refs != nil {
					*refs = append(*refs, ret)
				}
			}
		}
	}
}

// CallGraph builds (once) the VTA call graph over CHA for the whole program.
func (p *Prog) CallGraph() *callgraph.Graph {
	if p.cg == nil {
		p.allFns = ssautil.AllFunctions(p.SSA)
		p.chaG = cha.CallGraph(p.SSA)
		p.cg = vta.CallGraph(p.allFns, p.chaG)
	}
	return p.cg
}

// ModuleIfaceCallees returns, for module function f, the module methods that class-hierarchy analysis gives for its
// interface-method call sites. VTA resolves an interface call only with the types it sees flowing into it; the
// parameters of library entry points (IDataContext, Resource, ValueNode ...) receive their dynamic types from callers
// outside the analysed program, so for those sites every implementation inside the module is a possible callee.
func (p *Prog) ModuleIfaceCallees(f *ssa.Function) []*ssa.Function {
	p.CallGraph()
	n := p.chaG.Nodes[f]
	if n == nil {
		return nil
	}
	var out []*ssa.Function
	for _, e := range n.Out {
		if e.Site == nil || !e.Site.Common().IsInvoke() {
			continue
		}
		if g := e.Callee.Func; g != nil && fnInModule(g) {
			out = append(out, g)
		}
	}
	return out
}

func (p *Prog) Pkg(short string) *packages.Package { return p.ByPath[fullPkg(short)] }

func (p *Prog) SSAPkg(short string) *ssa.Package {
	pk := p.Pkg(short)
	if pk == nil {
		return nil
	}
	return p.SSA.Package(pk.Types)
}

// Named returns the named type pkg.Name or nil.
func (p *Prog) Named(short, name string) *types.Named {
	pk := p.Pkg(short)
	if pk == nil {
		return nil
	}
	o := pk.Types.Scope().Lookup(name)
	if o == nil {
		return nil
	}
	tn, ok := o.(*types.TypeName)
	if !ok {
		return nil
	}
	n, _ := tn.Type().(*types.Named)
	return n
}

// Method returns the SSA function of method `name` on *T or T (pkg short name, type name).
func (p *Prog) Method(short, typ, name string) *ssa.Function {
	n := p.Named(short, typ)
	if n == nil {
		return nil
	}
	for _, t := range []types.Type{types.NewPointer(n), n} {
		ms := p.SSA.MethodSets.MethodSet(t)
		for i := 0; i < ms.Len(); i++ {
			sel := ms.At(i)
			if sel.Obj().Name() == name {
				if fn := p.SSA.MethodValue(sel); fn != nil {
					// unwrap promoted-method wrappers to the declared method when same receiver
					return followDelegation(fn)
				}
			}
		}
	}
	return nil
}

// Func returns the package-level function.
func (p *Prog) Func(short, name string) *ssa.Function {
	sp := p.SSAPkg(short)
	if sp == nil {
		return nil
	}
	return followDelegation(sp.Func(name))
}

// followDelegation: a function whose whole body hands its receiver and parameters, unchanged and in order, to one other
// function of the same package and returns what that returns ("Assign calls assignImpl") is a name, not a place: the
// rules anchored on it look at the function that does the work. Functions that add, drop or change an argument
// (Execute -> ExecuteWithContext(context.Background(), …)) are not followed.
func followDelegation(fn *ssa.Function) *ssa.Function {
	for i := 0; i < 3 && fn != nil; i++ {
		if len(fn.Blocks) != 1 {
			return fn
		}
		var call *ssa.Call
		var ret *ssa.Return
		okShape := true
		for _, in := range fn.Blocks[0].Instrs {
			switch x := in.(type) {
			case *ssa.Call:
				if call != nil {
					okShape = false
				}
				call = x
			case *ssa.Return:
				ret = x
			case *ssa.Extract, *ssa.DebugRef:
			default:
				okShape = false
			}
		}
		if !okShape || call == nil || ret == nil || call.Call.IsInvoke() {
			return fn
		}
		callee := call.Call.StaticCallee()
		if callee == nil || callee.Blocks == nil || callee.Pkg != fn.Pkg || len(call.Call.Args) != len(fn.Params) || len(callee.Params) != len(fn.Params) {
			return fn
		}
		for j, a := range call.Call.Args {
			if a != ssa.Value(fn.Params[j]) {
				return fn
			}
		}
		// the results are handed on as they are
		for j, r := range ret.Results {
			switch x := r.(type) {
			case *ssa.Extract:
				if x.Tuple != ssa.Value(call) || x.Index != j {
					return fn
				}
			default:
				if r != ssa.Value(call) {
					return fn
				}
			}
		}
		fn = callee
	}
	return fn
}

// IfaceMethod returns the *types.Func of an interface's method.
func (p *Prog) IfaceMethod(short, iface, name string) *types.Func {
	n := p.Named(short, iface)
	if n == nil {
		return nil
	}
	it, ok := n.Underlying().(*types.Interface)
	if !ok {
		return nil
	}
	for i := 0; i < it.NumMethods(); i++ {
		if it.Method(i).Name() == name {
			return it.Method(i)
		}
	}
	return nil
}

// Field returns the *types.Var of struct field pkg.Type.Field
func (p *Prog) Field(short, typ, field string) *types.Var {
	n := p.Named(short, typ)
	if n == nil {
		return nil
	}
	st, ok := n.Underlying().(*types.Struct)
	if !ok {
		return nil
	}
	for i := 0; i < st.NumFields(); i++ {
		if st.Field(i).Name() == field {
			return st.Field(i)
		}
	}
	return nil
}

// ModuleFuncs returns every source-level function (incl. methods, anonymous functions) of module packages.
func (p *Prog) ModuleFuncs() []*ssa.Function {
	var out []*ssa.Function
	seen := map[*ssa.Function]bool{}
	var add func(f *ssa.Function)
	add = func(f *ssa.Function) {
		if f == nil || seen[f] || f.Blocks == nil {
			return
		}
		seen[f] = true
		if delegationWrapper[f] {
			return // a one-line wrapper: the function it delegates to is analysed under its name
		}
		out = append(out, f)
		for _, a := range f.AnonFuncs {
			add(a)
		}
	}
	for _, pk := range p.Roots {
		sp := p.SSA.Package(pk.Types)
		if sp == nil {
			continue
		}
		for _, m := range sp.Members {
			switch m := m.(type) {
			case *ssa.Function:
				add(m)
			case *ssa.Type:
				if n, ok := m.Type().(*types.Named); ok {
					for _, t := range []types.Type{n, types.NewPointer(n)} {
						ms := p.SSA.MethodSets.MethodSet(t)
						for i := 0; i < ms.Len(); i++ {
							fn := p.SSA.MethodValue(ms.At(i))
							if fn != nil && fn.Synthetic == "" {
								add(fn)
							}
						}
					}
				}
			}
		}
	}
	sort.Slice(out, func(i, j int) bool { return out[i].String() < out[j].String() })
	return out
}

func fnInModule(f *ssa.Function) bool {
	if f == nil {
		return false
	}
	if f.Pkg != nil {
		return inModule(f.Pkg.Pkg.Path())
	}
	if f.Parent() != nil {
		return fnInModule(f.Parent())
	}
	if o := f.Object(); o != nil && o.Pkg() != nil {
		return inModule(o.Pkg().Path())
	}
	return false
}

func fnPkgShort(f *ssa.Function) string {
	for f != nil && f.Pkg == nil && f.Parent() != nil {
		f = f.Parent()
	}
	if f == nil || f.Pkg == nil {
		if f != nil && f.Object() != nil && f.Object().Pkg() != nil {
			return strings.TrimPrefix(strings.TrimPrefix(f.Object().Pkg().Path(), modPath), "/")
		}
		return "?"
	}
	return strings.TrimPrefix(strings.TrimPrefix(f.Pkg.Pkg.Path(), modPath), "/")
}

// Pos renders a position relative to the repo dir.
func (p *Prog) Pos(pos token.Pos) string {
	if !pos.IsValid() {
		return "-"
	}
	ps := p.Fset.Position(pos)
	rel, err := filepath.Rel(p.RepoDir, ps.Filename)
	if err != nil || strings.HasPrefix(rel, "..") {
		rel = ps.Filename
	}
	return fmt.Sprintf("%s:%d", rel, ps.Line)
}

func (p *Prog) InstrPos(in ssa.Instruction) string {
	if in == nil {
		return "-"
	}
	pos := in.Pos()
	if !pos.IsValid() {
		// try to borrow a position from the block's neighbours
		if b := in.Block(); b != nil {
			for _, o := range b.Instrs {
				if o.Pos().IsValid() {
					pos = o.Pos()
					break
				}
			}
		}
	}
	if !pos.IsValid() && in.Parent() != nil {
		pos = in.Parent().Pos()
	}
	return p.Pos(pos)
}

// fnName renders a function in a short, stable way: pkg.(*T).M or pkg.F
// delegateName: function that does the work -> the one-line function that is its public name (see normalizeDelegation).
var delegateName = map[*ssa.Function]*ssa.Function{}

// delegationWrapper: the one-line wrappers themselves; they hold no logic and are left out of every set of functions a
// rule analyses (they are still walked through in the call graph).
var delegationWrapper = map[*ssa.Function]bool{}

// normalizeDelegation makes a pure delegation ("Assign calls assignImpl with the same receiver and arguments and returns
// what it returns") transparent: every static call of such a wrapper in the module is retargeted to the function that does
// the work, and that function is reported under the wrapper's name. Splitting a function into a named wrapper and an
// implementation is then invisible to every rule, as it is to every caller.
func normalizeDelegation(prog *ssa.Program) {
	delegateName = map[*ssa.Function]*ssa.Function{}
	delegationWrapper = map[*ssa.Function]bool{}
	impl := map[*ssa.Function]*ssa.Function{}
	var all []*ssa.Function
	for fn := range ssautil.AllFunctions(prog) {
		all = append(all, fn)
	}
	for _, fn := range all {
		if fn.Pkg == nil || !inModule(fn.Pkg.Pkg.Path()) || fn.Blocks == nil {
			continue
		}
		if target := followDelegation(fn); target != fn {
			impl[fn] = target
			delegationWrapper[fn] = true
			if delegateName[target] == nil {
				delegateName[target] = fn
			}
		}
	}
	if len(impl) == 0 {
		return
	}
	for _, fn := range all {
		for _, b := range fn.Blocks {
			for _, in := range b.Instrs {
				ci, ok := in.(ssa.CallInstruction)
				if !ok || ci.Common().IsInvoke() {
					continue
				}
				if callee := ci.Common().StaticCallee(); callee != nil {
					if target, isWrapper := impl[callee]; isWrapper && fn != callee {
						ci.Common().Value = target
					}
				}
			}
		}
	}
}

func fnName(f *ssa.Function) string {
	if f == nil {
		return "<nil>"
	}
	if w := delegateName[f]; w != nil {
		f = w
	}
	s := f.String()
	s = strings.ReplaceAll(s, modPath+"/", "")
	s = strings.ReplaceAll(s, modPath, "")
	return s
}

// FuncDecl finds the AST declaration for an SSA function.
func (p *Prog) FuncDecl(f *ssa.Function) *ast.FuncDecl {
	if f == nil {
		return nil
	}
	if fd, ok := f.Syntax().(*ast.FuncDecl); ok {
		return fd
	}
	return nil
}

// TypesInfo returns the types.Info of the package containing f.
func (p *Prog) TypesInfo(f *ssa.Function) *types.Info {
	for f != nil && f.Pkg == nil {
		f = f.Parent()
	}
	if f == nil {
		return nil
	}
	pk := p.ByPath[f.Pkg.Pkg.Path()]
	if pk == nil {
		return nil
	}
	return pk.TypesInfo
}
