package main

import (
	"fmt"
	"go/ast"
	"go/token"
	"go/types"
	"sort"
	"strconv"
	"strings"

	"golang.org/x/tools/go/ssa"
)

func init() {
	register("SER-2", "field coverage across node -> catalogue -> stream -> rebuilt node", 30, ruleSER2)
	register("SER-3", "tag tables: every node type has one tag used consistently by writer, reader and builder", 13, ruleSER3)
	register("SER-4", "error discipline of store/load: no read/write failure is dropped or survived", 100, ruleSER4)
	register("SER-5", "overwrite guard of LoadKnowledgeBaseFromReader", 1, ruleSER5)
	register("SER-6", "version gate", 2, ruleSER6)
	register("SER-7", "all five working-memory maps are handled by every traversal", 5, ruleSER7)
	register("SER-8", "recover barrier of LoadKnowledgeBaseFromReader", 1, ruleSER8)
	register("SER-9", "working-memory maps are catalogued and rebuilt entry for entry (ids of the right nodes)", 10, ruleSER9)
}

func isMetaType(t types.Type) (string, bool) {
	if p, ok := t.(*types.Pointer); ok {
		t = p.Elem()
	}
	n, ok := t.(*types.Named)
	if !ok || n.Obj().Pkg() == nil || n.Obj().Pkg().Path() != fullPkg("ast") {
		return "", false
	}
	if strings.HasSuffix(n.Obj().Name(), "Meta") {
		return n.Obj().Name(), true
	}
	return "", false
}

func nodeTypeOf(t types.Type) (string, bool) {
	if p, ok := t.(*types.Pointer); ok {
		t = p.Elem()
	}
	n, ok := t.(*types.Named)
	if !ok || n.Obj().Pkg() == nil || n.Obj().Pkg().Path() != fullPkg("ast") {
		return "", false
	}
	for _, nn := range nodeTypeNames {
		if nn == n.Obj().Name() {
			return nn, true
		}
	}
	return "", false
}

// metaSources: names of Meta-struct fields (or Get* accessors of the Meta interface) that value v derives from,
// following map lookups through their key.
func metaSources(v ssa.Value) []string {
	out := map[string]bool{}
	seen := map[ssa.Value]bool{}
	var rec func(v ssa.Value, d int)
	rec = func(v ssa.Value, d int) {
		if v == nil || seen[v] || d > 12 {
			return
		}
		seen[v] = true
		if f, base := fieldLoad(v); f != nil && base != nil {
			if _, ok := isMetaType(base.Type()); ok {
				out[f.Name()] = true
				return
			}
		}
		switch x := v.(type) {
		case *ssa.Call:
			if x.Call.IsInvoke() {
				switch x.Call.Method.Name() {
				case "GetAstID":
					out["AstID"] = true
				case "GetGrlText":
					out["GrlText"] = true
				case "GetSnapshot":
					out["Snapshot"] = true
				}
				return
			}
			for _, a := range x.Call.Args {
				rec(a, d+1)
			}
		case *ssa.Phi:
			for _, e := range x.Edges {
				rec(e, d+1)
			}
		case *ssa.Extract:
			rec(x.Tuple, d+1)
		case *ssa.Lookup:
			rec(x.Index, d+1)
		case *ssa.TypeAssert:
			rec(x.X, d+1)
		case *ssa.Convert:
			rec(x.X, d+1)
		case *ssa.ChangeType:
			rec(x.X, d+1)
		case *ssa.MakeInterface:
			rec(x.X, d+1)
		case *ssa.BinOp:
			rec(x.X, d+1)
			rec(x.Y, d+1)
		case *ssa.UnOp:
			if s, _ := elemOfSlice(v); s != nil {
				rec(s, d+1)
				return
			}
			if a, ok := x.X.(*ssa.Alloc); ok {
				for _, r := range *a.Referrers() {
					if st, ok := r.(*ssa.Store); ok && st.Addr == ssa.Value(a) {
						rec(st.Val, d+1)
					}
				}
				return
			}
			rec(x.X, d+1)
		case *ssa.Slice:
			rec(x.X, d+1)
		case *ssa.Alloc:
			// buffers filled by Read calls: follow the reader object
			for _, r := range *x.Referrers() {
				if sl, ok := r.(*ssa.Slice); ok {
					for _, rr := range *sl.Referrers() {
						if call, ok := rr.(*ssa.Call); ok && !call.Call.IsInvoke() && len(call.Call.Args) > 0 {
							rec(call.Call.Args[0], d+1)
						}
					}
				}
			}
		case *ssa.IndexAddr:
			rec(x.X, d+1)
		}
	}
	rec(v, 0)
	var res []string
	for k := range out {
		res = append(res, k)
	}
	sort.Strings(res)
	return res
}

// buildMap: node type -> field -> meta source fields, from the stores of BuildKnowledgeBase.
func buildFieldMap(fn *ssa.Function) map[string]map[string][]string {
	out := map[string]map[string][]string{}
	add := func(n, f string, src []string) {
		if len(src) == 0 {
			return
		}
		if out[n] == nil {
			out[n] = map[string][]string{}
		}
		out[n][f] = append(out[n][f], src...)
	}
	for _, b := range fn.Blocks {
		for _, in := range b.Instrs {
			st, ok := in.(*ssa.Store)
			if !ok {
				continue
			}
			switch addr := st.Addr.(type) {
			case *ssa.FieldAddr:
				if n, ok := nodeTypeOf(addr.X.Type()); ok {
					add(n, fieldOfAddr(addr).Name(), metaSources(st.Val))
				}
			case *ssa.IndexAddr:
				// element of a slice field of a node
				if f, base := fieldLoad(addr.X); f != nil && base != nil {
					if n, ok := nodeTypeOf(base.Type()); ok {
						add(n, f.Name(), metaSources(st.Val))
					}
				}
			}
		}
	}
	return out
}

// catalogFieldMap: for MakeCatalog of node type n: node field -> meta field it is stored into.
func catalogFieldMap(fn *ssa.Function) map[string][]string {
	out := map[string][]string{}
	recv := ssa.Value(receiver(fn))
	srcFields := func(v ssa.Value) []string {
		res := map[string]bool{}
		backSliceKeys(v, func(x ssa.Value) bool {
			if f, base := fieldLoad(x); f != nil && base == recv {
				res[f.Name()] = true
				return false
			}
			return true
		})
		var o []string
		for k := range res {
			o = append(o, k)
		}
		sort.Strings(o)
		return o
	}
	for _, b := range fn.Blocks {
		for _, in := range b.Instrs {
			st, ok := in.(*ssa.Store)
			if !ok {
				continue
			}
			var metaField string
			switch addr := st.Addr.(type) {
			case *ssa.FieldAddr:
				if _, ok := isMetaType(addr.X.Type()); ok {
					metaField = fieldOfAddr(addr).Name()
				}
			case *ssa.IndexAddr:
				if f, base := fieldLoad(addr.X); f != nil && base != nil {
					if _, ok := isMetaType(base.Type()); ok {
						metaField = f.Name()
					}
				}
			}
			if metaField == "" {
				continue
			}
			for _, sf := range srcFields(st.Val) {
				out[sf] = append(out[sf], metaField)
			}
		}
	}
	return out
}

// backSliceKeys is backSlice that also follows call arguments (e.Value.String(), len(..), binary.PutUint64 buffers).
func backSliceKeys(v ssa.Value, visit func(ssa.Value) bool) {
	seen := map[ssa.Value]bool{}
	var rec func(v ssa.Value, d int)
	rec = func(v ssa.Value, d int) {
		if v == nil || seen[v] || d > 14 {
			return
		}
		seen[v] = true
		if !visit(v) {
			return
		}
		switch x := v.(type) {
		case *ssa.Call:
			if x.Call.IsInvoke() {
				rec(x.Call.Value, d+1)
			}
			for _, a := range x.Call.Args {
				rec(a, d+1)
			}
		case *ssa.Phi:
			for _, e := range x.Edges {
				rec(e, d+1)
			}
		case *ssa.Extract:
			rec(x.Tuple, d+1)
		case *ssa.Convert:
			rec(x.X, d+1)
		case *ssa.ChangeType:
			rec(x.X, d+1)
		case *ssa.MakeInterface:
			rec(x.X, d+1)
		case *ssa.UnOp:
			if a, ok := x.X.(*ssa.Alloc); ok {
				for _, r := range *a.Referrers() {
					if st, ok := r.(*ssa.Store); ok && st.Addr == ssa.Value(a) {
						rec(st.Val, d+1)
					}
				}
				// a bytes.Buffer / byte array local: values written into it
				for _, r := range *a.Referrers() {
					if call, ok := r.(*ssa.Call); ok {
						for _, arg := range call.Call.Args {
							if arg != ssa.Value(a) {
								rec(arg, d+1)
							}
						}
					}
				}
				return
			}
			rec(x.X, d+1)
		case *ssa.FieldAddr:
			rec(x.X, d+1)
		case *ssa.IndexAddr:
			rec(x.X, d+1)
		case *ssa.Slice:
			rec(x.X, d+1)
		case *ssa.Next:
			rec(x.Iter, d+1)
		case *ssa.Range:
			rec(x.X, d+1)
		case *ssa.BinOp:
			rec(x.X, d+1)
			rec(x.Y, d+1)
		case *ssa.Alloc:
			for _, r := range *x.Referrers() {
				if call, ok := r.(*ssa.Call); ok {
					for _, arg := range call.Call.Args {
						if arg != ssa.Value(x) {
							rec(arg, d+1)
						}
					}
				}
				if st, ok := r.(*ssa.Store); ok && st.Addr == ssa.Value(x) {
					rec(st.Val, d+1)
				}
				// elements of an array literal (varargs)
				if ia, ok := r.(*ssa.IndexAddr); ok {
					for _, rr := range *ia.Referrers() {
						if st, ok := rr.(*ssa.Store); ok && st.Addr == ssa.Value(ia) {
							rec(st.Val, d+1)
						}
					}
				}
			}
		}
	}
	rec(v, 0)
}

var serExempt = map[string]string{
	"Constant.IsNil": "same exemption as CLN-1/SNAP-1 does not apply here: IsNil is catalogued and restored; listed only for symmetry",
}

func ruleSER2(c *Ctx) {
	p := c.P
	infos := c.nodeInfos()
	bfn := p.Method("ast", "Catalog", "BuildKnowledgeBase")
	if bfn == nil {
		c.AnchorLost("(*ast.Catalog).BuildKnowledgeBase")
		return
	}
	bmap := buildFieldMap(bfn)
	for _, n := range nodeTypeNames {
		ni := infos[n]
		mc := p.Method("ast", n, "MakeCatalog")
		if ni == nil || mc == nil {
			c.AnchorLost("(*ast." + n + ").MakeCatalog")
			continue
		}
		cmap := catalogFieldMap(mc)
		need := map[string]bool{}
		for f := range ni.Eval {
			need[f.Name()] = true
		}
		for f := range ni.WM {
			need[f.Name()] = true
		}
		for f := range ni.Engine {
			need[f.Name()] = true
		}
		if n == "RuleEntry" {
			for _, extra := range []string{"RuleName", "RuleDescription", "Salience", "Deleted"} {
				need[extra] = true
			}
		}
		var fs []string
		for f := range need {
			fs = append(fs, f)
		}
		sort.Strings(fs)
		for _, f := range fs {
			construct := fmt.Sprintf("%s.%s survives store/load", n, f)
			cat := cmap[f]
			bld := bmap[n][f]
			switch {
			case len(cat) == 0:
				c.Fail(construct, p.Pos(mc.Pos()), "MakeCatalog does not record "+n+"."+f+" in the node's meta: the field is lost when the knowledge base is stored")
			case len(bld) == 0:
				c.Fail(construct, p.Pos(bfn.Pos()), "BuildKnowledgeBase does not restore "+n+"."+f+": after load the field has its zero value")
			case !intersects(cat, bld):
				c.Fail(construct, p.Pos(bfn.Pos()), fmt.Sprintf("catalogued into meta field %v but restored from %v", uniq(cat), uniq(bld)))
			default:
				c.OK(construct, p.Pos(mc.Pos()), fmt.Sprintf("node.%s -> meta.%v -> node.%s", f, uniq(cat), f))
			}
		}
	}
}

func intersects(a, b []string) bool {
	m := map[string]bool{}
	for _, x := range a {
		m[x] = true
	}
	for _, x := range b {
		if m[x] {
			return true
		}
	}
	return false
}

func uniq(a []string) []string {
	m := map[string]bool{}
	var out []string
	for _, x := range a {
		if !m[x] {
			m[x] = true
			out = append(out, x)
		}
	}
	sort.Strings(out)
	return out
}

// ---------- SER-3 ----------

func ruleSER3(c *Ctx) {
	p := c.P
	pk := p.Pkg("ast")
	// NodeType constants
	var tags []string
	sc := pk.Types.Scope()
	nt := p.Named("ast", "NodeType")
	for _, n := range sc.Names() {
		if k, ok := sc.Lookup(n).(*types.Const); ok && nt != nil && types.Identical(k.Type(), nt) {
			tags = append(tags, n)
		}
	}
	sort.Strings(tags)
	if len(tags) < 13 {
		c.AnchorLost("NodeType constants")
		return
	}
	// (a) GetASTType of each Meta type returns one tag
	tagOfMeta := map[string]string{}
	for _, m := range c.metaTypes() {
		fn := p.Method("ast", m, "GetASTType")
		if fn == nil || fn.Synthetic != "" {
			continue
		}
		fd := p.FuncDecl(fn)
		if fd == nil {
			continue
		}
		ast.Inspect(fd.Body, func(n ast.Node) bool {
			if rs, ok := n.(*ast.ReturnStmt); ok && len(rs.Results) == 1 {
				if id, ok := rs.Results[0].(*ast.Ident); ok {
					tagOfMeta[m] = id.Name
				}
			}
			return true
		})
	}
	// (b) reader switch: tag -> Meta type constructed ; (c) builder switches: tag -> asserted Meta type and built node type
	readerTab := switchCaseTypes(p, p.Method("ast", "Catalog", "ReadCatalogFromReader"))
	builderTabs := switchCaseTypesAll(p, p.Method("ast", "Catalog", "BuildKnowledgeBase"))
	for _, tag := range tags {
		var metas []string
		for m, t := range tagOfMeta {
			if t == tag {
				metas = append(metas, m)
			}
		}
		construct := "tag " + tag + " consistent in GetASTType, reader and builder"
		if len(metas) != 1 {
			c.Fail(construct, "ast/Serializer.go", fmt.Sprintf("tag is returned by GetASTType of %v (expected exactly one Meta type)", metas))
			continue
		}
		m := metas[0]
		node := strings.TrimPrefix(tag, "Type")
		rOK := len(readerTab) == 1 && contains(readerTab[0][tag], m)
		bOK := len(builderTabs) >= 2
		why := ""
		for i, tab := range builderTabs {
			ts := tab[tag]
			if ts == nil {
				bOK = false
				why = fmt.Sprintf("builder switch %d has no case for %s", i+1, tag)
				continue
			}
			// every Meta type asserted in the clause must be m; a node type mentioned must be the namesake
			for _, t := range ts {
				if strings.HasSuffix(t, "Meta") && t != m {
					bOK = false
					why = fmt.Sprintf("builder switch %d asserts %s under %s", i+1, t, tag)
				}
			}
			if !contains(ts, node) && node != "Constant" || (i == 0 && !contains(ts, node)) {
				if !(i == 1 && node == "Constant") {
					bOK = false
					why = fmt.Sprintf("builder switch %d does not build/assert %s under %s (found %v)", i+1, node, tag, ts)
				}
			}
		}
		c.Check(rOK && bOK, construct, "ast/Serializer.go", "Meta "+m+" <-> node "+node, fmt.Sprintf("tag tables disagree (readerConstructs=%v builderOK=%v %s)", readerTab0(readerTab, tag), bOK, why))
	}
}

func readerTab0(t []map[string][]string, tag string) []string {
	if len(t) == 0 {
		return nil
	}
	return t[0][tag]
}

func contains(a []string, s string) bool {
	for _, x := range a {
		if x == s {
			return true
		}
	}
	return false
}

// switchCaseTypesAll extracts, for every switch in fn whose cases are NodeType constants, tag -> names of ast types
// mentioned in the clause body (composite literals and type assertions).
func switchCaseTypesAll(p *Prog, fn *ssa.Function) []map[string][]string {
	fd := p.FuncDecl(fn)
	if fd == nil {
		return nil
	}
	info := p.TypesInfo(fn)
	nt := p.Named("ast", "NodeType")
	var out []map[string][]string
	ast.Inspect(fd.Body, func(n ast.Node) bool {
		sw, ok := n.(*ast.SwitchStmt)
		if !ok {
			return true
		}
		tab := map[string][]string{}
		isTagSwitch := false
		hasDefaultErr := false
		for _, st := range sw.Body.List {
			cc := st.(*ast.CaseClause)
			if cc.List == nil {
				ast.Inspect(cc, func(x ast.Node) bool {
					if _, ok := x.(*ast.ReturnStmt); ok {
						hasDefaultErr = true
					}
					return true
				})
				continue
			}
			for _, e := range cc.List {
				tv, ok := info.Types[e]
				if !ok || nt == nil || !types.Identical(tv.Type, nt) {
					continue
				}
				isTagSwitch = true
				name := types.ExprString(e)
				var mentioned []string
				ast.Inspect(cc, func(x ast.Node) bool {
					var te ast.Expr
					switch y := x.(type) {
					case *ast.CompositeLit:
						te = y.Type
					case *ast.TypeAssertExpr:
						te = y.Type
					}
					if te != nil {
						if st, ok := te.(*ast.StarExpr); ok {
							te = st.X
						}
						if id, ok := te.(*ast.Ident); ok {
							mentioned = append(mentioned, id.Name)
						}
					}
					return true
				})
				if tab[name] == nil {
					tab[name] = []string{}
				}
				tab[name] = append(tab[name], mentioned...)
			}
		}
		if isTagSwitch {
			if !hasDefaultErr {
				tab["\x00nodefault"] = []string{"x"}
			}
			out = append(out, tab)
			return false
		}
		return true
	})
	return out
}

func switchCaseTypes(p *Prog, fn *ssa.Function) []map[string][]string {
	return switchCaseTypesAll(p, fn)
}

// ---------- SER-4 ----------

func (c *Ctx) storeLoadFuncs() []*ssa.Function {
	p := c.P
	roots := []*ssa.Function{
		p.Method("ast", "KnowledgeLibrary", "LoadKnowledgeBaseFromReader"),
		p.Method("ast", "KnowledgeLibrary", "StoreKnowledgeBaseToWriter"),
	}
	funcs := c.reachableModuleFuncs(roots, false)
	var fl []*ssa.Function
	for f := range funcs {
		if fnPkgShort(f) == "ast" {
			fl = append(fl, f)
		}
	}
	sort.Slice(fl, func(i, j int) bool { return fl[i].String() < fl[j].String() })
	return fl
}

func ruleSER4(c *Ctx) {
	p := c.P
	fl := c.storeLoadFuncs()
	if len(fl) < 40 {
		c.Fail("store/load call tree", "-", fmt.Sprintf("only %d functions reachable from Load/Store (anchor lost)", len(fl)))
		return
	}
	isDecode := func(fn *ssa.Function) func(ssa.Instruction) bool {
		return func(in ssa.Instruction) bool {
			ci, ok := in.(ssa.CallInstruction)
			if !ok {
				return false
			}
			if _, isDefer := in.(*ssa.Defer); isDefer {
				return false
			}
			f, m := calleeOf(ci)
			name := ""
			if f != nil {
				if !fnInModule(f) {
					return false
				}
				name = f.Name()
			} else if m != nil {
				name = m.Name()
			}
			return strings.HasPrefix(name, "Read") || strings.HasPrefix(name, "Write") || name == "BuildKnowledgeBase"
		}
	}
	n := errDiscipline(c, fl, map[string]string{}, isDecode)
	c.Notes = append(c.Notes, fmt.Sprintf("SER-4 analysed %d call sites with an error result in %d module functions reachable from load/store", n, len(fl)))
	// library calls and deferred / spawned calls on the same tree: an error result must not be discarded
	// (a buffered writer flushed in a defer reports the writer's failure only through Flush's result)
	lib := 0
	for _, fn := range fl {
		for _, b := range fn.Blocks {
			for _, in := range b.Instrs {
				ci, ok := in.(ssa.CallInstruction)
				if !ok {
					continue
				}
				sig := ci.Common().Signature()
				idx := errResultIndex(sig)
				if idx < 0 {
					continue
				}
				f, m := calleeOf(ci)
				inMod := f != nil && fnInModule(f)
				_, isDefer := in.(*ssa.Defer)
				_, isGo := in.(*ssa.Go)
				if inMod && !isDefer && !isGo {
					continue // judged by the error discipline above
				}
				name := calleeName(ci)
				if m != nil && f == nil {
					name = m.FullName()
				}
				if why, ok := ser4DiscardOK[name]; ok {
					c.OK(fmt.Sprintf("%s / result of %s may be dropped", fnName(fn), name), p.InstrPos(in), why)
					continue
				}
				lib++
				construct := fmt.Sprintf("%s / error of %s is not dropped", fnName(fn), name)
				if isDefer || isGo {
					c.Fail(construct, p.InstrPos(in), "the call is deferred/spawned, so its error result is discarded: a failure it reports (e.g. the final flush of a buffered writer) never reaches the caller of store/load")
					continue
				}
				call := in.(*ssa.Call)
				used := false
				for _, r := range *call.Referrers() {
					if ex, ok := r.(*ssa.Extract); ok {
						if ex.Index == idx && len(*ex.Referrers()) > 0 {
							used = true
						}
					} else if sig.Results().Len() == 1 {
						used = true
					}
				}
				c.Check(used, construct, p.InstrPos(in), "error result is consumed", "the error result of this library call is discarded on the store/load path")
			}
		}
	}
	c.Notes = append(c.Notes, fmt.Sprintf("SER-4 library/deferred call sites with an error result: %d", lib))
}

// ser4DiscardOK: callees whose error result carries nothing for store/load (one symbol, one reason).
var ser4DiscardOK = map[string]string{
	"(*strings.Builder).WriteString": "documented to always return a nil error",
	"(*strings.Builder).WriteByte":   "documented to always return a nil error",
	"(*strings.Builder).WriteRune":   "documented to always return a nil error",
	"(*strings.Builder).Write":       "documented to always return a nil error",
	"(*bytes.Buffer).Write":          "documented to always return a nil error (panics with ErrTooLarge)",
	"(*bytes.Buffer).WriteByte":      "documented to always return a nil error",
	"(*bytes.Buffer).WriteString":    "documented to always return a nil error",
	"(*bytes.Buffer).WriteRune":      "documented to always return a nil error",
}

// ---------- SER-5 ----------

func ruleSER5(c *Ctx) {
	p := c.P
	fn := p.Method("ast", "KnowledgeLibrary", "LoadKnowledgeBaseFromReader")
	if fn == nil {
		c.AnchorLost("LoadKnowledgeBaseFromReader")
		return
	}
	lib := p.Field("ast", "KnowledgeLibrary", "Library")
	var ow *ssa.Parameter
	for _, prm := range fn.Params {
		if isBoolT(prm.Type()) {
			ow = prm
		}
	}
	n := 0
	for _, b := range fn.Blocks {
		for _, in := range b.Instrs {
			mu, ok := in.(*ssa.MapUpdate)
			if !ok {
				continue
			}
			if f, _ := fieldLoad(mu.Map); f != lib {
				continue
			}
			n++
			guarded := edgesDominate(fn, mu, func(bb *ssa.BasicBlock, si int) bool {
				iff, isIf := bb.Instrs[len(bb.Instrs)-1].(*ssa.If)
				if !isIf {
					return false
				}
				if kind, sTrue, okc := condOn(iff.Cond, func(v ssa.Value) bool { return ow != nil && unspill(v) == ssa.Value(ow) }); okc && kind == "bool" && si == sTrue {
					return true
				}
				// missed lookup in the same map
				kind, sTrue, okc := condOn(iff.Cond, func(v ssa.Value) bool {
					ex, isEx := v.(*ssa.Extract)
					if !isEx || ex.Index != 1 {
						return false
					}
					lk, isLk := ex.Tuple.(*ssa.Lookup)
					if !isLk || !lk.CommaOk {
						return false
					}
					f, _ := fieldLoad(lk.X)
					return f == lib && sameKeyExpr(lk.Index, mu.Key)
				})
				return okc && kind == "bool" && si == 1-sTrue
			})
			c.Check(guarded, "LoadKnowledgeBaseFromReader / library entry written only under overwrite or after a missed lookup", p.InstrPos(mu), "guarded", "an existing knowledge base can be replaced although overwrite=false")
		}
	}
	if n == 0 {
		c.Fail("LoadKnowledgeBaseFromReader / library update", p.Pos(fn.Pos()), "no update of the library map (anchor lost)")
	}
}

// sameKeyExpr: two key values are the same call expression over the same operands (GetKnowledgeBaseKey(kb.Name, kb.Version)).
func sameKeyExpr(a, b ssa.Value) bool {
	if a == b {
		return true
	}
	ca, ok1 := a.(*ssa.Call)
	cb, ok2 := b.(*ssa.Call)
	if !ok1 || !ok2 || ca.Call.StaticCallee() == nil || ca.Call.StaticCallee() != cb.Call.StaticCallee() || len(ca.Call.Args) != len(cb.Call.Args) {
		return false
	}
	for i := range ca.Call.Args {
		fa, ba := fieldLoad(ca.Call.Args[i])
		fb, bb := fieldLoad(cb.Call.Args[i])
		if fa == nil || fa != fb || unspill(ba) != unspill(bb) {
			return false
		}
	}
	return true
}

// ---------- SER-6 ----------

func ruleSER6(c *Ctx) {
	p := c.P
	w := p.Method("ast", "Catalog", "WriteCatalogToWriter")
	r := p.Method("ast", "Catalog", "ReadCatalogFromReader")
	if w == nil || r == nil {
		c.AnchorLost("catalog writer/reader")
		return
	}
	ws := serSequence(p, w, true)
	_ = serSequence(p, r, false)
	c.Check(len(ws) > 0 && ws[0].Kind == "String" && strings.HasPrefix(ws[0].Desc, "const:"), "WriteCatalogToWriter / first item is the format version constant", p.Pos(w.Pos()), "first write is the Version constant", "the stream no longer starts with the format version")
	okGate := false
	accepted := map[string]bool{}
	{
		calls := findCalls(r, func(ci ssa.CallInstruction) bool {
			f, _ := calleeOf(ci)
			return f != nil && readPrims[f.Name()] != ""
		})
		sort.Slice(calls, func(i, j int) bool { return calls[i].Pos() < calls[j].Pos() })
		if len(calls) >= 2 && len(ws) > 0 {
			first := calls[0]
			ver := resultValues(first, 0)
			// every test of the version string against a constant; match edge per block
			match := map[*ssa.BasicBlock]int{}
			for _, b := range r.Blocks {
				iff, ok := b.Instrs[len(b.Instrs)-1].(*ssa.If)
				if !ok {
					continue
				}
				bo, ok := iff.Cond.(*ssa.BinOp)
				if !ok || len(ver) == 0 || (bo.Op != token.EQL && bo.Op != token.NEQ) {
					continue
				}
				var other ssa.Value
				if bo.X == ver[0] {
					other = bo.Y
				} else if bo.Y == ver[0] {
					other = bo.X
				} else {
					continue
				}
				k, isK := constString(other)
				if !isK {
					continue
				}
				accepted[k] = true
				if bo.Op == token.EQL {
					match[b] = 0
				} else {
					match[b] = 1
				}
			}
			chainOK := len(match) > 0
			for b, m := range match {
				mis := b.Succs[1-m]
				if _, isNext := match[mis]; isNext {
					continue // not this version: try the next accepted one
				}
				if !onlyErrorReturns(mis, naturalLoops(r)) {
					chainOK = false
				}
			}
			gated := edgesDominate(r, calls[1].(ssa.Instruction), func(bb *ssa.BasicBlock, si int) bool {
				m, ok := match[bb]
				return ok && si == m
			})
			writes := strings.TrimPrefix(ws[0].Desc, "const:")
			if uq, err := strconv.Unquote(writes); err == nil {
				writes = uq
			}
			okGate = chainOK && gated && accepted[writes]
		}
	}
	c.Check(okGate, "ReadCatalogFromReader / version compared first, mismatch is an error", p.Pos(r.Pos()), fmt.Sprintf("first read compared with the accepted versions %v (the writer's among them); any other value returns an error before anything else is read", sortedBoolKeys(accepted)), "the format version is not checked before the rest of the stream is decoded, or the reader does not accept what the writer writes")
}

// ---------- SER-7 ----------

func ruleSER7(c *Ctx) {
	p := c.P
	wm := p.Named("ast", "WorkingMemory")
	if wm == nil {
		c.AnchorLost("ast.WorkingMemory")
		return
	}
	st := wm.Underlying().(*types.Struct)
	funcs := map[string]*ssa.Function{
		"NewWorkingMemory":      p.Func("ast", "NewWorkingMemory"),
		"MakeCatalog":           p.Method("ast", "WorkingMemory", "MakeCatalog"),
		"Clone":                 p.Method("ast", "WorkingMemory", "Clone"),
		"BuildKnowledgeBase":    p.Method("ast", "Catalog", "BuildKnowledgeBase"),
		"WriteCatalogToWriter":  p.Method("ast", "Catalog", "WriteCatalogToWriter"),
		"ReadCatalogFromReader": p.Method("ast", "Catalog", "ReadCatalogFromReader"),
	}
	catSt := p.Named("ast", "Catalog").Underlying().(*types.Struct)
	for i := 0; i < st.NumFields(); i++ {
		f := st.Field(i)
		if _, ok := f.Type().Underlying().(*types.Map); !ok {
			continue
		}
		// counterpart in Catalog: Memory + upper-cased name
		cname := "Memory" + strings.ToUpper(f.Name()[:1]) + f.Name()[1:]
		var cf *types.Var
		for j := 0; j < catSt.NumFields(); j++ {
			if catSt.Field(j).Name() == cname {
				cf = catSt.Field(j)
			}
		}
		var missing []string
		for name, fn := range funcs {
			if fn == nil {
				missing = append(missing, name+"(not found)")
				continue
			}
			want := f
			if name == "WriteCatalogToWriter" || name == "ReadCatalogFromReader" {
				want = cf
			}
			if want == nil || !mentionsField(fn, want) {
				missing = append(missing, name)
				continue
			}
			switch name {
			case "MakeCatalog":
				if cf == nil || !updatesMapField(fn, cf) || !rangesOverField(fn, f) {
					missing = append(missing, name+"(does not fill the catalogue map from the working-memory map)")
				}
			case "BuildKnowledgeBase":
				if cf == nil || !updatesMapField(fn, f) || !rangesOverField(fn, cf) {
					missing = append(missing, name+"(does not fill the working-memory map from the catalogue map)")
				}
			case "Clone":
				if !updatesMapField(fn, f) || !rangesOverField(fn, f) {
					missing = append(missing, name+"(does not fill the clone's map from the origin's)")
				}
			case "ReadCatalogFromReader":
				if !updatesMapField(fn, cf) {
					missing = append(missing, name+"(does not fill the catalogue map)")
				}
			case "WriteCatalogToWriter":
				if !rangesOverField(fn, cf) {
					missing = append(missing, name+"(does not range over the catalogue map)")
				}
			}
		}
		sort.Strings(missing)
		c.Check(len(missing) == 0 && cf != nil, "WorkingMemory."+f.Name()+" handled by every traversal", p.Pos(f.Pos()), "constructor, MakeCatalog, Clone, BuildKnowledgeBase, catalog writer and reader", fmt.Sprintf("map %s is not handled by %v: an instance/loaded knowledge base lacks part of the invalidation index", f.Name(), missing))
	}
}

func mentionsField(fn *ssa.Function, f *types.Var) bool {
	for _, b := range fn.Blocks {
		for _, in := range b.Instrs {
			if fa, ok := in.(*ssa.FieldAddr); ok && fieldOfAddr(fa) == f {
				return true
			}
		}
	}
	return false
}

// ---------- SER-8 ----------

func ruleSER8(c *Ctx) {
	p := c.P
	fn := p.Method("ast", "KnowledgeLibrary", "LoadKnowledgeBaseFromReader")
	if fn == nil {
		c.AnchorLost("LoadKnowledgeBaseFromReader")
		return
	}
	ok := false
	why := "no deferred recover()"
	for _, rb := range findRecoverBarriers(fn) {
		good, w := barrierAssignsError(fn, rb, false, false)
		if !good {
			why = w
			continue
		}
		// installed in the entry block, before any decoding call
		if rb.deferInstr.Block() == fn.Blocks[0] {
			first := true
			for _, in := range fn.Blocks[0].Instrs {
				if in == ssa.Instruction(rb.deferInstr) {
					break
				}
				if _, isDefer := in.(*ssa.Defer); isDefer {
					continue // runs at the end
				}
				if ci, isCall := in.(ssa.CallInstruction); isCall {
					if f, _ := calleeOf(ci); f != nil && fnInModule(f) {
						first = false
					}
				}
			}
			if first {
				ok = true
			} else {
				why = "the barrier is installed after decoding has started"
			}
		} else if isBarrier(fn) {
			// behind guard code that calls nothing of the module: every decoding call happens after the defer
			ok = true
		} else {
			why = "the barrier is not installed before the first call of a module function"
		}
	}
	c.Check(ok, "LoadKnowledgeBaseFromReader / recover barrier installed first and reports an error", p.Pos(fn.Pos()), "defer+recover in the entry block assigns the named error result", why)
}

func updatesMapField(fn *ssa.Function, f *types.Var) bool {
	for _, b := range fn.Blocks {
		for _, in := range b.Instrs {
			if mu, ok := in.(*ssa.MapUpdate); ok {
				if mf, _ := fieldLoad(mu.Map); mf == f {
					return true
				}
			}
		}
	}
	return false
}

func rangesOverField(fn *ssa.Function, f *types.Var) bool {
	for _, l := range naturalLoops(fn) {
		if x := rangeOperand(l); x != nil {
			if rf, _ := fieldLoad(x); rf == f {
				return true
			}
		}
	}
	return false
}

// SER-9: value provenance of the working-memory traversals.
func ruleSER9(c *Ctx) {
	p := c.P
	mk := p.Method("ast", "WorkingMemory", "MakeCatalog")
	bd := p.Method("ast", "Catalog", "BuildKnowledgeBase")
	if mk == nil || bd == nil {
		c.AnchorLost("WorkingMemory.MakeCatalog / BuildKnowledgeBase")
		return
	}
	wm := p.Named("ast", "WorkingMemory").Underlying().(*types.Struct)
	catSt := p.Named("ast", "Catalog").Underlying().(*types.Struct)
	loopsM := naturalLoops(mk)
	loopsB := naturalLoops(bd)
	for i := 0; i < wm.NumFields(); i++ {
		f := wm.Field(i)
		mt, ok := f.Type().Underlying().(*types.Map)
		if !ok {
			continue
		}
		cname := "Memory" + strings.ToUpper(f.Name()[:1]) + f.Name()[1:]
		var cf *types.Var
		for j := 0; j < catSt.NumFields(); j++ {
			if catSt.Field(j).Name() == cname {
				cf = catSt.Field(j)
			}
		}
		if cf == nil {
			continue
		}
		_, keyIsString := mt.Key().Underlying().(*types.Basic)
		// --- MakeCatalog: inside the range over wm.f, the catalogue entry is keyed by (the key | the key's AstID) and holds
		// the AstID of (the value | each element of the value)
		isAstIDOf := func(v ssa.Value, pred func(ssa.Value) bool) bool {
			lf, base := fieldLoad(v)
			return lf != nil && lf.Name() == "AstID" && pred(base)
		}
		okM, whyM := false, "no update of "+cname+" inside a range over "+f.Name()
		for _, b := range mk.Blocks {
			for _, in := range b.Instrs {
				var mapV, keyV, valV, elemIdx ssa.Value
				switch x := in.(type) {
				case *ssa.MapUpdate:
					mapV, keyV, valV = x.Map, x.Key, x.Value
				case *ssa.Store:
					// element store into catalogue list: cat.M[key][i] = j.AstID
					if ia, ok := x.Addr.(*ssa.IndexAddr); ok {
						if lk, ok := ia.X.(*ssa.Lookup); ok {
							mapV, keyV, valV, elemIdx = lk.X, lk.Index, x.Val, ia.Index
						}
					}
				}
				if mapV == nil {
					continue
				}
				if mf, _ := fieldLoad(mapV); mf != cf {
					continue
				}
				l := innermostLoopOfAny(loopsM, b, func(l *Loop) bool {
					x := rangeOperand(l)
					if x == nil {
						return false
					}
					rf, rb := fieldLoad(x)
					return rf == f && rb == ssa.Value(receiver(mk))
				})
				if l == nil {
					whyM = cname + " is filled outside the range over " + f.Name()
					continue
				}
				keyOK := isRangeKeyOf(keyV, l)
				if !keyIsString {
					keyOK = isAstIDOf(keyV, func(b ssa.Value) bool { return isRangeKeyOf(b, l) })
				}
				valOK := false
				if _, isSlice := mt.Elem().Underlying().(*types.Slice); isSlice {
					// a fresh list, or the AstID of an element of the range value
					if _, isMake := valV.(*ssa.MakeSlice); isMake {
						valOK = true
					} else {
						valOK = isAstIDOf(valV, func(b ssa.Value) bool {
							s, idx := elemOfSlice(b)
							return s != nil && isRangeValueOf(s, l) && idx == elemIdx
						})
					}
				} else {
					valOK = isAstIDOf(valV, func(b ssa.Value) bool { return isRangeValueOf(b, l) })
				}
				if keyOK && valOK {
					okM = true
				} else {
					okM = false
					whyM = fmt.Sprintf("entry of %s is not (key%s, AstID of the mapped node): keyOK=%v valueOK=%v", cname, map[bool]string{true: "", false: ".AstID"}[keyIsString], keyOK, valOK)
					break
				}
			}
		}
		c.Check(okM, "WorkingMemory.MakeCatalog / "+f.Name()+" catalogued entry for entry", p.Pos(mk.Pos()), "key and node ids taken from the same map entry", whyM)
		// --- BuildKnowledgeBase: inside the range over cat.cf, the wm entry is keyed by (the key | importTable[key]) and
		// holds importTable[value] (or importTable[element])
		viaImport := func(v ssa.Value, pred func(ssa.Value) bool) bool {
			found := false
			var rec func(v ssa.Value, d int)
			rec = func(v ssa.Value, d int) {
				if v == nil || found || d > 8 {
					return
				}
				switch x := v.(type) {
				case *ssa.TypeAssert:
					rec(x.X, d+1)
				case *ssa.Extract:
					rec(x.Tuple, d+1)
				case *ssa.Phi:
					for _, e := range x.Edges {
						rec(e, d+1)
					}
				case *ssa.Lookup:
					if pred(x.Index) {
						found = true
					}
				case *ssa.UnOp:
					if a, ok := x.X.(*ssa.Alloc); ok {
						for _, r := range *a.Referrers() {
							if st, ok := r.(*ssa.Store); ok && st.Addr == ssa.Value(a) {
								rec(st.Val, d+1)
							}
						}
					}
				}
			}
			rec(v, 0)
			return found
		}
		okB, whyB := false, "no update of "+f.Name()+" inside a range over "+cname
		for _, b := range bd.Blocks {
			for _, in := range b.Instrs {
				var mapV, keyV, valV, elemIdx ssa.Value
				switch x := in.(type) {
				case *ssa.MapUpdate:
					mapV, keyV, valV = x.Map, x.Key, x.Value
				case *ssa.Store:
					if ia, ok := x.Addr.(*ssa.IndexAddr); ok {
						if lk, ok := ia.X.(*ssa.Lookup); ok {
							mapV, keyV, valV, elemIdx = lk.X, lk.Index, x.Val, ia.Index
						}
					}
				}
				if mapV == nil {
					continue
				}
				if mf, _ := fieldLoad(mapV); mf != f {
					continue
				}
				l := innermostLoopOfAny(loopsB, b, func(l *Loop) bool {
					x := rangeOperand(l)
					if x == nil {
						return false
					}
					rf, _ := fieldLoad(x)
					return rf == cf
				})
				if l == nil {
					whyB = f.Name() + " is filled outside the range over " + cname
					continue
				}
				keyOK := isRangeKeyOf(keyV, l)
				if !keyIsString {
					keyOK = viaImport(keyV, func(k ssa.Value) bool { return isRangeKeyOf(k, l) })
				}
				valOK := false
				if _, isSlice := mt.Elem().Underlying().(*types.Slice); isSlice {
					if _, isMake := valV.(*ssa.MakeSlice); isMake {
						valOK = true
					} else {
						valOK = viaImport(valV, func(k ssa.Value) bool {
							s, idx := elemOfSlice(k)
							return s != nil && isRangeValueOf(s, l) && idx == elemIdx
						})
					}
				} else {
					valOK = viaImport(valV, func(k ssa.Value) bool { return isRangeValueOf(k, l) })
				}
				if keyOK && valOK {
					okB = true
				} else {
					okB = false
					whyB = fmt.Sprintf("entry of %s is not rebuilt from the same catalogue entry: keyOK=%v valueOK=%v", f.Name(), keyOK, valOK)
					break
				}
			}
		}
		c.Check(okB, "BuildKnowledgeBase / "+f.Name()+" rebuilt entry for entry", p.Pos(bd.Pos()), "key and nodes resolved through the import table from the same catalogue entry", whyB)
	}
}

func init() {
	register("SER-11", "catalogue and rebuilt knowledge base are wired to name, version, every rule entry and the working memory", 6, ruleSER11)
}

// SER-11: the top of both traversals.
func ruleSER11(c *Ctx) {
	p := c.P
	mk := p.Method("ast", "KnowledgeBase", "MakeCatalog")
	bd := p.Method("ast", "Catalog", "BuildKnowledgeBase")
	if mk == nil || bd == nil {
		c.AnchorLost("KnowledgeBase.MakeCatalog / Catalog.BuildKnowledgeBase")
		return
	}
	kbT := p.Named("ast", "KnowledgeBase")
	catT := p.Named("ast", "Catalog")
	// --- MakeCatalog: catalogue name/version from the receiver; every rule entry catalogued; working memory catalogued
	recvM := ssa.Value(receiver(mk))
	var catAlloc *ssa.Alloc
	for _, b := range mk.Blocks {
		for _, in := range b.Instrs {
			if al, ok := in.(*ssa.Alloc); ok && types.Identical(al.Type(), types.NewPointer(catT)) {
				catAlloc = al
			}
		}
	}
	nameOK := map[string]bool{}
	if catAlloc != nil {
		for f, vals := range cloneFieldStores(mk, catAlloc) {
			for _, v := range vals {
				lf, base := fieldLoad(v)
				if lf != nil && base == recvM {
					if f.Name() == "KnowledgeBaseName" && lf.Name() == "Name" {
						nameOK["name"] = true
					}
					if f.Name() == "KnowledgeBaseVersion" && lf.Name() == "Version" {
						nameOK["version"] = true
					}
				}
			}
		}
	}
	c.Check(nameOK["name"] && nameOK["version"], "KnowledgeBase.MakeCatalog / name and version catalogued", p.Pos(mk.Pos()), "KnowledgeBaseName <- Name, KnowledgeBaseVersion <- Version", "the catalogue does not carry the knowledge base's own name/version: the loaded knowledge base is registered under another key")
	reF := p.Field("ast", "KnowledgeBase", "RuleEntries")
	okEntries := false
	for _, l := range naturalLoops(mk) {
		x := rangeOperand(l)
		if x == nil {
			continue
		}
		if f, base := fieldLoad(x); f != reF || base != recvM {
			continue
		}
		early := false
		for _, ex := range l.Exits() {
			if ex[0].(*ssa.BasicBlock) != l.Header {
				early = true
			}
		}
		for b := range l.Blocks {
			for _, in := range b.Instrs {
				if ci, ok := in.(ssa.CallInstruction); ok && calleeNameIs(ci, "MakeCatalog") && len(ci.Common().Args) >= 1 && isRangeValueOf(ci.Common().Args[0], l) && passesOnEveryIteration(l, in) && !early {
					okEntries = true
				}
			}
		}
	}
	c.Check(okEntries, "KnowledgeBase.MakeCatalog / every rule entry is catalogued", p.Pos(mk.Pos()), "range over RuleEntries, MakeCatalog on every entry, no early exit", "some rule entries are not catalogued (skipped, or the loop ends early): they are missing after load")
	okWM := false
	wmF := p.Field("ast", "KnowledgeBase", "WorkingMemory")
	for _, ci := range callsIn(mk) {
		if calleeNameIs(ci, "MakeCatalog") && len(ci.Common().Args) >= 1 {
			if f, base := fieldLoad(ci.Common().Args[0]); f == wmF && base == recvM {
				okWM = mustPass(mk, func(in ssa.Instruction) bool { return in == ci.(ssa.Instruction) })
			}
		}
	}
	c.Check(okWM, "KnowledgeBase.MakeCatalog / working memory is catalogued", p.Pos(mk.Pos()), "WorkingMemory.MakeCatalog on every path", "the working memory is not catalogued: the loaded knowledge base has no invalidation index")
	// --- BuildKnowledgeBase: returned knowledge base
	var kbAlloc *ssa.Alloc
	for _, b := range bd.Blocks {
		for _, in := range b.Instrs {
			if al, ok := in.(*ssa.Alloc); ok && types.Identical(al.Type(), types.NewPointer(kbT)) {
				kbAlloc = al
			}
		}
	}
	if kbAlloc == nil {
		c.Fail("BuildKnowledgeBase / builds a knowledge base", p.Pos(bd.Pos()), "no KnowledgeBase is allocated")
		return
	}
	recvB := ssa.Value(receiver(bd))
	got := map[string]bool{}
	var wmAlloc ssa.Value
	for f, vals := range cloneFieldStores(bd, kbAlloc) {
		for _, v := range vals {
			lf, base := fieldLoad(v)
			switch f.Name() {
			case "Name":
				got["name"] = lf != nil && lf.Name() == "KnowledgeBaseName" && base == recvB
			case "Version":
				got["version"] = lf != nil && lf.Name() == "KnowledgeBaseVersion" && base == recvB
			case "WorkingMemory":
				wmAlloc = v
			}
		}
	}
	c.Check(got["name"] && got["version"], "BuildKnowledgeBase / name and version restored", p.Pos(bd.Pos()), "Name <- KnowledgeBaseName, Version <- KnowledgeBaseVersion", "the rebuilt knowledge base does not get the catalogued name/version")
	// the working memory attached is the one whose maps are filled
	okAttach := false
	if wmAlloc != nil {
		for _, b := range bd.Blocks {
			for _, in := range b.Instrs {
				if mu, ok := in.(*ssa.MapUpdate); ok {
					if f, base := fieldLoad(mu.Map); f != nil && base == wmAlloc && strings.HasSuffix(f.Name(), "SnapshotMap") {
						okAttach = true
					}
				}
			}
		}
	}
	c.Check(okAttach, "BuildKnowledgeBase / the rebuilt working memory is the one attached to the result", p.Pos(bd.Pos()), "knowledgeBase.WorkingMemory is the memory whose maps are filled", "the knowledge base returned carries another (empty) working memory than the one rebuilt")
	// every rebuilt rule entry is registered under its own name in the result, and the result is what is returned
	okReg := false
	for _, b := range bd.Blocks {
		for _, in := range b.Instrs {
			mu, ok := in.(*ssa.MapUpdate)
			if !ok {
				continue
			}
			f, base := fieldLoad(mu.Map)
			if f != reF || base != ssa.Value(kbAlloc) {
				continue
			}
			_, isEntry := mu.Value.(*ssa.Alloc)
			kf, kb := fieldLoad(mu.Key)
			okKey := kf != nil && kf.Name() == "RuleName" && (kb == mu.Value || isMetaOf(kb))
			// in the clause that builds rule entries: dominated by the allocation of that entry
			if isEntry && okKey && isNamed(mu.Value.Type(), fullPkg("ast"), "RuleEntry") {
				okReg = true
			}
		}
	}
	c.Check(okReg, "BuildKnowledgeBase / every rebuilt rule entry is registered under its name", p.Pos(bd.Pos()), "RuleEntries[entry.RuleName] = entry in the rule-entry clause", "rebuilt rule entries are not put into the knowledge base (or under another key): the loaded knowledge base has no such rule")
	okRet := false
	for _, ret := range returnsOf(bd) {
		if len(ret.Results) == 2 && isNilConst(ret.Results[1]) && ret.Results[0] == ssa.Value(kbAlloc) {
			okRet = true
		}
	}
	c.Check(okRet, "BuildKnowledgeBase / returns the knowledge base it filled", p.Pos(bd.Pos()), "success return yields the allocated knowledge base", "the success return does not yield the knowledge base that was filled")
}

func isMetaOf(v ssa.Value) bool {
	if v == nil {
		return false
	}
	_, ok := isMetaType(v.Type())
	return ok
}

func init() {
	register("SER-12", "only the cataloguing and reading routines write a catalogue; nothing removes from it", 10, ruleSER12)
}

// SER-12 (who-may-write): the catalogue is filled by WorkingMemory.MakeCatalog, Catalog.AddMeta (node records),
// KnowledgeBase.MakeCatalog (name/version) and ReadCatalogFromReader; no other function stores to its fields or maps,
// and no function at all deletes from its maps — a catalogue that is pruned after being filled loses part of the
// knowledge base (e.g. invalidation index entries) across store/load.
func ruleSER12(c *Ctx) {
	p := c.P
	catT := p.Named("ast", "Catalog")
	if catT == nil {
		c.AnchorLost("ast.Catalog")
		return
	}
	st, _ := catT.Underlying().(*types.Struct)
	isCatField := func(f *types.Var) bool {
		if f == nil || st == nil {
			return false
		}
		for i := 0; i < st.NumFields(); i++ {
			if st.Field(i) == f {
				return true
			}
		}
		return false
	}
	allowed := map[*ssa.Function]string{}
	for _, a := range [][3]string{{"ast", "WorkingMemory", "MakeCatalog"}, {"ast", "Catalog", "AddMeta"}, {"ast", "Catalog", "ReadCatalogFromReader"}, {"ast", "KnowledgeBase", "MakeCatalog"}} {
		if fn := p.Method(a[0], a[1], a[2]); fn != nil {
			allowed[fn] = a[1] + "." + a[2]
		} else {
			c.AnchorLost(a[1] + "." + a[2])
		}
	}
	// derivesFromCatalogue: the value is (selected out of) a catalogue field
	fromCat := func(v ssa.Value) *types.Var {
		var hit *types.Var
		backSlice(v, func(w ssa.Value) bool {
			if f, _ := fieldLoad(w); isCatField(f) {
				hit = f
				return false
			}
			if fa, ok := w.(*ssa.FieldAddr); ok && isCatField(fieldOfAddr(fa)) {
				hit = fieldOfAddr(fa)
				return false
			}
			return hit == nil
		})
		return hit
	}
	writes := 0
	for _, fn := range p.ModuleFuncs() {
		if strings.HasSuffix(p.Pos(fn.Pos()), "_test.go") {
			continue
		}
		root := fn
		for root.Parent() != nil {
			root = root.Parent()
		}
		for _, b := range fn.Blocks {
			for _, in := range b.Instrs {
				var f *types.Var
				kind := ""
				switch in := in.(type) {
				case *ssa.Store:
					if ff, _, _ := fieldStore(in); isCatField(ff) {
						f, kind = ff, "field store"
					} else if ia, ok := in.Addr.(*ssa.IndexAddr); ok {
						if ff := fromCat(ia.X); ff != nil {
							f, kind = ff, "element store"
						}
					}
				case *ssa.MapUpdate:
					if ff := fromCat(in.Map); ff != nil {
						f, kind = ff, "map update"
					}
				case ssa.CallInstruction:
					if bi, ok := in.Common().Value.(*ssa.Builtin); ok && (bi.Name() == "delete" || bi.Name() == "clear") && len(in.Common().Args) >= 1 {
						if ff := fromCat(in.Common().Args[0]); ff != nil {
							c.Fail(fmt.Sprintf("%s / removes from Catalog.%s", fnName(fn), ff.Name()), p.InstrPos(in.(ssa.Instruction)), fmt.Sprintf("%s(…) on Catalog.%s: entries recorded for the knowledge base are dropped from the catalogue and are missing after store/load", bi.Name(), ff.Name()))
						}
					}
				}
				if f == nil {
					continue
				}
				writes++
				who, ok := allowed[root]
				key := fmt.Sprintf("%s / %s of Catalog.%s", fnName(fn), kind, f.Name())
				if !ok {
					c.Fail(key, p.InstrPos(in), fmt.Sprintf("Catalog.%s is written outside the cataloguing/reading routines (WorkingMemory.MakeCatalog, Catalog.AddMeta, KnowledgeBase.MakeCatalog, ReadCatalogFromReader)", f.Name()))
					continue
				}
				// KnowledgeBase.MakeCatalog only initialises: receiver fields, nil or ""
				if who == "KnowledgeBase.MakeCatalog" {
					stv := in.(*ssa.Store).Val
					_, isC := stv.(*ssa.Const)
					lf, base := fieldLoad(stv)
					if !(isC || (lf != nil && base == ssa.Value(receiver(fn)))) || kind != "field store" {
						c.Fail(key, p.InstrPos(in), "KnowledgeBase.MakeCatalog writes more into the catalogue than its own name/version and empty initial values")
						continue
					}
				}
				c.OK(key, p.InstrPos(in), "writer is "+who)
			}
		}
	}
	c.Notes = append(c.Notes, fmt.Sprintf("catalogue writes found: %d", writes))
}

func init() {
	register("SER-14", "a reference to a node the stream does not contain ends the load with an error (no branch logs and goes on)", 2, ruleSER14)
}

// SER-14 (sibling agreement): BuildKnowledgeBase resolves about thirty references through its import table. All but the
// tolerant ones fail on a missing id (the type assertion on the absent entry panics below the loader's barrier and becomes
// an error). A branch that logs the missing id and continues leaves a nil child or a missing registry entry in a knowledge
// base that "loaded successfully": the next NewKnowledgeBaseInstance dereferences it outside any barrier.
func ruleSER14(c *Ctx) {
	p := c.P
	fn := p.Method("ast", "Catalog", "BuildKnowledgeBase")
	if fn == nil {
		c.AnchorLost("Catalog.BuildKnowledgeBase")
		return
	}
	loops := naturalLoops(fn)
	strict, tolerant := 0, 0
	for _, b := range fn.Blocks {
		for _, in := range b.Instrs {
			lk, ok := in.(*ssa.Lookup)
			if !ok {
				continue
			}
			if _, isMake := unspill(lk.X).(*ssa.MakeMap); !isMake {
				continue
			}
			if !isNamed(lk.Type(), fullPkg("ast"), "Node") {
				if tup, ok := lk.Type().(*types.Tuple); !ok || tup.Len() != 2 || !isNamed(tup.At(0).Type(), fullPkg("ast"), "Node") {
					continue
				}
			}
			if !lk.CommaOk {
				strict++ // used through a type assertion: an absent entry panics below the barrier (SER-8)
				continue
			}
			// comma-ok form: the not-found edge must end in an error return
			var okVal ssa.Value
			for _, r := range *lk.Referrers() {
				if ex, isEx := r.(*ssa.Extract); isEx && ex.Index == 1 {
					okVal = ex
				}
			}
			decided := false
			if okVal != nil {
				for _, r := range *okVal.Referrers() {
					iff, isIf := r.(*ssa.If)
					if !isIf {
						continue
					}
					decided = true
					nf := iff.Block().Succs[1]
					key := fmt.Sprintf("BuildKnowledgeBase / missing id at %s ends the load", shortBlockLabel(iff.Block()))
					if onlyErrorReturns(nf, loops) {
						strict++
						c.OK(key, p.InstrPos(lk), "the not-found edge returns an error")
					} else {
						tolerant++
						c.Fail(key, p.InstrPos(lk), "when the id is not in the stream this branch only logs and goes on: the knowledge base loads with a nil child or without the registry entry, and the next NewKnowledgeBaseInstance panics in Clone/GetSnapshot (its siblings fail the load on a missing id)")
					}
				}
			}
			if !decided {
				c.Undecided("BuildKnowledgeBase / comma-ok lookup at "+shortBlockLabel(b), p.InstrPos(lk), "the presence flag of the lookup is not tested by a branch")
			}
		}
	}
	c.Check(strict >= 20, "BuildKnowledgeBase / references are resolved through the import table", p.Pos(fn.Pos()), fmt.Sprintf("%d strict lookups, %d tolerant", strict, tolerant), fmt.Sprintf("only %d strict lookups found (anchor lost)", strict))
}

func shortBlockLabel(b *ssa.BasicBlock) string { return fmt.Sprintf("block %s#%d", b.Comment, b.Index) }

func sortedBoolKeys(m map[string]bool) []string {
	var out []string
	for k := range m {
		out = append(out, k)
	}
	sort.Strings(out)
	return out
}
