// grulecheck decides structural necessary conditions of properties C01..C20 of grule-rule-engine by static
// analysis of /repo's current working tree (typed AST, SSA, call graph). It never executes code of /repo.
package main

import (
	"encoding/json"
	"flag"
	"fmt"
	"os"
	"os/exec"
	"path/filepath"
	"sort"
	"strings"
	"time"
)

// propRules maps each property to the rules deciding it (DESIGN.md section 4).
var propRules = map[string][]string{}

// propExplain is the per-property explanation written into the evidence file.
var propExplain = map[string]string{}

var propAssumptions = map[string][]string{}

func main() {
	var (
		prop     = flag.String("property", "", "property id (C01..C20) or 'all'")
		tier     = flag.String("tier", "quick", "quick|thorough")
		repo     = flag.String("repo", "/repo", "repository root")
		evDir    = flag.String("evidence", "/verif/evidence", "evidence directory ('' = do not write)")
		known    = flag.String("known", "/verif/known_findings.json", "known findings file")
		overlayF = flag.String("overlay", "", "JSON file {abs path: content} applied as overlay (self-audit)")
		rulesF   = flag.String("rules", "", "comma separated rule ids to run instead of a property's rules")
		listObl  = flag.Bool("list", false, "print every obligation")
		replay   = flag.String("replay", "", "violation file to re-evaluate")
		goos     = flag.String("goos", "", "GOOS for loading")
		goarch   = flag.String("goarch", "", "GOARCH for loading")
		jsonOut  = flag.String("json", "", "write obligations as JSON to this file")
		auditDir = flag.String("audit-dir", "", "thorough tier: directory of self-audit variant catalogues")
	)
	flag.Parse()
	start := time.Now()

	if *replay != "" {
		b, err := os.ReadFile(*replay)
		if err != nil {
			fmt.Fprintln(os.Stderr, "replay:", err)
			os.Exit(2)
		}
		var v struct {
			Property string `json:"property"`
			Oblig    Oblig  `json:"obligation"`
		}
		if err := json.Unmarshal(b, &v); err != nil {
			fmt.Fprintln(os.Stderr, "replay:", err)
			os.Exit(2)
		}
		*prop = v.Property
		*rulesF = v.Oblig.Rule
		*evDir = ""
		*listObl = false
		fmt.Printf("replaying %s %s\n", v.Property, v.Oblig.Key())
		defer func() {}()
		code := run(*prop, *tier, *repo, *evDir, *known, *overlayF, *rulesF, false, *goos, *goarch, *jsonOut, start, v.Oblig.Key())
		os.Exit(code)
	}
	if *prop == "" {
		fmt.Fprintln(os.Stderr, "usage: grulecheck -property Cxx [-tier quick|thorough]")
		os.Exit(2)
	}
	thoroughAuditDir = *auditDir
	os.Exit(run(*prop, *tier, *repo, *evDir, *known, *overlayF, *rulesF, *listObl, *goos, *goarch, *jsonOut, start, ""))
}

var thoroughAuditDir string

// crossConfigs are the additional GOOS/GOARCH configurations of the thorough tier (build-tagged files, 32-bit int).
var crossConfigs = [][2]string{{"linux", "386"}, {"linux", "arm64"}, {"windows", "amd64"}, {"darwin", "arm64"}}

// runMatrix re-runs the property's rules under each cross configuration in a subprocess.
func runMatrix(prop, repo, knownPath string) ([]map[string]interface{}, []string) {
	exe, err := os.Executable()
	if err != nil {
		return nil, nil
	}
	var out []map[string]interface{}
	var violations []string
	for _, cfg := range crossConfigs {
		cmd := exec.Command(exe, "-property", prop, "-tier", "quick", "-repo", repo, "-evidence", "", "-known", knownPath, "-goos", cfg[0], "-goarch", cfg[1])
		b, err := cmd.CombinedOutput()
		rec := map[string]interface{}{"goos": cfg[0], "goarch": cfg[1]}
		code := 0
		if ee, ok := err.(*exec.ExitError); ok {
			code = ee.ExitCode()
		} else if err != nil {
			code = 2
		}
		lines := strings.Split(strings.TrimSpace(string(b)), "\n")
		rec["summary"] = lines[len(lines)-1]
		switch code {
		case 0:
			rec["outcome"] = "held"
		case 1:
			rec["outcome"] = "violation"
			for _, l := range lines {
				if strings.HasPrefix(strings.TrimSpace(l), "violated") || strings.HasPrefix(strings.TrimSpace(l), "undecided") {
					violations = append(violations, cfg[0]+"/"+cfg[1]+": "+strings.TrimSpace(l))
				}
			}
		default:
			rec["outcome"] = "skipped (configuration could not be loaded)"
		}
		out = append(out, rec)
	}
	return out, violations
}

// runSelfAudit runs the overlay-variant catalogue for the rules of this property; it never changes the exit code.
func runSelfAudit(rules []string, repo, knownPath string) map[string]interface{} {
	tmp, err := os.CreateTemp("", "grulecheck-audit-*.json")
	if err != nil {
		return map[string]interface{}{"error": err.Error()}
	}
	tmp.Close()
	defer os.Remove(tmp.Name())
	script := filepath.Join(filepath.Dir(thoroughAuditDir), "tools", "audit.py")
	files, _ := filepath.Glob(filepath.Join(thoroughAuditDir, "*.json"))
	args := append([]string{script, "-j", "8", "--rules", strings.Join(rules, ","), "--json", tmp.Name(), "--known", knownPath}, files...)
	cmd := exec.Command("python3", args...)
	cmd.Env = append(os.Environ(), "VERIF_REPO="+repo)
	_, _ = cmd.CombinedOutput()
	b, err := os.ReadFile(tmp.Name())
	if err != nil || len(b) == 0 {
		return map[string]interface{}{"error": "audit produced no result"}
	}
	var res struct {
		Results []map[string]interface{} `json:"results"`
		Tally   map[string]int           `json:"tally"`
	}
	if err := json.Unmarshal(b, &res); err != nil {
		return map[string]interface{}{"error": err.Error()}
	}
	var notable []map[string]interface{}
	for _, r := range res.Results {
		if o, _ := r["outcome"].(string); o != "killed" && o != "silent" {
			notable = append(notable, r)
		}
	}
	return map[string]interface{}{
		"explanation": "variants of /repo applied through packages.Config.Overlay (no copy on disk): `killed` = a breaking variant was reported naming the expected rule, `silent` = a behaviour-preserving variant raised no alarm, `skipped` = the variant's text no longer occurs in the current tree; this is evidence about the checker and never changes the check's exit code",
		"variants":    len(res.Results),
		"tally":       res.Tally,
		"notable":     notable,
	}
}

// runBenignSweep applies the generic behaviour-preserving edits of tools/benign_sweep.py (whole packages at once,
// through overlays) and runs the property's rules on each; evidence about the checker, never changes the exit code.
func runBenignSweep(rules []string, repo string) map[string]interface{} {
	tmp, err := os.CreateTemp("", "grulecheck-benign-*.json")
	if err != nil {
		return map[string]interface{}{"error": err.Error()}
	}
	tmp.Close()
	defer os.Remove(tmp.Name())
	script := filepath.Join(filepath.Dir(thoroughAuditDir), "tools", "benign_sweep.py")
	cmd := exec.Command("python3", script, "-j", "6", "--rules", strings.Join(rules, ","), "--json", tmp.Name())
	cmd.Env = append(os.Environ(), "VERIF_REPO="+repo)
	_, _ = cmd.CombinedOutput()
	b, err := os.ReadFile(tmp.Name())
	if err != nil || len(b) == 0 {
		return map[string]interface{}{"error": "benign sweep produced no result"}
	}
	var res struct {
		Edits       int                      `json:"edits"`
		WithReports int                      `json:"with_reports"`
		Results     []map[string]interface{} `json:"results"`
	}
	if err := json.Unmarshal(b, &res); err != nil {
		return map[string]interface{}{"error": err.Error()}
	}
	var notable []map[string]interface{}
	for _, r := range res.Results {
		if o, _ := r["outcome"].(string); o != "silent" {
			notable = append(notable, r)
		}
	}
	return map[string]interface{}{
		"explanation":  "generic behaviour-preserving edits applied to every function of a whole package at once through an overlay (a println of the receiver, an empty deferred closure, a dead branch, unused fields and methods, other spellings of comparisons, errors returned through a local); every rule of this property has to stay silent on each",
		"edits":        res.Edits,
		"with_reports": res.WithReports,
		"notable":      notable,
	}
}

// runSeedReplay replays the stored seeded changes of the property through overlays (tools/seed_replay.py) and
// summarises the outcome for the evidence file; like the self-audit it is evidence about the checker and never changes
// the exit code of the check.
func runSeedReplay(prop, repo, knownPath string) map[string]interface{} {
	tmp, err := os.CreateTemp("", "grulecheck-seeds-*.json")
	if err != nil {
		return map[string]interface{}{"error": err.Error()}
	}
	tmp.Close()
	defer os.Remove(tmp.Name())
	script := filepath.Join(filepath.Dir(thoroughAuditDir), "tools", "seed_replay.py")
	cmd := exec.Command("python3", script, "--property", prop, "--json", tmp.Name(), "--known", knownPath, "-j", "4")
	cmd.Env = append(os.Environ(), "VERIF_REPO="+repo)
	_, _ = cmd.CombinedOutput()
	b, err := os.ReadFile(tmp.Name())
	if err != nil || len(b) == 0 {
		return map[string]interface{}{"error": "seed replay produced no result"}
	}
	var res struct {
		Results []map[string]interface{} `json:"results"`
		Tally   map[string]int           `json:"tally"`
	}
	if err := json.Unmarshal(b, &res); err != nil {
		return map[string]interface{}{"error": err.Error()}
	}
	return map[string]interface{}{
		"explanation": "the confirmed seeded changes stored under /verif/seeded for this property, each applied to scratch copies of the files it touches and analysed through an overlay with the property's own rules: `reported` = the check would exit 1 on that change, `skipped` = the patch no longer applies to the current tree (a later repair changed the same lines) or is behaviour-preserving there",
		"tally":       res.Tally,
		"results":     res.Results,
	}
}

func run(prop, tier, repo, evDir, knownPath, overlayF, rulesF string, listObl bool, goos, goarch, jsonOut string, start time.Time, onlyKey string) int {
	var overlay map[string][]byte
	if overlayF != "" {
		b, err := os.ReadFile(overlayF)
		if err != nil {
			fmt.Fprintln(os.Stderr, "overlay:", err)
			return 2
		}
		var m map[string]string
		if err := json.Unmarshal(b, &m); err != nil {
			fmt.Fprintln(os.Stderr, "overlay:", err)
			return 2
		}
		overlay = map[string][]byte{}
		for k, v := range m {
			overlay[k] = []byte(v)
		}
	}
	abs, _ := filepath.Abs(repo)
	p, err := Load(abs, overlay, goos, goarch)
	if err != nil {
		fmt.Fprintln(os.Stderr, "LOAD-FAILURE:", err)
		return 2
	}
	var rules []string
	if rulesF == "all" {
		for id := range ruleTable {
			rules = append(rules, id)
		}
		sort.Strings(rules)
	} else if rulesF != "" {
		rules = strings.Split(rulesF, ",")
	} else {
		rules = propRules[prop]
	}
	if len(rules) == 0 {
		fmt.Fprintf(os.Stderr, "no rules registered for property %q\n", prop)
		return 2
	}
	c := NewCtx(p)
	for _, r := range rules {
		c.RunRule(strings.TrimSpace(r))
	}
	if len(c.ControlFails) > 0 {
		for _, f := range c.ControlFails {
			fmt.Fprintln(os.Stderr, "CONTROL-FAILURE:", f)
		}
		return 2
	}
	known, err := loadKnown(knownPath)
	if err != nil {
		fmt.Fprintln(os.Stderr, "known findings:", err)
		return 2
	}
	knownBy := map[string]KnownFinding{}
	for _, k := range known {
		if k.Status == "known" {
			key := k.Rule + " : " + k.Construct
			if prev, dup := knownBy[key]; dup && prev.Property == prop {
				continue // keep the entry written for this property
			}
			knownBy[key] = k
		}
	}
	var viol, knownHit []Oblig
	discharged := 0
	for _, o := range c.Obls {
		if onlyKey != "" && o.Key() != onlyKey {
			continue
		}
		switch o.Status {
		case Discharged:
			discharged++
		default:
			if _, ok := knownBy[o.Key()]; ok {
				knownHit = append(knownHit, o)
			} else {
				viol = append(viol, o)
			}
		}
	}
	if listObl {
		for _, o := range c.Obls {
			fmt.Printf("%-10s %-10s %s  [%s] %s\n", o.Status, o.Rule, o.Construct, o.Pos, shortMsg(o.Msg, 160))
		}
	}
	if jsonOut != "" {
		_ = writeJSON(jsonOut, c.Obls)
	}
	for _, o := range knownHit {
		k := knownBy[o.Key()]
		fmt.Printf("KNOWN-FINDING: property=%s %s [%s] %s\n", prop, k.What, o.Key(), o.Pos)
	}
	// violation files
	var vdir string
	if evDir != "" {
		vdir = filepath.Join(evDir, prop+".violations")
		_ = os.RemoveAll(vdir)
	}
	for i, o := range viol {
		path := "-"
		if vdir != "" {
			path = filepath.Join(vdir, fmt.Sprintf("%d.json", i+1))
			_ = writeJSON(path, map[string]interface{}{"property": prop, "obligation": o, "tier": tier})
		}
		fmt.Printf("  %s %s at %s: %s\n", o.Status, o.Key(), o.Pos, o.Msg)
		for _, s := range o.Path {
			fmt.Printf("      path: %s\n", s)
		}
		fmt.Printf("VIOLATION property=%s replay=%s\n", prop, path)
	}
	var matrix []map[string]interface{}
	var audit map[string]interface{}
	matrixViolations := 0
	var seedReplay map[string]interface{}
	var benign map[string]interface{}
	if tier == "thorough" && goos == "" && goarch == "" && overlayF == "" && onlyKey == "" {
		var mv []string
		matrix, mv = runMatrix(prop, abs, knownPath)
		for i, l := range mv {
			path := "-"
			if vdir != "" {
				path = filepath.Join(vdir, fmt.Sprintf("cross-%d.json", i+1))
				_ = writeJSON(path, map[string]interface{}{"property": prop, "tier": tier, "cross_configuration_finding": l})
			}
			fmt.Printf("  %s\n", l)
			fmt.Printf("VIOLATION property=%s replay=%s\n", prop, path)
		}
		matrixViolations = len(mv)
		if thoroughAuditDir != "" {
			audit = runSelfAudit(rules, abs, knownPath)
			seedReplay = runSeedReplay(prop, abs, knownPath)
			benign = runBenignSweep(rules, abs)
		}
	}
	wall := time.Since(start).Seconds()
	if evDir != "" && onlyKey == "" {
		ev := buildEvidence(prop, tier, c, rules, discharged, viol, knownHit, wall)
		if matrix != nil {
			ev.Coverage["configurations"] = matrix
		}
		if audit != nil {
			ev.Coverage["self_audit"] = audit
		}
		if seedReplay != nil {
			ev.Coverage["seeded_changes"] = seedReplay
		}
		if benign != nil {
			ev.Coverage["generic_benign_edits"] = benign
		}
		ev.Violations += matrixViolations
		if err := writeJSON(filepath.Join(evDir, prop+".json"), ev); err != nil {
			fmt.Fprintln(os.Stderr, "evidence:", err)
			return 2
		}
	}
	fmt.Printf("%s %s: %d obligations, %d discharged, %d known findings, %d violations, %d rules, %.1fs\n", prop, tier, len(c.Obls), discharged, len(knownHit), len(viol), len(rules), wall)
	if len(viol) > 0 || matrixViolations > 0 {
		return 1
	}
	return 0
}

func buildEvidence(prop, tier string, c *Ctx, rules []string, discharged int, viol, knownHit []Oblig, wall float64) *Evidence {
	samples := []interface{}{}
	perRule := map[string]int{}
	for _, o := range c.Obls {
		if perRule[o.Rule] < 2 {
			samples = append(samples, map[string]string{"obligation": o.Key(), "status": o.Status, "at": o.Pos, "detail": shortMsg(o.Msg, 200)})
		}
		perRule[o.Rule]++
	}
	distinct := map[string]bool{}
	for _, o := range c.Obls {
		distinct[o.Key()] = true
	}
	var kf []string
	for _, o := range knownHit {
		kf = append(kf, o.Key())
	}
	var vs []string
	for _, o := range viol {
		vs = append(vs, o.Key()+" @ "+o.Pos)
	}
	ruleTitles := map[string]string{}
	for _, r := range rules {
		if rt := ruleTable[r]; rt != nil {
			ruleTitles[r] = rt.Title
		}
	}
	nfn := 0
	for range c.P.ModuleFuncs() {
		nfn++
	}
	var pk []string
	for _, r := range c.P.Roots {
		pk = append(pk, strings.TrimPrefix(r.PkgPath, modPath+"/"))
	}
	cov := map[string]interface{}{
		"explanation":         propExplain[prop],
		"obligations":         len(c.Obls),
		"discharged":          discharged,
		"evaluations":         len(c.Obls),
		"distinct_nontrivial": len(distinct),
		"rule":                "one obligation per rule instance found in the loaded program (keyed rule:construct, distinct by key); every obligation is a non-trivial structural check on SSA/AST/call graph of the current tree; a rule matching fewer instances than confirmed by hand fails (vacuity guard)",
		"samples":             samples,
		"exhaustive":          true,
		"rules":               ruleTitles,
		"rule_instances":      perRule,
		"module_functions":    nfn,
		"packages":            pk,
		"known_findings":      kf,
		"unlisted_violations": vs,
		"positive_controls":   c.Controls,
		"notes":               c.Notes,
		"checker_cmd":         "grulecheck -property " + prop + " -tier " + tier,
		"trusted_base":        []string{"go/types, go/ssa, go/callgraph/vta (x/tools v0.50.0)", "Go language semantics", "dependencies of the module and the standard library"},
		"goos_goarch":         c.P.GOOS + "/" + c.P.GOARCH,
	}
	if c.P.cg != nil {
		edges := 0
		for _, n := range c.P.cg.Nodes {
			edges += len(n.Out)
		}
		cov["call_graph"] = map[string]int{"nodes": len(c.P.cg.Nodes), "edges": edges}
	}
	as := append([]string{
		"No code of /repo is executed; verdicts are structural necessary conditions that hold on every path of the loaded program, not behavioural verdicts.",
		"Dependencies, the standard library and user fact methods are outside the analysed program and trusted.",
	}, propAssumptions[prop]...)
	sort.Strings(kf)
	return &Evidence{PropertyID: prop, Tier: tier, Seed: seedFromEnv(), Level: "other", Coverage: cov, Assumptions: as, WallS: wall, Violations: len(viol)}
}

func seedFromEnv() int {
	var s int
	fmt.Sscanf(os.Getenv("VERIF_SEED"), "%d", &s)
	return s
}
