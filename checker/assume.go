package main

import (
	"fmt"
	"go/token"
	"go/types"
	"sort"
	"strings"

	"golang.org/x/tools/go/ssa"
)

// P3: path search under an assumption about one designated value (an error result, a bool result).
// The search state carries the aliases of the designated value (Phi entered through the carrying edge,
// interface conversions, loads of local allocs that currently hold it) and the last value stored into each
// local alloc on this path (store->load forwarding for named results spilled by deferred closures).

type Assumption int

const (
	AssumeNil Assumption = iota
	AssumeNonNil
	AssumeTrue
	AssumeFalse
)

type Tri int

const (
	TriUnknown Tri = iota
	TriNil         // definitely nil / false
	TriNonNil      // definitely non-nil / true
)

type AState struct {
	q     *AQuery
	alias map[ssa.Value]bool
	holds map[*ssa.Alloc]ssa.Value // last value stored on this path
	taint map[ssa.Value]bool       // values derived from q.Tainted (the value result paired with the designated error)
}

func (s *AState) clone() *AState {
	n := &AState{q: s.q, alias: make(map[ssa.Value]bool, len(s.alias)), holds: make(map[*ssa.Alloc]ssa.Value, len(s.holds)), taint: make(map[ssa.Value]bool, len(s.taint))}
	for k, v := range s.alias {
		if v {
			n.alias[k] = true
		}
	}
	for k, v := range s.taint {
		if v {
			n.taint[k] = true
		}
	}
	for k, v := range s.holds {
		n.holds[k] = v
	}
	return n
}

func (s *AState) key(b *ssa.BasicBlock) string {
	var parts []string
	for v := range s.alias {
		parts = append(parts, v.Name())
	}
	sort.Strings(parts)
	var hs []string
	for a, v := range s.holds {
		n := "?"
		if v != nil {
			n = v.Name()
			if _, isConst := v.(*ssa.Const); isConst {
				n = v.String()
			}
		}
		hs = append(hs, a.Name()+"="+n)
	}
	sort.Strings(hs)
	var ts []string
	for v := range s.taint {
		ts = append(ts, v.Name())
	}
	sort.Strings(ts)
	return fmt.Sprintf("%d|%s|%s|%s", b.Index, strings.Join(parts, ","), strings.Join(hs, ","), strings.Join(ts, ","))
}

// IsAlias reports whether v is known to equal the designated value in this state.
func (s *AState) IsAlias(v ssa.Value) bool {
	if s.alias[v] {
		return true
	}
	switch x := v.(type) {
	case *ssa.ChangeInterface:
		return s.IsAlias(x.X)
	case *ssa.ChangeType:
		return s.IsAlias(x.X)
	}
	return false
}

// IsTainted reports whether v derives from the tainted value(s) of the query on this path.
func (s *AState) IsTainted(v ssa.Value) bool { return s.taint[v] }

func (s *AState) setTaint(v ssa.Value, t bool) {
	if t {
		s.taint[v] = true
	} else {
		delete(s.taint, v)
	}
}

// step updates the state for one non-control instruction.
func (s *AState) step(in ssa.Instruction) {
	switch x := in.(type) {
	case *ssa.Store:
		if a, ok := x.Addr.(*ssa.Alloc); ok {
			s.holds[a] = x.Val
		}
	case *ssa.UnOp:
		if x.Op == token.MUL {
			if a, ok := x.X.(*ssa.Alloc); ok {
				v, ok := s.holds[a]
				if ok && v != nil && s.IsAlias(v) {
					s.alias[x] = true
				} else {
					delete(s.alias, x)
				}
				s.setTaint(x, ok && v != nil && s.taint[v])
				return
			}
		}
		s.setTaint(x, s.taint[x.X])
	case *ssa.ChangeInterface:
		if s.IsAlias(x.X) {
			s.alias[x] = true
		}
		s.setTaint(x, s.taint[x.X])
	case *ssa.ChangeType:
		s.setTaint(x, s.taint[x.X])
	case *ssa.Convert:
		s.setTaint(x, s.taint[x.X])
	case *ssa.MakeInterface:
		s.setTaint(x, s.taint[x.X])
	case *ssa.Extract:
		t := s.taint[x.Tuple]
		if t {
			if c, ok := x.Tuple.(*ssa.Call); ok {
				if ei := errResultIndex(c.Call.Signature()); ei == x.Index {
					t = false
				}
			}
		}
		s.setTaint(x, t)
	case *ssa.Call:
		t := false
		for _, a := range x.Call.Args {
			if s.taint[a] {
				t = true
			}
		}
		if x.Call.IsInvoke() && s.taint[x.Call.Value] {
			t = true
		}
		s.setTaint(x, t)
	}
}

// enter updates the state for entering block b from pred.
func (s *AState) enter(pred, b *ssa.BasicBlock) {
	idx := -1
	for i, p := range b.Preds {
		if p == pred {
			idx = i
			break
		}
	}
	if idx < 0 {
		return
	}
	// evaluate all phis simultaneously
	type upd struct {
		phi *ssa.Phi
		is  bool
	}
	var us []upd
	var ts []bool
	for _, in := range b.Instrs {
		phi, ok := in.(*ssa.Phi)
		if !ok {
			break
		}
		us = append(us, upd{phi, s.IsAlias(phi.Edges[idx])})
		ts = append(ts, s.taint[phi.Edges[idx]])
	}
	for i, u := range us {
		if u.is {
			s.alias[u.phi] = true
		} else {
			delete(s.alias, u.phi)
		}
		s.setTaint(u.phi, ts[i])
	}
}

// Tri evaluates whether an (error/pointer/bool) value is definitely nil/non-nil (false/true) in this state.
func (s *AState) Tri(v ssa.Value) Tri { return s.tri(v, 0) }

func (s *AState) tri(v ssa.Value, depth int) Tri {
	if depth > 8 {
		return TriUnknown
	}
	if s.IsAlias(v) {
		switch s.q.Assume {
		case AssumeNil, AssumeFalse:
			return TriNil
		default:
			return TriNonNil
		}
	}
	switch x := v.(type) {
	case *ssa.Const:
		if x.Value == nil {
			return TriNil
		}
		if b, ok := constBool(x); ok {
			if b {
				return TriNonNil
			}
			return TriNil
		}
		return TriNonNil
	case *ssa.MakeInterface:
		return TriNonNil
	case *ssa.Alloc:
		return TriNonNil
	case *ssa.ChangeInterface:
		return s.tri(x.X, depth+1)
	case *ssa.Call:
		if f := x.Call.StaticCallee(); f != nil {
			if alwaysNonNilError(f, 0) {
				return TriNonNil
			}
			// wrapper: returns non-nil whenever one of its error arguments is non-nil
			if i := nonNilIfArg(f); i >= 0 && i < len(x.Call.Args) {
				return s.tri(x.Call.Args[i], depth+1)
			}
		}
		return TriUnknown
	case *ssa.UnOp:
		if x.Op == token.MUL {
			if a, ok := x.X.(*ssa.Alloc); ok {
				if hv, ok := s.holds[a]; ok && hv != nil {
					return s.tri(hv, depth+1)
				}
				return TriUnknown
			}
			if g, ok := x.X.(*ssa.Global); ok {
				if pt, ok := g.Type().(*types.Pointer); ok && isErrorType(pt.Elem()) {
					return TriNonNil // sentinel error variable
				}
			}
		}
		if x.Op == token.NOT {
			switch s.tri(x.X, depth+1) {
			case TriNil:
				return TriNonNil
			case TriNonNil:
				return TriNil
			}
		}
		return TriUnknown
	case *ssa.Phi:
		res := Tri(-1)
		for _, e := range x.Edges {
			t := s.tri(e, depth+1)
			if res == -1 {
				res = t
			} else if res != t {
				return TriUnknown
			}
		}
		if res == -1 {
			return TriUnknown
		}
		return res
	}
	return TriUnknown
}

// AQuery is one path query.
type AQuery struct {
	Fn         *ssa.Function
	From       ssa.Instruction // search starts after this instruction (nil: function entry)
	Designated []ssa.Value
	Tainted    []ssa.Value // optional: values paired with the designated error (taint tracking)
	Assume     Assumption
	// IsTarget: reaching such an instruction ends the search with "found".
	IsTarget func(in ssa.Instruction, st *AState) bool
	// IsBlocker: such an instruction kills the path.
	IsBlocker func(in ssa.Instruction, st *AState) bool
	// ExtraEdge optionally vetoes edges (b -> succ idx).
	ExtraEdge func(b *ssa.BasicBlock, succIdx int, st *AState) bool
	MaxStates int
}

type AResult struct {
	Found    ssa.Instruction
	Path     []*ssa.BasicBlock
	Overflow bool
	States   int
}

func (q *AQuery) Run() AResult {
	maxStates := q.MaxStates
	if maxStates == 0 {
		maxStates = 50000
	}
	type item struct {
		b    *ssa.BasicBlock
		idx  int
		st   *AState
		prev *item
	}
	st0 := &AState{q: q, alias: map[ssa.Value]bool{}, holds: map[*ssa.Alloc]ssa.Value{}, taint: map[ssa.Value]bool{}}
	for _, d := range q.Designated {
		st0.alias[d] = true
	}
	var start *item
	if q.From == nil {
		start = &item{b: q.Fn.Blocks[0], idx: 0, st: st0}
	} else {
		// replay the instructions of the start block before From so that alloc contents are known
		b := q.From.Block()
		fi := instrIndex(q.From)
		for i := 0; i <= fi && i < len(b.Instrs); i++ {
			st0.step(b.Instrs[i])
		}
		for _, d := range q.Designated {
			st0.alias[d] = true
		}
		st0.taint = map[ssa.Value]bool{}
		start = &item{b: b, idx: fi + 1, st: st0}
	}
	for _, t := range q.Tainted {
		st0.taint[t] = true
	}
	visited := map[string]bool{}
	stack := []*item{start}
	res := AResult{}
	for len(stack) > 0 {
		it := stack[len(stack)-1]
		stack = stack[:len(stack)-1]
		res.States++
		if res.States > maxStates {
			res.Overflow = true
			return res
		}
		st := it.st
		dead := false
		for i := it.idx; i < len(it.b.Instrs); i++ {
			in := it.b.Instrs[i]
			if q.IsTarget != nil && q.IsTarget(in, st) {
				res.Found = in
				for x := it; x != nil; x = x.prev {
					res.Path = append([]*ssa.BasicBlock{x.b}, res.Path...)
				}
				return res
			}
			if q.IsBlocker != nil && q.IsBlocker(in, st) {
				dead = true
				break
			}
			st.step(in)
		}
		if dead || len(it.b.Instrs) == 0 {
			continue
		}
		last := it.b.Instrs[len(it.b.Instrs)-1]
		allow := []bool{true, true}
		if iff, ok := last.(*ssa.If); ok {
			kind, s, ok := condOn(iff.Cond, st.IsAlias)
			if ok {
				switch {
				case kind == "nil" && q.Assume == AssumeNil, kind == "bool" && q.Assume == AssumeTrue:
					allow[1-s] = false
				case kind == "nil" && q.Assume == AssumeNonNil, kind == "bool" && q.Assume == AssumeFalse:
					allow[s] = false
				}
			} else {
				// condition may be a constant-foldable tri (e.g. phi of aliases)
				switch st.Tri(iff.Cond) {
				case TriNonNil:
					if _, isBool := constBool(iff.Cond); isBool || st.IsAlias(iff.Cond) {
						allow[1] = false
					}
				case TriNil:
					if _, isBool := constBool(iff.Cond); isBool || st.IsAlias(iff.Cond) {
						allow[0] = false
					}
				}
			}
		}
		for si, s := range it.b.Succs {
			if si < 2 && !allow[si] {
				continue
			}
			if q.ExtraEdge != nil && !q.ExtraEdge(it.b, si, st) {
				continue
			}
			ns := st.clone()
			ns.enter(it.b, s)
			k := ns.key(s)
			if visited[k] {
				continue
			}
			visited[k] = true
			stack = append(stack, &item{b: s, idx: 0, st: ns, prev: it})
		}
	}
	return res
}

// ---------- summaries ----------

var alwaysNonNilCache = map[*ssa.Function]int{} // 0 unknown, 1 yes, 2 no

// alwaysNonNilError: every return of f yields a definitely non-nil error (fmt.Errorf, errors.New, wrappers).
func alwaysNonNilError(f *ssa.Function, depth int) bool {
	if f == nil {
		return false
	}
	if o := f.Object(); o != nil && o.Pkg() != nil {
		switch o.Pkg().Path() + "." + o.Name() {
		case "fmt.Errorf", "errors.New":
			return true
		}
	}
	if c := alwaysNonNilCache[f]; c != 0 {
		return c == 1
	}
	if depth > 2 || f.Blocks == nil {
		return false
	}
	ei := errResultIndex(f.Signature)
	if ei < 0 {
		return false
	}
	alwaysNonNilCache[f] = 2
	rets := returnsOf(f)
	if len(rets) == 0 {
		return false
	}
	q := &AQuery{Fn: f, Assume: AssumeNil}
	st := &AState{q: q, alias: map[ssa.Value]bool{}, holds: map[*ssa.Alloc]ssa.Value{}, taint: map[ssa.Value]bool{}}
	for _, r := range rets {
		if ei >= len(r.Results) {
			return false
		}
		v := r.Results[ei]
		ok := false
		switch x := v.(type) {
		case *ssa.Call:
			ok = alwaysNonNilError(x.Call.StaticCallee(), depth+1)
		case *ssa.MakeInterface:
			ok = true
		default:
			ok = st.Tri(v) == TriNonNil
		}
		if !ok {
			return false
		}
	}
	alwaysNonNilCache[f] = 1
	return true
}

// nonNilIfArg: f returns a non-nil error whenever its i-th argument (an error) is non-nil; returns i or -1.
// Recognised shape: every return's error operand is either definitely non-nil or the parameter itself.
func nonNilIfArg(f *ssa.Function) int {
	if f == nil || f.Blocks == nil {
		return -1
	}
	ei := errResultIndex(f.Signature)
	if ei < 0 {
		return -1
	}
	for pi, p := range f.Params {
		if !isErrorType(p.Type()) {
			continue
		}
		good := true
		for _, r := range returnsOf(f) {
			v := r.Results[ei]
			if v == ssa.Value(p) {
				continue
			}
			if c, ok := v.(*ssa.Call); ok && alwaysNonNilError(c.Call.StaticCallee(), 1) {
				continue
			}
			if _, ok := v.(*ssa.MakeInterface); ok {
				continue
			}
			good = false
			break
		}
		if good {
			return pi
		}
	}
	return -1
}
