package main

import (
	"fmt"
	"go/types"
	"sort"

	"golang.org/x/tools/go/ssa"
)

// inv5Structural decides the index construction when IndexVariables does not search texts but walks the nodes (the
// repair of D43): one loop over each registry of nodes that is passed on every way through the function; in it the
// variables below the node are collected into a fresh set by a collector method, and the node is appended to the index
// entry of each of them (keyed by the instance the registry keeps). The collectors are decided field by field: every
// node type reachable from the two node kinds has one, and it descends, on every path but "the receiver is nil" and
// "this variable is in the set already", into every field through which a variable can be reached (the set of those
// fields is computed from the struct types on every run, so a new child field that no collector knows fails here).
func inv5Structural(c *Ctx, fn *ssa.Function, loops []*Loop, loopOf map[*types.Var]*Loop, varSnap *types.Var, pairs [][2]*types.Var) {
	p := c.P
	recv := receiver(fn)
	idxFields := map[*types.Var]bool{}
	for _, pr := range pairs {
		idxFields[pr[1]] = true
	}
	var roots []*ssa.Function
	for _, pr := range pairs {
		snap, idx := pr[0], pr[1]
		name := "IndexVariables / append into " + idx.Name()
		L := loopOf[snap]
		skippable := ""
		for _, r := range returnsOf(fn) {
			if !L.Header.Dominates(r.Block()) {
				skippable = p.InstrPos(r)
			}
		}
		if skippable != "" {
			c.Fail(name, skippable, "IndexVariables can return without having passed the loop over "+snap.Name()+": nodes of this kind are not indexed on that way")
			continue
		}
		// the collector call: collector(node, fresh set)
		var set ssa.Value
		var collector *ssa.Function
		var callIn ssa.Instruction
		for _, ci := range callsIn(fn) {
			in := ci.(ssa.Instruction)
			if !L.Blocks[in.Block()] {
				continue
			}
			callee, _ := calleeOf(ci)
			args := ci.Common().Args
			if callee == nil || callee.Pkg != fn.Pkg || len(args) != 2 || !isRangeValueOf(args[0], L) {
				continue
			}
			if v := ci.Value(); v != nil {
				if _, isMap := v.Type().Underlying().(*types.Map); isMap {
					set, collector, callIn = v, callee, in
				}
			}
		}
		if collector == nil {
			c.Fail(name, p.InstrPos(L.Header.Instrs[0]), "inside the loop over "+snap.Name()+" no collector is called with the node that returns the set of the variables below it: the variables below the node are not determined")
			continue
		}
		roots = append(roots, collector)
		var M *Loop
		for _, l := range loops {
			if l != L && L.Blocks[l.Header] && rangeOperand(l) == set {
				M = l
			}
		}
		if M == nil {
			c.Fail(name, p.InstrPos(callIn), "the set that "+fnName(collector)+" returns is not ranged over: the collected variables are not indexed")
			continue
		}
		if !callIn.Block().Dominates(M.Header) {
			c.Fail(name, p.InstrPos(callIn), "the loop over the collected variables can be reached without the call of "+fnName(collector))
			continue
		}
		// every iteration over the registry passes the loop over the set, except for a nil node
		skipped := ""
		nilEdge := func(b *ssa.BasicBlock, si int) bool {
			iff, ok := b.Instrs[len(b.Instrs)-1].(*ssa.If)
			if !ok {
				return false
			}
			kind, s, ok := condOn(iff.Cond, func(v ssa.Value) bool { return isRangeValueOf(v, L) })
			return ok && kind == "nil" && si == s
		}
		for _, bs := range L.Backs {
			if M.Header.Dominates(bs) {
				continue
			}
			for si, succ := range bs.Succs {
				if succ != L.Header || nilEdge(bs, si) {
					continue
				}
				if !edgesDominate(fn, bs.Instrs[len(bs.Instrs)-1], nilEdge) {
					skipped = p.InstrPos(bs.Instrs[len(bs.Instrs)-1])
				}
			}
		}
		if skipped != "" {
			c.Fail(name, skipped, "an iteration over "+snap.Name()+" can go on to the next node without indexing this one (a way round the loop over its variables that is not a nil test of the node)")
			continue
		}
		var upd *ssa.MapUpdate
		for b := range M.Blocks {
			for _, in := range b.Instrs {
				if mu, ok := in.(*ssa.MapUpdate); ok {
					if f, base := fieldLoad(mu.Map); f == idx && base == ssa.Value(recv) {
						upd = mu
					}
				}
			}
		}
		if upd == nil {
			c.Fail(name, p.InstrPos(M.Header.Instrs[0]), "no update of "+idx.Name()+" inside the loop over the collected variables")
			continue
		}
		keyOK, okValue, why := inv5Key(c, upd.Key, M, varSnap, idxFields)
		// nothing but the registry's answer decides whether the node is appended
		filtered := ""
		for b := range M.Blocks {
			if b == M.Header || !b.Dominates(upd.Block()) || b == upd.Block() {
				continue
			}
			iff, ok := b.Instrs[len(b.Instrs)-1].(*ssa.If)
			if !ok {
				continue
			}
			allowed := -1
			if okValue != nil {
				if kind, s, ok := condOn(iff.Cond, func(v ssa.Value) bool { return v == okValue }); ok && kind == "bool" {
					allowed = s
				}
			}
			if allowed < 0 {
				if kind, s, ok := condOn(iff.Cond, func(v ssa.Value) bool { return v == upd.Key }); ok && kind == "nil" {
					allowed = 1 - s
				}
			}
			if allowed < 0 || !edgesDominate(fn, upd, func(bb *ssa.BasicBlock, si int) bool { return bb == b && si == allowed }) {
				filtered = p.InstrPos(iff)
			}
		}
		if filtered != "" && why == "" {
			why = "the append depends on the condition at " + filtered + ", which is neither the registry's answer for the variable nor a nil test of it"
		}
		valOK := appendOfRangeValue(upd.Value, L)
		if valOK {
			// appended to what the entry held
			valOK = false
			if lk, ok := upd.Value.(*ssa.Call).Call.Args[0].(*ssa.Lookup); ok && !lk.CommaOk && lk.Index == upd.Key {
				if f, base := fieldLoad(lk.X); f == idx && base == ssa.Value(recv) {
					valOK = true
				}
			}
			if !valOK && why == "" {
				why = "the node is not appended to what the entry of the variable held"
			}
		}
		c.Check(keyOK && filtered == "" && valOK, name, p.InstrPos(upd), "every node of "+snap.Name()+" is appended to the entry of each variable "+fnName(collector)+" collects below it, keyed by the registered instance",
			fmt.Sprintf("index construction broken: keyIsRegisteredVariable=%v unconditional=%v appendsNode=%v (%s)", keyOK, filtered == "", valOK, why))
	}
	// every other update of an index map in IndexVariables is keyed by a registered variable as well (the entries the
	// registry's answer is read from)
	for _, b := range fn.Blocks {
		for _, in := range b.Instrs {
			mu, ok := in.(*ssa.MapUpdate)
			if !ok {
				continue
			}
			f, base := fieldLoad(mu.Map)
			if !idxFields[f] || base != ssa.Value(recv) {
				continue
			}
			vl := loopOf[varSnap]
			if vl != nil && vl.Blocks[b] && isRangeValueOf(mu.Key, vl) {
				continue
			}
			inM := false
			for _, l := range loops {
				if l.Blocks[b] {
					if call, isSet := rangeOperand(l).(*ssa.Call); isSet {
						if callee, _ := calleeOf(call); callee != nil && callee.Pkg == fn.Pkg {
							inM = true
						}
					}
				}
			}
			if !inM {
				c.Fail("IndexVariables / index keys are registered variables", p.InstrPos(mu), "an index map is updated under a key that is neither a value of the variable registry nor the registered instance of a collected variable")
			}
		}
	}
	if len(roots) > 0 {
		inv5Collectors(c, roots)
	}
}

// inv5Key decides that the key of the index update is the registered instance of the variable the loop M is at: the
// range key of M itself (the nodes hold registered instances, INV-11), or the answer of the registry (a lookup of
// variableSnapshotMap by the variable's snapshot, inline or in a helper that may answer with the variable itself when
// an index map has an entry for it). Returns the boolean that says "registered" when there is one.
func inv5Key(c *Ctx, key ssa.Value, M *Loop, varSnap *types.Var, idxFields map[*types.Var]bool) (bool, ssa.Value, string) {
	if isRangeKeyOf(key, M) {
		return true, nil, ""
	}
	registryLookup := func(v ssa.Value, of func(ssa.Value) bool, recv ssa.Value) *ssa.Lookup {
		if ex, ok := v.(*ssa.Extract); ok && ex.Index == 0 {
			v = ex.Tuple
		}
		lk, ok := v.(*ssa.Lookup)
		if !ok {
			return nil
		}
		if f, base := fieldLoad(lk.X); f != varSnap || base != recv {
			return nil
		}
		call, ok := lk.Index.(*ssa.Call)
		if !ok || !calleeNameIs(call, "GetSnapshot") {
			return nil
		}
		arg := call.Call.Value
		if !call.Call.IsInvoke() {
			if len(call.Call.Args) != 1 {
				return nil
			}
			arg = call.Call.Args[0]
		}
		if !of(arg) {
			return nil
		}
		return lk
	}
	okOf := func(t ssa.Value) ssa.Value {
		if t == nil || t.Referrers() == nil {
			return nil
		}
		for _, r := range *t.Referrers() {
			if ex, ok := r.(*ssa.Extract); ok && ex.Index == 1 {
				return ex
			}
		}
		return nil
	}
	isVar := func(v ssa.Value) bool { return isRangeKeyOf(v, M) }
	fn := M.Header.Parent()
	if lk := registryLookup(key, isVar, ssa.Value(receiver(fn))); lk != nil {
		if lk.CommaOk {
			return true, okOf(lk), ""
		}
		return true, nil, ""
	}
	ex, ok := key.(*ssa.Extract)
	if !ok || ex.Index != 0 {
		return false, nil, "the key is neither the collected variable nor the registry's instance for it"
	}
	call, ok := ex.Tuple.(*ssa.Call)
	if !ok {
		return false, nil, "the key is neither the collected variable nor the registry's instance for it"
	}
	h, _ := calleeOf(call)
	if h == nil || h.Pkg != fn.Pkg || h.Blocks == nil || len(h.Params) != 2 || len(call.Call.Args) != 2 || !isVar(call.Call.Args[1]) || call.Call.Args[0] != ssa.Value(receiver(fn)) {
		return false, nil, "the key is the result of a call that is not a registry helper of the working memory given the collected variable"
	}
	hrecv, hvar := ssa.Value(h.Params[0]), ssa.Value(h.Params[1])
	for _, r := range returnsOf(h) {
		if len(r.Results) == 0 {
			return false, nil, fnName(h) + " returns nothing"
		}
		var bad string
		var visit func(v ssa.Value, at *ssa.BasicBlock, seen map[ssa.Value]bool)
		visit = func(v ssa.Value, at *ssa.BasicBlock, seen map[ssa.Value]bool) {
			if seen[v] {
				return
			}
			seen[v] = true
			if phi, ok := v.(*ssa.Phi); ok {
				for i, e := range phi.Edges {
					visit(e, phi.Block().Preds[i], seen)
				}
				return
			}
			if registryLookup(v, func(x ssa.Value) bool { return x == hvar }, hrecv) != nil {
				return
			}
			if v == hvar {
				// only when an index map has an entry for this very instance
				guarded := edgesDominate(h, at.Instrs[len(at.Instrs)-1], func(b *ssa.BasicBlock, si int) bool {
					iff, ok := b.Instrs[len(b.Instrs)-1].(*ssa.If)
					if !ok {
						return false
					}
					kind, s, ok := condOn(iff.Cond, func(x ssa.Value) bool {
						e, ok := x.(*ssa.Extract)
						if !ok || e.Index != 1 {
							return false
						}
						lk, ok := e.Tuple.(*ssa.Lookup)
						if !ok || lk.Index != hvar {
							return false
						}
						f, base := fieldLoad(lk.X)
						return idxFields[f] && base == hrecv
					})
					return ok && kind == "bool" && si == s
				})
				if !guarded {
					bad = "answers with the variable it was given on a path where no index map has an entry for it"
				}
				return
			}
			if isNilConst(v) {
				return
			}
			bad = "answers with a value that is neither the registry's instance for the snapshot of the variable nor the variable itself"
		}
		visit(r.Results[0], r.Block(), map[ssa.Value]bool{})
		if bad != "" {
			return false, nil, fnName(h) + " " + bad + " (" + c.P.InstrPos(r) + ")"
		}
	}
	c.Touch(fnName(h))
	return true, okOf(call), ""
}

// inv5Collectors: see inv5Structural. A collector has the form
//
//	func (e *T) collector(sets memo) set {
//		if e == nil { return nil }
//		if set, ok := sets[e]; ok { return set }
//		set := make(set); [set[e] = struct{}{}]; set.add(e.child.collector(sets)) ...; sets[e] = set; return set }
//
// and is decided by: what it returns (nil for a nil receiver, the remembered set on a hit, its own fresh set otherwise),
// what it remembers (its own set under its own receiver, nothing else), and that the set of every variable-bearing
// child field is added to its own set on every other path.
func inv5Collectors(c *Ctx, roots []*ssa.Function) {
	p := c.P
	variable := p.Named("ast", "Variable")
	if variable == nil {
		c.AnchorLost("ast.Variable")
		return
	}
	pkg := variable.Obj().Pkg()
	method := publicName(roots[0])
	var nodeIface *types.Interface
	if obj := pkg.Scope().Lookup("Node"); obj != nil {
		nodeIface, _ = obj.Type().Underlying().(*types.Interface)
	}
	if nodeIface == nil {
		c.AnchorLost("ast.Node")
		return
	}
	// child fields: pointer to, or slice/array/map of pointers to, a named struct of the package that is an ast.Node
	childOf := func(f *types.Var) *types.Named {
		t := f.Type()
		for {
			switch u := t.Underlying().(type) {
			case *types.Slice:
				t = u.Elem()
				continue
			case *types.Array:
				t = u.Elem()
				continue
			case *types.Map:
				t = u.Elem()
				continue
			}
			break
		}
		if pt, ok := t.(*types.Pointer); ok {
			t = pt.Elem()
		}
		n, ok := t.(*types.Named)
		if !ok || n.Obj().Pkg() != pkg {
			return nil
		}
		if _, ok := n.Underlying().(*types.Struct); !ok {
			return nil
		}
		// a child is a node of the syntax graph (ast.Node); the working memory and the data context every node points
		// to are not below it
		if !types.Implements(types.NewPointer(n), nodeIface) {
			return nil
		}
		return n
	}
	var structs []*types.Named
	for _, nm := range pkg.Scope().Names() {
		if tn, ok := pkg.Scope().Lookup(nm).(*types.TypeName); ok && !tn.IsAlias() {
			if n, ok := tn.Type().(*types.Named); ok {
				if _, ok := n.Underlying().(*types.Struct); ok {
					structs = append(structs, n)
				}
			}
		}
	}
	bears := map[*types.Named]bool{variable: true}
	for changed := true; changed; {
		changed = false
		for _, n := range structs {
			if bears[n] {
				continue
			}
			st := n.Underlying().(*types.Struct)
			for i := 0; i < st.NumFields(); i++ {
				if ch := childOf(st.Field(i)); ch != nil && bears[ch] {
					bears[n] = true
					changed = true
				}
			}
		}
	}
	recvNamed := func(f *ssa.Function) *types.Named {
		r := receiver(f)
		if r == nil {
			return nil
		}
		t := r.Type()
		if pt, ok := t.(*types.Pointer); ok {
			t = pt.Elem()
		}
		n, _ := t.(*types.Named)
		return n
	}
	// the adder: a function (into, from) that stores every key of from into into
	adders := map[*ssa.Function]bool{}
	isAdder := func(f *ssa.Function) bool {
		if f == nil || f.Blocks == nil || len(f.Params) != 2 {
			return false
		}
		if ok, done := adders[f]; done {
			return ok
		}
		ok := false
		for _, l := range naturalLoops(f) {
			if rangeOperand(l) != ssa.Value(f.Params[1]) {
				continue
			}
			headerFirst := true
			for _, r := range returnsOf(f) {
				if !l.Header.Dominates(r.Block()) {
					headerFirst = false
				}
			}
			for b := range l.Blocks {
				for _, in := range b.Instrs {
					mu, isUpd := in.(*ssa.MapUpdate)
					if !isUpd || mu.Map != ssa.Value(f.Params[0]) || !isRangeKeyOf(mu.Key, l) {
						continue
					}
					every := true
					for _, bs := range l.Backs {
						if !b.Dominates(bs) {
							every = false
						}
					}
					if every && headerFirst {
						ok = true
					}
				}
			}
		}
		adders[f] = ok
		c.Check(ok, "IndexVariables / "+fnName(f)+" adds every element of the other set", p.Pos(f.Pos()), "ranges over its argument and stores every key into its receiver, on every iteration and before every return", "the function the collectors use to add a child's set to their own does not store every element of the set it is given")
		return ok
	}
	var work []*types.Named
	done := map[*types.Named]bool{}
	for _, r := range roots {
		if n := recvNamed(r); n != nil && !done[n] {
			done[n] = true
			work = append(work, n)
		}
	}
	fields := 0
	for len(work) > 0 {
		T := work[0]
		work = work[1:]
		col := p.Method("ast", T.Obj().Name(), method)
		if col == nil || col.Blocks == nil || len(col.Params) != 2 || col.Signature.Results().Len() != 1 {
			c.Fail("IndexVariables / "+T.Obj().Name()+" has a collector", p.Pos(T.Obj().Pos()), "a variable can be reached through a node of type "+T.Obj().Name()+", but the type has no method "+method+"(sets) that returns a set: the variables below such a node are not indexed")
			continue
		}
		c.Touch(fnName(col))
		crecv, cmemo := ssa.Value(col.Params[0]), ssa.Value(col.Params[1])
		isRecv := func(v ssa.Value) bool {
			if mi, ok := v.(*ssa.MakeInterface); ok {
				v = mi.X
			}
			return v == crecv
		}
		memoHit := func(v ssa.Value, idx int) bool {
			e, ok := v.(*ssa.Extract)
			if !ok || e.Index != idx {
				return false
			}
			lk, ok := e.Tuple.(*ssa.Lookup)
			return ok && lk.X == cmemo && isRecv(lk.Index)
		}
		nilRecvEdge := func(b *ssa.BasicBlock, si int) bool {
			iff, ok := b.Instrs[len(b.Instrs)-1].(*ssa.If)
			if !ok {
				return false
			}
			kind, s, ok := condOn(iff.Cond, func(v ssa.Value) bool { return v == crecv })
			return ok && kind == "nil" && si == s
		}
		exemptEdge := func(b *ssa.BasicBlock, si int) bool {
			if nilRecvEdge(b, si) {
				return true
			}
			iff, ok := b.Instrs[len(b.Instrs)-1].(*ssa.If)
			if !ok {
				return false
			}
			kind, s, ok := condOn(iff.Cond, func(x ssa.Value) bool { return memoHit(x, 1) })
			return ok && kind == "bool" && si == s
		}
		// what it returns
		isRet := map[ssa.Instruction]bool{}
		var own ssa.Value
		retOK, retWhy := true, ""
		for _, r := range returnsOf(col) {
			res := r.Results[0]
			if edgesDominate(col, r, exemptEdge) {
				// nothing is below a nil node; a remembered node is answered with what was remembered
				if !memoHit(res, 0) && !(isNilConst(res) && edgesDominate(col, r, nilRecvEdge)) {
					retOK, retWhy = false, "on the way out for a nil receiver or a remembered node ("+p.InstrPos(r)+") it returns neither nil for the nil receiver nor the remembered set"
				}
				continue
			}
			isRet[r] = true
			mm, ok := res.(*ssa.MakeMap)
			if !ok || (own != nil && own != ssa.Value(mm)) {
				retOK, retWhy = false, "the set returned at "+p.InstrPos(r)+" is not the one set made by this call"
				continue
			}
			own = mm
		}
		if own == nil {
			retOK = false
			if retWhy == "" {
				retWhy = "no path returns a set made by the call"
			}
		}
		c.Check(retOK, "IndexVariables / "+fnName(col)+" returns its own set, or the remembered one of the same node", p.Pos(col.Pos()), "nil for a nil receiver, sets[receiver] on a hit, the fresh set otherwise", "the collector "+retWhy+": a node is indexed under the variables of another set")
		if own == nil {
			continue
		}
		// what it remembers
		memoOK := ""
		for _, b := range col.Blocks {
			for _, in := range b.Instrs {
				if mu, ok := in.(*ssa.MapUpdate); ok && mu.Map == cmemo {
					if !isRecv(mu.Key) || mu.Value != own {
						memoOK = p.InstrPos(mu)
					}
				}
			}
		}
		c.Check(memoOK == "", "IndexVariables / "+fnName(col)+" remembers its own set under its own receiver only", p.Pos(col.Pos()), "every store into the memo is sets[receiver] = own set", "the store at "+memoOK+" remembers a set under another node, or another set under this node: a later visit of that node is answered with the wrong variables")
		cloops := naturalLoops(col)
		// passes reports whether every return (other than the exempt ones) is reached only after the instruction, or by
		// way of "the field is nil" when a field is given. For an instruction in a loop over the field: only after the
		// loop, and every iteration passes the instruction.
		passes := func(in ssa.Instruction, l *Loop, f *types.Var) bool {
			if len(isRet) == 0 {
				return false
			}
			allowed := func(b *ssa.BasicBlock, si int) bool {
				if exemptEdge(b, si) {
					return false
				}
				if f == nil {
					return true
				}
				iff, ok := b.Instrs[len(b.Instrs)-1].(*ssa.If)
				if !ok {
					return true
				}
				kind, s, ok := condOn(iff.Cond, func(v ssa.Value) bool {
					ff, base := fieldLoad(v)
					return ff == f && base == crecv
				})
				return !(ok && kind == "nil" && si == s)
			}
			barrier := in
			if l != nil {
				barrier = l.Header.Instrs[0]
				for _, bs := range l.Backs {
					if !in.Block().Dominates(bs) {
						return false
					}
				}
			}
			t, _ := reach(col, nil, func(x ssa.Instruction) bool { return isRet[x] }, func(x ssa.Instruction) bool { return x == barrier }, allowed)
			return t == nil
		}
		if T == variable {
			added := false
			for _, b := range col.Blocks {
				for _, in := range b.Instrs {
					if mu, ok := in.(*ssa.MapUpdate); ok && mu.Map == own && mu.Key == crecv && passes(mu, nil, nil) {
						added = true
					}
				}
			}
			c.Check(added, "IndexVariables / "+fnName(col)+" adds the variable itself", p.Pos(col.Pos()), "set[receiver] is stored on every path but nil receiver / remembered node", "the collector of Variable does not put the variable itself into its set on every path: nodes that mention the variable are not indexed under it, so an assignment to it does not reset them")
		}
		st := T.Underlying().(*types.Struct)
		for i := 0; i < st.NumFields(); i++ {
			f := st.Field(i)
			U := childOf(f)
			if U == nil || !bears[U] {
				continue
			}
			fields++
			if !done[U] {
				done[U] = true
				work = append(work, U)
			}
			ucol := p.Method("ast", U.Obj().Name(), method)
			name := "IndexVariables / " + fnName(col) + " descends into " + f.Name()
			found, conditional := false, ""
			for _, ci := range callsIn(col) {
				callee, _ := calleeOf(ci)
				args := ci.Common().Args
				if callee == nil || ucol == nil || callee != ucol || len(args) != 2 || args[1] != cmemo || ci.Value() == nil {
					continue
				}
				in := ci.(ssa.Instruction)
				var l *Loop
				arg := args[0]
				if ff, base := fieldLoad(arg); ff == f && base == crecv {
					// direct child
				} else if l = innermostLoopOf(cloops, in.Block()); l != nil && (isRangeValueOf(arg, l) || sliceElemOf(arg, l) || elemOfField(arg, f, crecv)) {
					if ff, base := fieldLoad(rangeOperand(l)); ff != f || base != crecv {
						continue
					}
				} else {
					continue
				}
				// the child's set is added to the own set
				for _, r := range *ci.Value().Referrers() {
					ac, ok := r.(ssa.CallInstruction)
					if !ok {
						continue
					}
					adder, _ := calleeOf(ac)
					aargs := ac.Common().Args
					if adder == nil || len(aargs) != 2 || aargs[0] != own || aargs[1] != ssa.Value(ci.Value()) || !isAdder(adder) {
						continue
					}
					ain := ac.(ssa.Instruction)
					if l != nil && innermostLoopOf(cloops, ain.Block()) != l {
						continue
					}
					if passes(ain, l, f) {
						found = true
					} else {
						conditional = p.InstrPos(ain)
					}
				}
			}
			msg := "the set of the field " + f.Name() + " (type " + U.Obj().Name() + ", through which a variable can be reached) is never added to the collector's own set"
			if conditional != "" {
				msg = "the set of the field " + f.Name() + " is added at " + conditional + ", but not on every path (other than nil receiver / remembered node / nil field)"
			}
			c.Check(found, name, p.Pos(col.Pos()), "the field's set, from the field type's collector with the same memo, is added to the own set on every path but nil receiver / remembered node", msg+": a node that reaches a variable only through this field is not indexed under it, and an assignment to the variable leaves the node's remembered value in place")
		}
	}
	var names []string
	for n := range done {
		names = append(names, n.Obj().Name())
	}
	sort.Strings(names)
	c.Check(fields >= 10, "IndexVariables / collectors cover the child fields", p.Pos(roots[0].Pos()), fmt.Sprintf("%d variable-bearing child fields in %v, each decided by its own obligation", fields, names), fmt.Sprintf("only %d variable-bearing child fields were found below the two node kinds (%v); 13 were confirmed by hand", fields, names))
}

// sliceElemOf: v is the element X[i] of the slice the loop l ranges over by index.
func sliceElemOf(v ssa.Value, l *Loop) bool {
	u, ok := v.(*ssa.UnOp)
	if !ok {
		return false
	}
	ia, ok := u.X.(*ssa.IndexAddr)
	if !ok {
		return false
	}
	return ia.X == rangeOperand(l) && l.Blocks[ia.Block()]
}

// elemOfField: v is an element of the slice field f of base, loaded afresh (`base.f[i]`).
func elemOfField(v ssa.Value, f *types.Var, base ssa.Value) bool {
	u, ok := v.(*ssa.UnOp)
	if !ok {
		return false
	}
	ia, ok := u.X.(*ssa.IndexAddr)
	if !ok {
		return false
	}
	ff, b := fieldLoad(ia.X)
	return ff == f && b == base
}
