package main

import (
	"fmt"
	"go/token"
	"go/types"
	"sort"
	"strings"

	"golang.org/x/tools/go/ssa"
)

// The precise form of the alias reset that follows a member or element write (INV-1, second clause).
//
// A location below a fact can be spelled in more than one way: an element by any selector expression (F.Arr[0],
// F.Arr[F.I]), a member of a map-like node by name or by selector (J.k, J["k"]). The working memory indexes a reader
// under its own spelling only, so after a write every variable that MAY name the written location has to be reset, on
// every level of the written path (a write to F.Arr[0].X changes what F.Arr[F.I].X reads). Resetting the whole container
// does that too, but forgets everything read from unrelated elements (C13). The repository therefore has
//
//	helper(written, size):  [container changed size -> ResetVariable(written.Variable)]
//	                        for v := written; v.Variable != nil; v = v.Variable
//	                            for other := range <every indexed variable>
//	                                if other != v && mayAlias(v, other) -> ResetVariable(other)
//
// and the rule decides, from the code of the helper and of the predicate, that
//   - the walk visits every level and ends only at the top-level variable,
//   - every indexed variable is a candidate on every level, and one is skipped only when it is v itself or the
//     predicate answered false,
//   - the predicate answers true in every state in which two variables can name the same location (a boolean
//     abstraction over the facts it tests, evaluated for every assignment of those facts), and
//   - a write that changed the size of the container resets the container (F.M.Len() after F.M["new"] = 1).

type aliasResetInfo struct {
	varIdx, sizeIdx int // indices in Common().Args (receiver included) of the written variable and of the length before the write
	notes           []string
	preds           []predUse
}

type predUse struct {
	fn         *ssa.Function
	wIdx, oIdx int
}

// preciseAliasReset recognises the helper described above; why says what is missing when it is not recognised.
func (c *Ctx) preciseAliasReset(fn *ssa.Function, m *memoAnchors) (*aliasResetInfo, string) {
	p := c.P
	if fn == nil || fn.Blocks == nil {
		return nil, "no body"
	}
	parentF := p.Field("ast", "Variable", "Variable")
	vnF := p.Field("ast", "Variable", "ValueNode")
	loops := naturalLoops(fn)
	why := "no loop that walks v = written, v.Variable, ... to the top-level variable"
	for _, outer := range loops {
		// the walking variable: a header phi with edges {parameter, phi.Variable}
		var phi *ssa.Phi
		var written *ssa.Parameter
		for _, in := range outer.Header.Instrs {
			ph, ok := in.(*ssa.Phi)
			if !ok {
				continue
			}
			var init *ssa.Parameter
			hasStep := false
			for _, e := range ph.Edges {
				if prm, ok := unspill(e).(*ssa.Parameter); ok {
					init = prm
				}
				if f, base := fieldLoad(e); f == parentF && base == ssa.Value(ph) {
					hasStep = true
				}
			}
			if init != nil && hasStep && len(ph.Edges) == 2 {
				phi, written = ph, init
			}
		}
		if phi == nil {
			continue
		}
		isParentOf := func(x, of ssa.Value) bool {
			f, base := fieldLoad(x)
			return f == parentF && base == of
		}
		exitsOK := true
		for _, ex := range outer.Exits() {
			eb := ex[0].(*ssa.BasicBlock)
			iff, isIf := eb.Instrs[len(eb.Instrs)-1].(*ssa.If)
			if !isIf {
				exitsOK = false
				continue
			}
			if _, _, ok := condOn(iff.Cond, func(x ssa.Value) bool { return isParentOf(x, phi) }); !ok {
				exitsOK = false
			}
		}
		if !exitsOK {
			why = "the walk over the written path ends on a condition other than `v.Variable == nil`"
			continue
		}
		// the loop over every indexed variable, once per level
		var inner *Loop
		var other ssa.Value
		for _, l := range loops {
			if l == outer || !outer.Blocks[l.Header] || len(l.Blocks) >= len(outer.Blocks) {
				continue
			}
			for _, in := range l.Header.Instrs {
				nx, ok := in.(*ssa.Next)
				if !ok {
					continue
				}
				rg, ok := nx.Iter.(*ssa.Range)
				if !ok || !outer.Blocks[rg.Block()] {
					continue
				}
				f, base := fieldLoad(rg.X)
				if f == nil || base != ssa.Value(receiver(fn)) {
					continue
				}
				idx := -1
				switch f {
				case p.Field("ast", "WorkingMemory", "variableSnapshotMap"):
					idx = 2
				case p.Field("ast", "WorkingMemory", "expressionVariableMap"), p.Field("ast", "WorkingMemory", "expressionAtomVariableMap"):
					idx = 1
				}
				if idx < 0 {
					continue
				}
				for _, b := range fn.Blocks {
					for _, x := range b.Instrs {
						if ex, ok := x.(*ssa.Extract); ok && ex.Tuple == ssa.Value(nx) && ex.Index == idx {
							inner, other = l, ex
						}
					}
				}
			}
		}
		if inner == nil {
			why = "no loop over every indexed variable (variableSnapshotMap, or the keys of the variable index) on each level of the walk"
			continue
		}
		for _, ex := range inner.Exits() {
			if ex[0].(*ssa.BasicBlock) != inner.Header {
				return nil, "the loop over the indexed variables is left before every variable was looked at"
			}
		}
		// every level of the walk runs that loop: the header of the walk is not reached again without passing it
		levelProblem := ""
		levelPreds := map[*ssa.Function]bool{}
		if len(outer.Header.Instrs) > 0 {
			if t, path := reach(fn, outer.Header.Instrs[len(outer.Header.Instrs)-1], func(in ssa.Instruction) bool {
				return in.Block() == outer.Header && instrIndex(in) == 0
			}, func(in ssa.Instruction) bool {
				return in.Block() == inner.Header && instrIndex(in) == 0
			}, func(b *ssa.BasicBlock, si int) bool {
				if !outer.Blocks[b.Succs[si]] {
					return false
				}
				// a level may be passed over on the false side of a predicate that answers true whenever the location
				// has another spelling on that level
				iff, isIf := b.Instrs[len(b.Instrs)-1].(*ssa.If)
				if !isIf {
					return true
				}
				cond, neg := iff.Cond, false
				for {
					u, ok := cond.(*ssa.UnOp)
					if !ok || u.Op != token.NOT {
						break
					}
					cond, neg = u.X, !neg
				}
				call, ok := cond.(*ssa.Call)
				if !ok || call.Call.StaticCallee() == nil || !fnInModule(call.Call.StaticCallee()) || len(call.Call.Args) != 1 || call.Call.Args[0] != ssa.Value(phi) {
					return true
				}
				q := call.Call.StaticCallee()
				if prob := c.evalPredicate(q, 0, -1, "level"); prob != "" {
					levelProblem = fnName(q) + ": " + prob
					return true
				}
				levelPreds[q] = true
				falseSide := 1
				if neg {
					falseSide = 0
				}
				return si != falseSide
			}); t != nil {
				if levelProblem != "" {
					return nil, levelProblem
				}
				return nil, "a level of the written path is passed over without looking at the indexed variables (" + strings.Join(pathString(p, path), " -> ") + "): J[\"k\"] keeps its remembered value after J.k = 2, F.Arr[0].X after F.Arr[F.I].X = 1 when the level skipped is the one on which the two spellings differ"
			}
		}
		isReset := func(in ssa.Instruction) bool {
			call, ok := in.(ssa.CallInstruction)
			return ok && call.Common().StaticCallee() == m.resetVar && len(call.Common().Args) >= 2 && call.Common().Args[1] == other
		}
		// a variable is skipped only when it is v itself, or the predicate said it cannot name the same location
		var predProblem string
		var predUses []predUse
		predicates := map[*ssa.Function]bool{}
		licensed := func(b *ssa.BasicBlock, si int) bool {
			iff, isIf := b.Instrs[len(b.Instrs)-1].(*ssa.If)
			if !isIf {
				return false
			}
			cond, neg := iff.Cond, false
			for {
				u, ok := cond.(*ssa.UnOp)
				if !ok || u.Op != token.NOT {
					break
				}
				cond, neg = u.X, !neg
			}
			if bo, ok := cond.(*ssa.BinOp); ok && (bo.Op == token.EQL || bo.Op == token.NEQ) {
				if (bo.X == other && bo.Y == ssa.Value(phi)) || (bo.Y == other && bo.X == ssa.Value(phi)) {
					same := 0
					if bo.Op == token.NEQ {
						same = 1
					}
					if neg {
						same = 1 - same
					}
					return si == same
				}
			}
			if call, ok := cond.(*ssa.Call); ok {
				g := call.Call.StaticCallee()
				if g == nil || !fnInModule(g) {
					return false
				}
				wIdx, oIdx := -1, -1
				for i, a := range call.Call.Args {
					if a == ssa.Value(phi) {
						wIdx = i
					}
					if a == other {
						oIdx = i
					}
				}
				if wIdx < 0 || oIdx < 0 {
					return false
				}
				if !predicates[g] {
					if prob := c.aliasPredicate(g, wIdx, oIdx); prob != "" {
						predProblem = fmt.Sprintf("%s: %s", fnName(g), prob)
						return false
					}
					predicates[g] = true
					predUses = append(predUses, predUse{g, wIdx, oIdx})
				}
				falseSide := 1
				if neg {
					falseSide = 0
				}
				return si == falseSide
			}
			return false
		}
		var bodyEntry *ssa.BasicBlock
		if iff, ok := inner.Header.Instrs[len(inner.Header.Instrs)-1].(*ssa.If); ok {
			for si, s := range inner.Header.Succs {
				if inner.Blocks[s] && s != inner.Header {
					_ = si
					bodyEntry = s
				}
			}
			_ = iff
		}
		if bodyEntry == nil || len(bodyEntry.Instrs) == 0 {
			why = "the loop over the indexed variables has no body"
			continue
		}
		skipped := false
		// search from the first instruction of the body (reach starts after `from`; the header's If is the last
		// instruction before the body)
		t, path := reach(fn, inner.Header.Instrs[len(inner.Header.Instrs)-1], func(in ssa.Instruction) bool {
			return (in.Block() == inner.Header && instrIndex(in) == 0) || !inner.Blocks[in.Block()]
		}, isReset, func(b *ssa.BasicBlock, si int) bool {
			if b == inner.Header {
				return b.Succs[si] == bodyEntry
			}
			return !licensed(b, si)
		})
		if t != nil {
			skipped = true
		}
		if predProblem != "" {
			return nil, predProblem
		}
		if skipped {
			return nil, "an indexed variable is passed over without being reset although it is not the written one and no alias predicate excluded it (" + strings.Join(pathString(p, path), " -> ") + ")"
		}
		if len(findCalls(fn, func(ci ssa.CallInstruction) bool { return isReset(ci.(ssa.Instruction)) })) == 0 {
			return nil, "no ResetVariable(other) in the loop over the indexed variables"
		}
		// the container whose size changed
		info := &aliasResetInfo{varIdx: -1, sizeIdx: -1}
		for i, prm := range fn.Params {
			if prm == written {
				info.varIdx = i
			}
		}
		isNewLength := func(v ssa.Value) bool {
			cands := []ssa.Value{v}
			if ph, ok := v.(*ssa.Phi); ok {
				cands = nil
				for _, e := range ph.Edges {
					if k, ok := constInt(e); ok && k < 0 {
						continue // "unknown": differs from every length
					}
					cands = append(cands, e)
				}
			}
			if len(cands) != 1 {
				return false
			}
			node := lengthOperand(cands[0])
			if node == nil {
				return false
			}
			f, base := fieldLoad(node)
			return f == vnF && isParentOf(base, written)
		}
		var growIf *ssa.If
		growSucc := -1
		for _, b := range fn.Blocks {
			if outer.Blocks[b] || !b.Dominates(outer.Header) {
				continue
			}
			iff, ok := b.Instrs[len(b.Instrs)-1].(*ssa.If)
			if !ok {
				continue
			}
			bo, ok := iff.Cond.(*ssa.BinOp)
			if !ok || (bo.Op != token.EQL && bo.Op != token.NEQ) {
				continue
			}
			for _, pr := range [][2]ssa.Value{{bo.X, bo.Y}, {bo.Y, bo.X}} {
				prm, isPrm := unspill(pr[0]).(*ssa.Parameter)
				if !isPrm || !isNewLength(pr[1]) {
					continue
				}
				if bt, ok := prm.Type().Underlying().(*types.Basic); !ok || bt.Info()&types.IsInteger == 0 {
					continue
				}
				growIf = iff
				growSucc = 0
				if bo.Op == token.EQL {
					growSucc = 1
				}
				for i, fp := range fn.Params {
					if fp == prm {
						info.sizeIdx = i
					}
				}
			}
		}
		if growIf == nil {
			return nil, "the container is not reset when the write changed its size (no comparison of the length before the write with ValueNode.Length() after it): F.M.Len() keeps its remembered value after F.M[\"new\"] = 1"
		}
		gb := growIf.Block().Succs[growSucc]
		hasContainerReset := false
		for i := 0; i < 3 && gb != nil; i++ {
			for _, in := range gb.Instrs {
				if call, ok := in.(ssa.CallInstruction); ok && call.Common().StaticCallee() == m.resetVar && len(call.Common().Args) >= 2 && isParentOf(call.Common().Args[1], written) {
					hasContainerReset = true
				}
			}
			if _, isJump := gb.Instrs[len(gb.Instrs)-1].(*ssa.Jump); isJump && !hasContainerReset {
				gb = gb.Succs[0]
			} else {
				break
			}
		}
		if !hasContainerReset {
			return nil, "the branch taken when the size of the container changed does not call ResetVariable(written.Variable)"
		}
		// nothing returns before the size comparison except for a variable without a container, and the walk follows
		if t, _ := reach(fn, nil, func(in ssa.Instruction) bool { _, ok := in.(*ssa.Return); return ok }, func(in ssa.Instruction) bool {
			return in == ssa.Instruction(growIf)
		}, func(b *ssa.BasicBlock, si int) bool {
			iff, isIf := b.Instrs[len(b.Instrs)-1].(*ssa.If)
			if !isIf {
				return true
			}
			if kind, sNil, ok := condOn(iff.Cond, func(x ssa.Value) bool { return isParentOf(x, written) }); ok && kind == "nil" && si == sNil {
				return false
			}
			return true
		}); t != nil {
			return nil, "a path returns before the size comparison for a variable that has a container"
		}
		if t, _ := reach(fn, growIf, func(in ssa.Instruction) bool { _, ok := in.(*ssa.Return); return ok }, func(in ssa.Instruction) bool {
			return in.Block() == outer.Header && instrIndex(in) == 0
		}, nil); t != nil {
			return nil, "a path returns after the size comparison without the walk over the written path"
		}
		var pn []string
		for g := range predicates {
			pn = append(pn, fnName(g))
		}
		sort.Strings(pn)
		info.notes = append(info.notes, fmt.Sprintf("%s: walk over %s, candidates from %s, alias predicate %s decided for every assignment of its facts", fnName(fn), written.Name(), "the variable index", strings.Join(pn, ",")))
		if info.varIdx < 0 || info.sizeIdx < 0 {
			return nil, "parameters not identified"
		}
		info.preds = predUses
		return info, ""
	}
	return nil, why
}

// lengthOperandWhy says why the last lengthOperand call refused a size helper ("" when it did not or for another reason).
var lengthOperandWhy string

// lengthOperand: v is the length of a value node, taken by node.Length() or by a module function of the node that
// returns node.Length() or a constant on every path (a constant stands for "no elements" / "unknown"); it returns the node.
func lengthOperand(v ssa.Value) ssa.Value {
	lengthOperandWhy = ""
	v = unspill(v)
	if ph, ok := v.(*ssa.Phi); ok {
		// `unknown` spelled as a negative constant on the other edges
		var rest []ssa.Value
		for _, e := range ph.Edges {
			if k, ok := constInt(e); ok && k < 0 {
				continue
			}
			rest = append(rest, e)
		}
		if len(rest) != 1 {
			return nil
		}
		v = unspill(rest[0])
	}
	if ex, ok := v.(*ssa.Extract); ok && ex.Index == 0 {
		if call, ok := ex.Tuple.(*ssa.Call); ok && call.Call.IsInvoke() && call.Call.Method.Name() == "Length" {
			return call.Call.Value
		}
		return nil
	}
	call, ok := v.(*ssa.Call)
	if !ok || call.Call.IsInvoke() || len(call.Call.Args) != 1 {
		return nil
	}
	k := call.Call.StaticCallee()
	if k == nil || !fnInModule(k) || k.Blocks == nil || len(k.Params) != 1 || k.Signature.Results().Len() != 1 {
		return nil
	}
	fromLength := false
	// "no elements" (a constant that is not negative) may be answered only for a node that is neither an array nor a map:
	// behind the false edge of IsArray() and of IsMap() of the node (seed C02/m: `!IsArray() && !IsObject()` answers 0 for
	// every Go map, before and after a write that adds a key, so the container is never reset). A negative constant says
	// "cannot be told" and makes the caller reset more, never less.
	kindTestEdge := func(method string) func(b *ssa.BasicBlock, si int) bool {
		return func(b *ssa.BasicBlock, si int) bool {
			iff, ok := b.Instrs[len(b.Instrs)-1].(*ssa.If)
			if !ok {
				return false
			}
			kind, s, ok := condOn(iff.Cond, func(x ssa.Value) bool {
				c, ok := x.(*ssa.Call)
				return ok && c.Call.IsInvoke() && c.Call.Method.Name() == method && unspill(c.Call.Value) == ssa.Value(k.Params[0])
			})
			return ok && kind == "bool" && si == 1-s
		}
	}
	for _, r := range returnsOf(k) {
		if kv, isK := constInt(r.Results[0]); isK {
			if kv >= 0 && !(edgesDominate(k, r, kindTestEdge("IsArray")) && edgesDominate(k, r, kindTestEdge("IsMap"))) {
				lengthOperandWhy = fnName(k) + " answers " + fmt.Sprint(kv) + " for a node that was not tested to be neither an array nor a map (IsArray() and IsMap() both false): a container whose size is answered with a constant is never seen to grow"
				return nil
			}
			continue
		}
		ex, ok := r.Results[0].(*ssa.Extract)
		if !ok || ex.Index != 0 {
			return nil
		}
		lc, ok := ex.Tuple.(*ssa.Call)
		if !ok || !lc.Call.IsInvoke() || lc.Call.Method.Name() != "Length" || unspill(lc.Call.Value) != ssa.Value(k.Params[0]) {
			return nil
		}
		fromLength = true
	}
	if !fromLength {
		return nil
	}
	return call.Call.Args[0]
}

// aliasPredicate evaluates a loop-free boolean function g(written, other) for every assignment of the facts it
// tests and returns a description of a state in which two variables can name the same location and g answers
// false ("" when there is none; a condition that is not understood is reported as well).
//
// Facts: P  other.Variable == written.Variable           SW, SO  ArrayMapSelector != nil
//
//	CW, CO  constantKey(selector) is a literal        VW, VO  literal value IsValid()
//	KS  Kind() of both literals equal                 IS      Interface() of both literals equal
//	VN  written.Variable.ValueNode == nil             IM      ...ValueNode.IsMap()
//
// Obligation: P && ( SW && SO && !(CW && CO && !IS)  ||  (SW != SO) && (VN || IM) )  =>  g == true.
func (c *Ctx) aliasPredicate(g *ssa.Function, wIdx, oIdx int) string {
	return c.evalPredicate(g, wIdx, oIdx, "sound")
}

// evalPredicate runs the loop-free boolean function g for every assignment of the facts it can test. mode "sound": g has
// to answer true wherever two variables can name one location (INV-1); "exact": g has to answer false wherever they
// cannot (INV-15: a true there forgets what no assignment concerned); "level": g(v) has to answer true whenever the
// location v names can be spelled in another way on its level (oIdx < 0).
func (c *Ctx) evalPredicate(g *ssa.Function, wIdx, oIdx int, mode string) string {
	p := c.P
	if oIdx < 0 {
		oIdx = wIdx
	}
	if g.Blocks == nil || wIdx >= len(g.Params) || oIdx >= len(g.Params) {
		return "no body"
	}
	if len(naturalLoops(g)) > 0 {
		return "contains a loop"
	}
	parentF := p.Field("ast", "Variable", "Variable")
	selF := p.Field("ast", "Variable", "ArrayMapSelector")
	vnF := p.Field("ast", "Variable", "ValueNode")
	nameF := p.Field("ast", "Variable", "Name")
	who := func(v ssa.Value) string {
		switch unspill(v) {
		case ssa.Value(g.Params[wIdx]):
			return "W"
		case ssa.Value(g.Params[oIdx]):
			return "O"
		}
		return ""
	}
	// term classifies an operand
	var term func(v ssa.Value) string
	keyOf := func(v ssa.Value) string { // literal value of the selector of W/O
		ex, ok := v.(*ssa.Extract)
		if !ok || ex.Index != 0 {
			return ""
		}
		call, ok := ex.Tuple.(*ssa.Call)
		if !ok || call.Call.StaticCallee() == nil || len(call.Call.Args) != 1 || !c.isConstantKeyFn(call.Call.StaticCallee()) {
			return ""
		}
		if t := term(call.Call.Args[0]); strings.HasPrefix(t, "sel:") {
			return t[4:]
		}
		return ""
	}
	term = func(v ssa.Value) string {
		if isNilConst(v) {
			return "nil"
		}
		if f, base := fieldLoad(v); f != nil {
			switch f {
			case parentF:
				if w := who(base); w != "" {
					return "parent:" + w
				}
			case selF:
				if w := who(base); w != "" {
					return "sel:" + w
				}
			case vnF:
				if t := term(base); strings.HasPrefix(t, "parent:") {
					return "vn"
				}
			case nameF:
				if w := who(base); w != "" {
					return "name:" + w
				}
			}
		}
		if call, ok := v.(*ssa.Call); ok && !call.Call.IsInvoke() && call.Call.StaticCallee() != nil && len(call.Call.Args) == 1 {
			callee := call.Call.StaticCallee()
			if callee.Pkg != nil && callee.Pkg.Pkg.Path() == "reflect" {
				if k := keyOf(call.Call.Args[0]); k != "" {
					switch publicName(callee) {
					case "Kind":
						return "kind:" + k
					case "Interface":
						return "iface:" + k
					}
				}
			}
		}
		return ""
	}
	type sigma map[string]bool
	var unknown string
	var eval func(v ssa.Value, s sigma, pred map[*ssa.BasicBlock]*ssa.BasicBlock, depth int) (bool, bool)
	eval = func(v ssa.Value, s sigma, pred map[*ssa.BasicBlock]*ssa.BasicBlock, depth int) (bool, bool) {
		if depth > 12 {
			return false, false
		}
		if b, ok := constBool(v); ok {
			return b, true
		}
		switch x := v.(type) {
		case *ssa.UnOp:
			if x.Op == token.NOT {
				r, ok := eval(x.X, s, pred, depth+1)
				return !r, ok
			}
		case *ssa.Phi:
			// the edge of the predecessor this run entered the phi's block from
			for i, pb := range x.Block().Preds {
				if pb == pred[x.Block()] {
					return eval(x.Edges[i], s, pred, depth+1)
				}
			}
		case *ssa.BinOp:
			if x.Op == token.EQL || x.Op == token.NEQ {
				a, b := term(x.X), term(x.Y)
				if a > b {
					a, b = b, a
				}
				var eq, ok bool
				switch {
				case a == "parent:O" && b == "parent:W":
					eq, ok = s["P"], true
				case a == "nil" && b == "sel:W":
					eq, ok = !s["SW"], true
				case a == "nil" && b == "sel:O":
					eq, ok = !s["SO"], true
				case a == "nil" && b == "vn":
					eq, ok = s["VN"], true
				case a == "kind:O" && b == "kind:W":
					eq, ok = s["KS"], true
				case a == "iface:O" && b == "iface:W":
					eq, ok = s["IS"], true
				}
				if ok {
					if x.Op == token.NEQ {
						return !eq, true
					}
					return eq, true
				}
				// comparison of a boolean with a constant
				for _, pr := range [][2]ssa.Value{{x.X, x.Y}, {x.Y, x.X}} {
					if k, isK := constBool(pr[1]); isK {
						r, ok := eval(pr[0], s, pred, depth+1)
						if ok {
							return (r == k) == (x.Op == token.EQL), true
						}
					}
				}
			}
		case *ssa.Extract:
			if call, ok := x.Tuple.(*ssa.Call); ok && x.Index == 1 && call.Call.StaticCallee() != nil && len(call.Call.Args) == 1 && c.isConstantKeyFn(call.Call.StaticCallee()) {
				if t := term(call.Call.Args[0]); strings.HasPrefix(t, "sel:") {
					return s["C"+t[4:]], true
				}
			}
		case *ssa.Call:
			if x.Call.IsInvoke() {
				if x.Call.Method.Name() == "IsMap" && term(x.Call.Value) == "vn" {
					return s["IM"], true
				}
			} else if callee := x.Call.StaticCallee(); callee != nil && callee.Pkg != nil && callee.Pkg.Pkg.Path() == "reflect" && publicName(callee) == "IsValid" && len(x.Call.Args) == 1 {
				if k := keyOf(x.Call.Args[0]); k != "" {
					return s["V"+k], true
				}
			} else if callee != nil && fnInModule(callee) && len(x.Call.Args) == 2 {
				// may the selector of one stand for the member name of the other
				if si, ni, ok := c.isMayBeMemberFn(callee); ok {
					ts, tn := term(x.Call.Args[si]), term(x.Call.Args[ni])
					if strings.HasPrefix(ts, "sel:") && strings.HasPrefix(tn, "name:") && ts[4:] != tn[5:] {
						return s["MB"], true
					}
				}
			}
		}
		if unknown == "" {
			unknown = fmt.Sprintf("%s at %s", v.String(), p.Pos(v.Pos()))
		}
		return false, false
	}
	atoms := []string{"P", "SW", "SO", "CW", "CO", "VW", "VO", "KS", "IS", "VN", "IM", "MB"}
	if mode == "level" {
		atoms = []string{"SW", "VN", "IM"}
	}
	for mask := 0; mask < 1<<len(atoms); mask++ {
		s := sigma{}
		for i, a := range atoms {
			s[a] = mask&(1<<i) != 0
		}
		want := true
		switch mode {
		case "sound":
			if !(s["P"] && ((s["SW"] && s["SO"] && !(s["CW"] && s["CO"] && !s["IS"])) || ((s["SW"] != s["SO"]) && (s["VN"] || s["IM"]) && s["MB"]))) {
				continue
			}
		case "exact":
			want = false
			if !(!s["P"] || (!s["SW"] && !s["SO"]) || (s["SW"] && s["SO"] && s["CW"] && s["CO"] && s["VW"] && s["VO"] && s["KS"] && !s["IS"]) || ((s["SW"] != s["SO"]) && !s["VN"] && !s["IM"]) || ((s["SW"] != s["SO"]) && !s["MB"])) {
				continue
			}
		case "level":
			s["SO"] = s["SW"] // one variable in both roles
			if !(s["SW"] || s["VN"] || s["IM"]) {
				continue
			}
		}
		// run g under s
		b, pred := g.Blocks[0], map[*ssa.BasicBlock]*ssa.BasicBlock{}
		var result, decided bool
		for steps := 0; steps <= len(g.Blocks)+1; steps++ {
			last := b.Instrs[len(b.Instrs)-1]
			switch t := last.(type) {
			case *ssa.If:
				r, ok := eval(t.Cond, s, pred, 0)
				if !ok {
					return "a condition is not expressed in the facts the rule knows (" + unknown + ")"
				}
				next := b.Succs[1]
				if r {
					next = b.Succs[0]
				}
				pred[next] = b
				b = next
				continue
			case *ssa.Jump:
				pred[b.Succs[0]] = b
				b = b.Succs[0]
				continue
			case *ssa.Return:
				if len(t.Results) != 1 {
					return "does not return one boolean"
				}
				r, ok := eval(t.Results[0], s, pred, 0)
				if !ok {
					return "the result is not expressed in the facts the rule knows (" + unknown + ")"
				}
				result, decided = r, true
			default:
				return "ends in " + last.String()
			}
			break
		}
		if !decided {
			return "evaluation did not reach a return"
		}
		if result != want {
			var st []string
			for _, a := range atoms {
				if s[a] {
					st = append(st, a)
				}
			}
			legend := "P same container, SW/SO written/other has a selector, CW/CO selector is a literal, VW/VO literal valid, KS kinds equal, IS literal values equal, VN container node unknown, IM container is map-like, MB the selector may stand for the member name"
			switch mode {
			case "exact":
				return fmt.Sprintf("answers true for two variables that cannot name the same location (state %s; %s)", strings.Join(st, " "), legend)
			case "level":
				return fmt.Sprintf("answers false for a variable whose location has other spellings on its level (state %s; SW it has a selector, VN container node unknown, IM container is map-like)", strings.Join(st, " "))
			}
			return fmt.Sprintf("answers false for two variables that can name the same location (state %s; %s)", strings.Join(st, " "), legend)
		}
	}
	return ""
}

// isMayBeMemberFn: k(selector, name) answers false only by comparing the string of the selector's literal (constantKey)
// with the name, behind the "is a literal" edge; every other return is the constant true. Returns the argument
// positions of the selector and of the name.
func (c *Ctx) isMayBeMemberFn(k *ssa.Function) (selIdx, nameIdx int, ok bool) {
	if k == nil || k.Blocks == nil || len(k.Params) != 2 || k.Signature.Results().Len() != 1 || len(naturalLoops(k)) > 0 {
		return 0, 0, false
	}
	selIdx, nameIdx = -1, -1
	for i, prm := range k.Params {
		if bt, isB := prm.Type().Underlying().(*types.Basic); isB && bt.Kind() == types.String {
			nameIdx = i
		} else {
			selIdx = i
		}
	}
	if selIdx < 0 || nameIdx < 0 {
		return 0, 0, false
	}
	nCompare := 0
	for _, r := range returnsOf(k) {
		if len(r.Results) != 1 {
			return 0, 0, false
		}
		if b, isK := constBool(r.Results[0]); isK && b {
			continue
		}
		bo, isBo := r.Results[0].(*ssa.BinOp)
		if !isBo || bo.Op.String() != "==" {
			return 0, 0, false
		}
		var keyCall *ssa.Call
		for _, pr := range [][2]ssa.Value{{bo.X, bo.Y}, {bo.Y, bo.X}} {
			if unspill(pr[1]) != ssa.Value(k.Params[nameIdx]) {
				continue
			}
			sc, isCall := pr[0].(*ssa.Call)
			if !isCall || sc.Call.StaticCallee() == nil || publicName(sc.Call.StaticCallee()) != "String" || len(sc.Call.Args) != 1 {
				continue
			}
			ex, isEx := sc.Call.Args[0].(*ssa.Extract)
			if !isEx || ex.Index != 0 {
				continue
			}
			kc, isKC := ex.Tuple.(*ssa.Call)
			if isKC && kc.Call.StaticCallee() != nil && c.isConstantKeyFn(kc.Call.StaticCallee()) && len(kc.Call.Args) == 1 && unspill(kc.Call.Args[0]) == ssa.Value(k.Params[selIdx]) {
				keyCall = kc
			}
		}
		if keyCall == nil {
			return 0, 0, false
		}
		// behind the edge on which the selector is a literal
		if !edgesDominate(k, r, func(b *ssa.BasicBlock, si int) bool {
			iff, isIf := b.Instrs[len(b.Instrs)-1].(*ssa.If)
			if !isIf || si != 0 {
				return false
			}
			ex, isEx := iff.Cond.(*ssa.Extract)
			return isEx && ex.Index == 1 && ex.Tuple == ssa.Value(keyCall)
		}) {
			return 0, 0, false
		}
		nCompare++
	}
	return selIdx, nameIdx, nCompare > 0
}

// isConstantKeyFn: k(selector) returns (value, true) only with the Value of the Constant of the selector's expression atom.
func (c *Ctx) isConstantKeyFn(k *ssa.Function) bool {
	p := c.P
	if k == nil || k.Blocks == nil || len(k.Params) != 1 || k.Signature.Results().Len() != 2 {
		return false
	}
	if v, ok := c.constKeyMemo[k]; ok {
		return v
	}
	chain := []*types.Var{p.Field("ast", "Constant", "Value"), p.Field("ast", "ExpressionAtom", "Constant"), p.Field("ast", "Expression", "ExpressionAtom"), p.Field("ast", "ArrayMapSelector", "Expression")}
	good := len(returnsOf(k)) > 0
	for _, r := range returnsOf(k) {
		if len(r.Results) != 2 {
			good = false
			continue
		}
		if b, ok := constBool(r.Results[1]); ok && !b {
			continue
		}
		v := r.Results[0]
		for _, f := range chain {
			if f == nil {
				good = false
				break
			}
			ff, base := fieldLoad(v)
			if ff != f {
				good = false
				break
			}
			v = base
		}
		if good && v != ssa.Value(k.Params[0]) {
			good = false
		}
	}
	if c.constKeyMemo == nil {
		c.constKeyMemo = map[*ssa.Function]bool{}
	}
	c.constKeyMemo[k] = good
	return good
}

func init() {
	register("INV-15", "a write below a fact forgets what may read the written location, not everything read from its container", 2, ruleINV15)
}

// INV-15 (the C13 side of the alias reset). ResetVariable(container) forgets everything that was read from any element
// or member of the container, e.g. F.Items[0].Weight() after F.Items[1].Price = 3. It is needed when the container
// itself changed (a key was added or removed), and only then. The rule follows the written variable from
// Variable.Assign into the module functions it is handed to; every value derived from it by one or more parent steps
// (v.Variable, including a variable walking up the path) is a container of the written path, and a ResetVariable call
// on such a value has to be conditional on something observed from the container through its value node (its length, a
// lookup) - a test of the shape of the syntax tree (has a selector, is map-like) is true for every write.
func ruleINV15(c *Ctx) {
	p := c.P
	m := c.memo()
	asg := p.Method("ast", "Variable", "Assign")
	if asg == nil || m.resetVar == nil {
		c.AnchorLost("(*ast.Variable).Assign / WorkingMemory.ResetVariable")
		return
	}
	parentF := p.Field("ast", "Variable", "Variable")
	type job struct {
		fn      *ssa.Function
		written ssa.Value
		depth   int
	}
	seen := map[string]bool{}
	jobs := []job{{asg, ssa.Value(receiver(asg)), 0}}
	nFuncs, nResets, nPreds := 0, 0, 0
	exactDone := map[*ssa.Function]bool{}
	for len(jobs) > 0 {
		j := jobs[0]
		jobs = jobs[1:]
		key := fmt.Sprintf("%s/%s", j.fn.String(), j.written.Name())
		if seen[key] || j.depth > 3 {
			continue
		}
		seen[key] = true
		nFuncs++
		c.Touch(fnName(j.fn))
		// onPath: derived from the written variable by zero or more parent steps; steps counts whether at least one step may have been taken
		var onPath func(v ssa.Value, depth int) (bool, bool)
		onPath = func(v ssa.Value, depth int) (is bool, stepped bool) {
			if depth > 6 {
				return false, false
			}
			v = unspill(v)
			if v == j.written {
				return true, false
			}
			if f, base := fieldLoad(v); f == parentF {
				if is, _ := onPath(base, depth+1); is {
					return true, true
				}
			}
			if ph, ok := v.(*ssa.Phi); ok {
				any, st := false, false
				for _, e := range ph.Edges {
					if f, base := fieldLoad(e); f == parentF && base == ssa.Value(ph) {
						st = true
						continue
					}
					if is, s := onPath(e, depth+1); is {
						any = true
						st = st || s
					}
				}
				return any, any && st
			}
			return false, false
		}
		for _, ci := range callsIn(j.fn) {
			callee := ci.Common().StaticCallee()
			if callee == nil {
				continue
			}
			if callee == m.resetVar && len(ci.Common().Args) >= 2 {
				is, stepped := onPath(ci.Common().Args[1], 0)
				if !is || !stepped {
					continue
				}
				nResets++
				construct := fmt.Sprintf("%s / ResetVariable of a container of the written path", fnName(j.fn))
				observes := func(cond ssa.Value) bool {
					bo, ok := cond.(*ssa.BinOp)
					if !ok {
						return false
					}
					found := false
					for _, o := range []ssa.Value{bo.X, bo.Y} {
						backSlice(o, func(v ssa.Value) bool {
							if call, ok := v.(*ssa.Call); ok && call.Call.IsInvoke() && isNamed(call.Call.Value.Type(), fullPkg("model"), "ValueNode") && !strings.HasPrefix(call.Call.Method.Name(), "Is") {
								found = true
							}
							if lengthOperand(v) != nil {
								found = true
							}
							return !found
						})
					}
					return found
				}
				// every way into the block of the reset comes from the deciding side of such a comparison
				var guardedBlock func(b *ssa.BasicBlock, depth int) bool
				guardedBlock = func(b *ssa.BasicBlock, depth int) bool {
					if len(b.Preds) == 0 || depth > 4 {
						return false
					}
					for _, pb := range b.Preds {
						switch t := pb.Instrs[len(pb.Instrs)-1].(type) {
						case *ssa.If:
							if !observes(t.Cond) || (pb.Succs[0] == b && pb.Succs[1] == b) {
								return false
							}
						case *ssa.Jump:
							if !guardedBlock(pb, depth+1) {
								return false
							}
						default:
							return false
						}
					}
					return true
				}
				guarded := guardedBlock(ci.(ssa.Instruction).Block(), 0)
				c.Check(guarded, construct, p.InstrPos(ci), "only on the side of a comparison of something observed from the container's value node (its size changed)", "the whole container is reset at every write below it: everything remembered from its other elements and members is forgotten and evaluated again (F.Items[0].Weight() after F.Items[1].Price = 3; every expression of a JSON fact after J.cnt = J.cnt + 1), which is the guarantee the working memory exists for. Reset the variables that may name the written location, and the container only when its key set changed")
				continue
			}
			if !fnInModule(callee) || callee.Blocks == nil || fnPkgShort(callee) != "ast" {
				continue
			}
			if info, _ := c.preciseAliasReset(callee, m); info != nil && !exactDone[callee] {
				exactDone[callee] = true
				for _, pu := range info.preds {
					prob := c.evalPredicate(pu.fn, pu.wIdx, pu.oIdx, "exact")
					c.Check(prob == "", fmt.Sprintf("%s / answers false for two variables that cannot name one location", fnName(pu.fn)), p.Pos(pu.fn.Pos()), "evaluated for every assignment of its facts: different containers, two member names, two different literals, a name and a selector on a node that is not map-like, a name and a string literal that is another name", prob+": every such answer forgets, at each write, something no assignment concerned (Bill.Cost(Tariff.Rate) after Meter.Rate = …; F.Cost(J[\"x\"]) after J.cnt = …)")
					nPreds++
				}
			}
			for i, a := range ci.Common().Args {
				if i < len(callee.Params) {
					if is, _ := onPath(a, 0); is {
						jobs = append(jobs, job{callee, ssa.Value(callee.Params[i]), j.depth + 1})
					}
				}
			}
		}
	}
	c.OK("Variable.Assign / functions the written variable is handed to", p.Pos(asg.Pos()), fmt.Sprintf("%d functions followed, %d container resets and %d alias predicates examined", nFuncs, nResets, nPreds))
}
