package main

import (
	"fmt"
	"go/token"
	"go/types"
	"sort"
	"strings"

	"golang.org/x/tools/go/ssa"
)

func init() {
	register("SER-1", "write/read mirror: each serializer pair writes and reads the same primitive sequence, field by field", 15, ruleSER1)
}

// serTok is one primitive stream operation.
type serTok struct {
	Kind  string // String Int Bool Float Raw Embed Meta
	Desc  string // field / len(field) / key(field) / val(field) / elem(..) / const:.. / type
	Depth int    // loop nesting depth
	Pos   token.Pos
}

func (t serTok) String() string { return fmt.Sprintf("%s:%s@%d", t.Kind, t.Desc, t.Depth) }

var writePrims = map[string]string{"WriteStringToWriter": "String", "WriteIntToWriter": "Int", "WriteBoolToWriter": "Bool", "WriteFloatToWriter": "Float"}
var readPrims = map[string]string{"ReadStringFromReader": "String", "ReadIntFromReader": "Int", "ReadBoolFromReader": "Bool", "ReadFloatFromReader": "Float"}

func loopDepth(loops []*Loop, b *ssa.BasicBlock) int {
	d := 0
	for _, l := range loops {
		if l.Blocks[b] {
			d++
		}
	}
	return d
}

// writeDesc describes where a written value comes from.
func writeDesc(v ssa.Value, recv ssa.Value, loops []*Loop, depth int) string {
	if depth > 6 {
		return "?"
	}
	v = stripConv(v)
	switch x := v.(type) {
	case *ssa.Const:
		return "const:" + x.Value.ExactString()
	case *ssa.Call:
		if bi, ok := x.Call.Value.(*ssa.Builtin); ok && bi.Name() == "len" {
			return "len(" + writeDesc(x.Call.Args[0], recv, loops, depth+1) + ")"
		}
		if calleeNameIs(x, "GetASTType") {
			return "type"
		}
		return "call:" + calleeName(x)
	case *ssa.Extract:
		if nx, ok := x.Tuple.(*ssa.Next); ok {
			if r, ok := nx.Iter.(*ssa.Range); ok {
				inner := writeDesc(r.X, recv, loops, depth+1)
				if x.Index == 1 {
					return "key(" + inner + ")"
				}
				return "val(" + inner + ")"
			}
		}
	case *ssa.UnOp:
		if f, base := fieldLoad(v); f != nil {
			if base == recv {
				return f.Name()
			}
			return writeDesc(base, recv, loops, depth+1) + "." + f.Name()
		}
		if s, _ := elemOfSlice(v); s != nil {
			return "elem(" + writeDesc(s, recv, loops, depth+1) + ")"
		}
		if g, ok := x.X.(*ssa.Global); ok {
			return "global:" + g.Name()
		}
	case *ssa.Field:
		if f, _ := fieldLoad(v); f != nil {
			return f.Name()
		}
	case *ssa.Parameter:
		if v == recv {
			return "recv"
		}
	}
	return "?"
}

// containerDesc describes the container a slice/map value ends up in (read side).
func containerDesc(v ssa.Value, recv ssa.Value, depth int) string {
	if depth > 6 {
		return "?"
	}
	if f, base := fieldLoad(v); f != nil && base == recv {
		return f.Name()
	}
	refs := v.Referrers()
	if refs == nil {
		return "?"
	}
	for _, r := range *refs {
		switch x := r.(type) {
		case *ssa.Store:
			if x.Val == v {
				if fa, ok := x.Addr.(*ssa.FieldAddr); ok && unspill(fa.X) == recv {
					return fieldOfAddr(fa).Name()
				}
				if a, ok := x.Addr.(*ssa.Alloc); ok {
					// local variable holding the container: look at loads of it
					for _, ar := range *a.Referrers() {
						if u, ok := ar.(*ssa.UnOp); ok && u.Op == token.MUL {
							if d := containerDesc(u, recv, depth+1); d != "?" {
								return d
							}
						}
					}
				}
			}
		case *ssa.MapUpdate:
			if x.Value == v {
				if f, base := fieldLoad(x.Map); f != nil && base == recv {
					return "val(" + f.Name() + ")"
				}
			}
		case *ssa.Phi:
			if d := containerDesc(x, recv, depth+1); d != "?" {
				return d
			}
		case *ssa.Slice:
			if d := containerDesc(x, recv, depth+1); d != "?" {
				return d
			}
		case *ssa.Call:
			if bi, ok := x.Call.Value.(*ssa.Builtin); ok && bi.Name() == "append" {
				if d := containerDesc(x, recv, depth+1); d != "?" {
					return d
				}
			}
		case *ssa.Extract:
			if d := containerDesc(x, recv, depth+1); d != "?" {
				return d
			}
		}
	}
	return "?"
}

// readDesc describes where a value read from the stream ends up.
func readDesc(v ssa.Value, recv ssa.Value, loops []*Loop, depth int) string {
	if depth > 6 || v == nil {
		return "?"
	}
	refs := v.Referrers()
	if refs == nil {
		return "?"
	}
	best := "?"
	rank := 0
	set := func(r int, d string) {
		if d != "?" && !strings.Contains(d, "?") && r > rank {
			rank, best = r, d
		}
	}
	for _, r := range *refs {
		switch x := r.(type) {
		case *ssa.Store:
			if x.Val != v {
				continue
			}
			switch addr := x.Addr.(type) {
			case *ssa.FieldAddr:
				if unspill(addr.X) == recv {
					set(9, fieldOfAddr(addr).Name())
				}
			case *ssa.IndexAddr:
				set(8, "elem("+containerDesc(addr.X, recv, 0)+")")
			case *ssa.Alloc:
				for _, ar := range *addr.Referrers() {
					if u, ok := ar.(*ssa.UnOp); ok && u.Op == token.MUL {
						set(5, readDesc(u, recv, loops, depth+1))
					}
				}
			}
		case *ssa.Convert:
			set(7, readDesc(x, recv, loops, depth+1))
		case *ssa.ChangeType:
			set(7, readDesc(x, recv, loops, depth+1))
		case *ssa.MakeInterface:
			// logging / error message operand
		case *ssa.MapUpdate:
			if f, base := fieldLoad(x.Map); f != nil && base == recv {
				if x.Key == v {
					set(8, "key("+f.Name()+")")
				} else if x.Value == v {
					set(8, "val("+f.Name()+")")
				}
			}
		case *ssa.MakeSlice:
			if x.Len == v {
				set(6, "len("+containerDesc(x, recv, 0)+")")
			}
		case *ssa.Call:
			// io.ReadAll(io.LimitReader(r, n)): n is the length of what ReadAll returns
			if f := x.Call.StaticCallee(); f != nil && f.String() == "io.LimitReader" && len(x.Call.Args) == 2 && x.Call.Args[1] == v {
				for _, lr := range *x.Referrers() {
					if ra, ok := lr.(*ssa.Call); ok {
						if rf := ra.Call.StaticCallee(); rf != nil && rf.String() == "io.ReadAll" {
							set(6, "len("+containerDesc(ra, recv, 0)+")")
						}
					}
					if mi, ok := lr.(*ssa.MakeInterface); ok {
						for _, lr2 := range *mi.Referrers() {
							if ra, ok := lr2.(*ssa.Call); ok {
								if rf := ra.Call.StaticCallee(); rf != nil && rf.String() == "io.ReadAll" {
									set(6, "len("+containerDesc(ra, recv, 0)+")")
								}
							}
						}
					}
				}
			}
		case *ssa.BinOp:
			other := x.Y
			if other == v {
				other = x.X
			}
			if c, ok := other.(*ssa.Const); ok && (x.Op == token.EQL || x.Op == token.NEQ) {
				// comparison with a constant: version gate or type switch
				if c.Value != nil && c.Value.Kind().String() == "String" {
					set(4, "const:"+c.Value.ExactString())
				} else {
					set(3, "type")
				}
			}
			if x.Op == token.LSS && x.Y == v {
				// loop bound: the container populated inside that loop
				for _, l := range loops {
					if l.Header != x.Block() {
						continue
					}
					for b := range l.Blocks {
						for _, in := range b.Instrs {
							if mu, ok := in.(*ssa.MapUpdate); ok {
								if f, base := fieldLoad(mu.Map); f != nil && base == recv && innermostLoopOf(loops, b) == l {
									set(2, "len("+f.Name()+")")
								}
							}
							if call, ok := in.(*ssa.Call); ok && innermostLoopOf(loops, b) == l {
								if bi, ok := call.Call.Value.(*ssa.Builtin); ok && bi.Name() == "append" {
									set(2, "len("+containerDesc(call, recv, 0)+")")
								}
							}
						}
					}
				}
			}
		case *ssa.Phi:
			set(1, readDesc(x, recv, loops, depth+1))
		}
	}
	return best
}

// serSequence linearises the primitive operations of a serializer function in source order.
func serSequence(p *Prog, fn *ssa.Function, write bool) []serTok {
	recv := ssa.Value(receiver(fn))
	loops := naturalLoops(fn)
	var toks []serTok
	for _, ci := range callsIn(fn) {
		call, ok := ci.(*ssa.Call)
		if !ok {
			continue
		}
		d := loopDepth(loops, call.Block())
		callee := call.Call.StaticCallee()
		name := ""
		if callee != nil {
			name = publicName(callee)
		}
		switch {
		case write && callee != nil && writePrims[name] != "" && fnPkgShort(callee) == "ast":
			toks = append(toks, serTok{writePrims[name], writeDesc(call.Call.Args[1], recv, loops, 0), d, call.Pos()})
		case !write && callee != nil && readPrims[name] != "" && fnPkgShort(callee) == "ast":
			var res ssa.Value
			if rv := resultValues(call, 0); len(rv) > 0 {
				res = rv[0]
			}
			toks = append(toks, serTok{readPrims[name], readDesc(res, recv, loops, 0), d, call.Pos()})
		case callee != nil && (name == "WriteMetaTo" || name == "ReadMetaFrom") && callee.Signature.Recv() != nil:
			// embedded NodeMeta
			toks = append(toks, serTok{"Embed", strings.TrimPrefix(types.TypeString(callee.Signature.Recv().Type(), nil), "*"+fullPkg("ast")+"."), d, call.Pos()})
		case call.Call.IsInvoke() && (call.Call.Method.Name() == "WriteMetaTo" || call.Call.Method.Name() == "ReadMetaFrom"):
			toks = append(toks, serTok{"Meta", "meta", d, call.Pos()})
		case call.Call.IsInvoke() && write && call.Call.Method.Name() == "Write":
			toks = append(toks, serTok{"Raw", writeDesc(call.Call.Args[0], recv, loops, 0), d, call.Pos()})
		case call.Call.IsInvoke() && !write && call.Call.Method.Name() == "Read":
			toks = append(toks, serTok{"Raw", containerDesc(call.Call.Args[0], recv, 0), d, call.Pos()})
		case callee != nil && write && callee.String() == fullPkg("ast")+".WriteFull":
			toks = append(toks, serTok{"Raw", writeDesc(call.Call.Args[1], recv, loops, 0), d, call.Pos()})
		case callee != nil && !write && callee.String() == "io.ReadFull":
			toks = append(toks, serTok{"Raw", containerDesc(call.Call.Args[1], recv, 0), d, call.Pos()})
		case callee != nil && !write && callee.String() == "io.ReadAll":
			toks = append(toks, serTok{"Raw", containerDesc(call, recv, 0), d, call.Pos()})
		}
	}
	sort.SliceStable(toks, func(i, j int) bool { return toks[i].Pos < toks[j].Pos })
	return toks
}

func tokStrings(ts []serTok) []string {
	var out []string
	for _, t := range ts {
		out = append(out, t.String())
	}
	return out
}

// normaliseMapTok: on the read side a map count is "len(F)" via loop bound; on the write side it is len(F) too.
func seqEqual(a, b []serTok) (bool, string) {
	if len(a) != len(b) {
		return false, fmt.Sprintf("%d operations written vs %d read", len(a), len(b))
	}
	for i := range a {
		if a[i].Kind != b[i].Kind || a[i].Desc != b[i].Desc || a[i].Depth != b[i].Depth {
			return false, fmt.Sprintf("operation %d: written %s, read %s", i+1, a[i], b[i])
		}
	}
	return true, ""
}

// metaTypes lists the Meta struct types (name -> named) in package ast that implement both methods.
func (c *Ctx) metaTypes() []string {
	var out []string
	pk := c.P.Pkg("ast")
	if pk == nil {
		return nil
	}
	sc := pk.Types.Scope()
	for _, n := range sc.Names() {
		if !strings.HasSuffix(n, "Meta") {
			continue
		}
		if _, ok := sc.Lookup(n).(*types.TypeName); !ok {
			continue
		}
		w := c.P.Method("ast", n, "WriteMetaTo")
		r := c.P.Method("ast", n, "ReadMetaFrom")
		if w != nil && r != nil && w.Synthetic == "" && r.Synthetic == "" {
			out = append(out, n)
		}
	}
	sort.Strings(out)
	return out
}

func ruleSER1(c *Ctx) {
	p := c.P
	type pair struct {
		name string
		w, r *ssa.Function
	}
	var pairs []pair
	for _, n := range c.metaTypes() {
		pairs = append(pairs, pair{n, p.Method("ast", n, "WriteMetaTo"), p.Method("ast", n, "ReadMetaFrom")})
	}
	pairs = append(pairs, pair{"Catalog", p.Method("ast", "Catalog", "WriteCatalogToWriter"), p.Method("ast", "Catalog", "ReadCatalogFromReader")})
	nprim := 0
	for _, pr := range pairs {
		if pr.w == nil || pr.r == nil {
			c.AnchorLost("serializer pair of " + pr.name)
			continue
		}
		ws := serSequence(p, pr.w, true)
		rs := serSequence(p, pr.r, false)
		nprim += len(ws) + len(rs)
		construct := pr.name + " / write sequence == read sequence"
		und := false
		for _, t := range append(append([]serTok{}, ws...), rs...) {
			if strings.Contains(t.Desc, "?") {
				und = true
			}
		}
		ok, why := seqEqual(ws, rs)
		switch {
		case ok && !und && len(ws) > 0:
			c.OK(construct, p.Pos(pr.w.Pos()), strings.Join(tokStrings(ws), " "))
		case ok && und:
			c.Undecided(construct, p.Pos(pr.w.Pos()), "cannot tell which field an operation concerns: write ["+strings.Join(tokStrings(ws), " ")+"] read ["+strings.Join(tokStrings(rs), " ")+"]")
		default:
			c.Fail(construct, p.Pos(pr.r.Pos()), "the reader does not mirror the writer ("+why+"): write ["+strings.Join(tokStrings(ws), " ")+"] read ["+strings.Join(tokStrings(rs), " ")+"]")
		}
		// every own field of the Meta struct is in the stream
		if pr.name != "Catalog" {
			named := p.Named("ast", pr.name)
			st := named.Underlying().(*types.Struct)
			var missing []string
			for i := 0; i < st.NumFields(); i++ {
				f := st.Field(i)
				if f.Embedded() {
					continue
				}
				if !f.Exported() {
					continue // bookkeeping of the reader (which stream format it is decoding), not part of the record
				}
				found := false
				for _, t := range ws {
					if t.Desc == f.Name() || strings.Contains(t.Desc, "("+f.Name()+")") {
						found = true
					}
				}
				if !found {
					missing = append(missing, f.Name())
				}
			}
			c.Check(len(missing) == 0, pr.name+" / every field is written", p.Pos(pr.w.Pos()), "all own fields appear in the write sequence", fmt.Sprintf("meta field(s) %v are never written to the stream", missing))
		}
	}
	c.Notes = append(c.Notes, fmt.Sprintf("SER-1 compared %d pairs, %d primitive call sites", len(pairs), nprim))
}

func init() {
	register("SER-10", "integers cross the stream without a narrowing conversion on either side", 4, ruleSER10)
}

// SER-10: every Int primitive carries a field through `uint64(x)` on the way out and `T(v)` on the way in. A further
// conversion through a narrower or differently signed type on either side loses information (a negative salience written
// as uint64(uint32(s)) comes back as 2^32+s).
func ruleSER10(c *Ctx) {
	p := c.P
	wide := func(t types.Type) bool {
		b, ok := t.Underlying().(*types.Basic)
		if !ok || b.Info()&types.IsInteger == 0 {
			return false
		}
		switch b.Kind() {
		case types.Int64, types.Uint64, types.Int, types.Uint, types.Uintptr:
			return true
		}
		return false
	}
	n := 0
	for _, mt := range append(c.metaTypes(), "Catalog") {
		wname, rname := "WriteMetaTo", "ReadMetaFrom"
		if mt == "Catalog" {
			wname, rname = "WriteCatalogToWriter", "ReadCatalogFromReader"
		}
		w, r := p.Method("ast", mt, wname), p.Method("ast", mt, rname)
		if w == nil || r == nil {
			continue
		}
		// write side: argument of WriteIntToWriter
		for _, ci := range callsIn(w) {
			call, ok := ci.(*ssa.Call)
			if !ok || call.Call.StaticCallee() == nil || publicName(call.Call.StaticCallee()) != "WriteIntToWriter" {
				continue
			}
			n++
			var chain []string
			v := call.Call.Args[1]
			okChain := true
			for {
				cv, isConv := v.(*ssa.Convert)
				if !isConv {
					break
				}
				chain = append(chain, cv.X.Type().String()+"->"+cv.Type().String())
				// every intermediate type must be 64-bit wide, except the source's own type at the bottom of the chain
				if _, more := cv.X.(*ssa.Convert); more && !wide(cv.X.Type()) {
					okChain = false
				}
				v = cv.X
			}
			c.Check(okChain, fmt.Sprintf("%s.%s / integer %s written without narrowing", mt, wname, writeDesc(call.Call.Args[1], ssa.Value(receiver(w)), nil, 0)), p.InstrPos(call), strings.Join(chain, " "), "the value passes through a narrower type on its way into the stream ("+strings.Join(chain, ", ")+"): negative or large values change")
		}
		// read side: result of ReadIntFromReader -> conversions -> field
		for _, ci := range callsIn(r) {
			call, ok := ci.(*ssa.Call)
			if !ok || call.Call.StaticCallee() == nil || publicName(call.Call.StaticCallee()) != "ReadIntFromReader" {
				continue
			}
			for _, res := range resultValues(call, 0) {
				var bad []string
				var walk func(v ssa.Value, depth int, viaNarrow bool)
				walk = func(v ssa.Value, depth int, viaNarrow bool) {
					if depth > 4 || v.Referrers() == nil {
						return
					}
					for _, ref := range *v.Referrers() {
						switch x := ref.(type) {
						case *ssa.Convert:
							walk(x, depth+1, viaNarrow || (!wide(x.Type()) && hasConvertUser(x)))
						case *ssa.Store:
							if _, isField := x.Addr.(*ssa.FieldAddr); isField && viaNarrow {
								bad = append(bad, p.InstrPos(x))
							}
						}
					}
				}
				walk(res, 0, false)
				if len(bad) > 0 {
					c.Fail(fmt.Sprintf("%s.%s / integer read without narrowing", mt, rname), bad[0], "a value read from the stream is narrowed before it is converted to the field's type")
				}
			}
		}
	}
	if n == 0 {
		c.Fail("serializer / integer primitives", "ast/Serializer.go", "no WriteIntToWriter call found (anchor lost)")
	}
}

// hasConvertUser: the converted value is converted again (it is an intermediate step, not the field's final type).
func hasConvertUser(v ssa.Value) bool {
	if v.Referrers() == nil {
		return false
	}
	for _, r := range *v.Referrers() {
		if _, ok := r.(*ssa.Convert); ok {
			return true
		}
	}
	return false
}

func init() {
	register("SER-13", "the primitive writers and readers of the stream agree on width, byte order and encoding", 4, ruleSER13)
}

// SER-13: SER-1 compares which primitives are written and read in which order; this rule compares the two halves of
// each primitive codec themselves.
func ruleSER13(c *Ctx) {
	p := c.P
	type codec struct{ orders, widths, conv []string }
	describe := func(fn *ssa.Function) codec {
		var d codec
		for _, b := range fn.Blocks {
			for _, in := range b.Instrs {
				switch x := in.(type) {
				case *ssa.Alloc:
					// make([]byte, k) with constant k is a slice of new [k]byte
					if pt, ok := x.Type().(*types.Pointer); ok {
						if arr, ok := pt.Elem().(*types.Array); ok {
							if bt, ok := arr.Elem().(*types.Basic); ok && bt.Kind() == types.Uint8 {
								d.widths = append(d.widths, fmt.Sprint(arr.Len()))
							}
						}
					}
				case *ssa.MakeSlice:
					if k, ok := constInt(x.Len); ok {
						d.widths = append(d.widths, fmt.Sprint(k))
					}
				case ssa.CallInstruction:
					name := calleeName(x)
					if strings.HasPrefix(name, "(encoding/binary.") {
						// (encoding/binary.littleEndian).PutUint64 -> littleEndian/64
						ord := strings.TrimPrefix(name, "(encoding/binary.")
						ord = ord[:strings.Index(ord, ")")]
						bits := strings.TrimLeft(name[strings.LastIndex(name, ".")+1:], "PutUintAppend")
						d.orders = append(d.orders, ord+"/"+bits)
					}
					if strings.HasPrefix(name, "math.Float") {
						d.conv = append(d.conv, strings.NewReplacer("frombits", "", "bits", "").Replace(strings.TrimPrefix(name, "math.")))
					}
				}
			}
		}
		sort.Strings(d.orders)
		sort.Strings(d.widths)
		sort.Strings(d.conv)
		return d
	}
	for _, k := range []string{"String", "Int", "Bool", "Float"} {
		w, r := p.Func("ast", "Write"+k+"ToWriter"), p.Func("ast", "Read"+k+"FromReader")
		if w == nil || r == nil {
			c.AnchorLost("Write" + k + "ToWriter / Read" + k + "FromReader")
			continue
		}
		dw, dr := describe(w), describe(r)
		same := strings.Join(uniq(dw.orders), ",") == strings.Join(uniq(dr.orders), ",") && strings.Join(uniq(dw.widths), ",") == strings.Join(uniq(dr.widths), ",") && strings.Join(dw.conv, ",") == strings.Join(dr.conv, ",")
		nonEmpty := len(dw.widths) > 0
		ok := same && nonEmpty
		detail := fmt.Sprintf("writer: order %v width %v conv %v; reader: order %v width %v conv %v", uniq(dw.orders), uniq(dw.widths), dw.conv, uniq(dr.orders), uniq(dr.widths), dr.conv)
		if k == "Bool" && ok {
			// writer stores constant T when the flag is true; reader returns byte == T
			var trueConst, falseConst int64 = -1, -1
			flag := ssa.Value(w.Params[1])
			for _, b := range w.Blocks {
				for _, in := range b.Instrs {
					st, isSt := in.(*ssa.Store)
					if !isSt {
						continue
					}
					if _, isIdx := st.Addr.(*ssa.IndexAddr); !isIdx {
						continue
					}
					kv, isK := constInt(st.Val)
					if !isK {
						continue
					}
					dom := edgesDominate(w, st, func(bb *ssa.BasicBlock, si int) bool {
						iff, isIf := bb.Instrs[len(bb.Instrs)-1].(*ssa.If)
						if !isIf {
							return false
						}
						kind, sTrue, okc := condOn(iff.Cond, func(v ssa.Value) bool { return v == flag })
						return okc && kind == "bool" && si == sTrue
					})
					if dom {
						trueConst = kv
					}
					domF := edgesDominate(w, st, func(bb *ssa.BasicBlock, si int) bool {
						iff, isIf := bb.Instrs[len(bb.Instrs)-1].(*ssa.If)
						if !isIf {
							return false
						}
						kind, sTrue, okc := condOn(iff.Cond, func(v ssa.Value) bool { return v == flag })
						return okc && kind == "bool" && si == 1-sTrue
					})
					if domF {
						falseConst = kv
					}
				}
			}
			okR := false
			for _, ret := range returnsOf(r) {
				if len(ret.Results) != 2 || !isNilConst(ret.Results[1]) {
					continue
				}
				if bo, isBo := ret.Results[0].(*ssa.BinOp); isBo {
					kv, isK := constInt(bo.Y)
					if isK && ((bo.Op == token.EQL && kv == trueConst) || (bo.Op == token.NEQ && kv == falseConst)) {
						okR = true
					}
				}
			}
			ok = trueConst >= 0 && okR
			detail += fmt.Sprintf("; writer stores %d for true and %d for false, reader decodes accordingly: %v", trueConst, falseConst, okR)
		}
		c.Check(ok, "Write"+k+"ToWriter / Read"+k+"FromReader agree", p.Pos(w.Pos()), detail, "the two halves of the "+k+" codec disagree ("+detail+"): every stored knowledge base is read back with other values")
	}
}
