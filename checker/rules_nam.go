package main

import (
	"fmt"
	"go/token"
	"go/types"
	"sort"
	"strings"

	"golang.org/x/tools/go/ssa"
)

func init() {
	register("NAM-1", "insert-if-absent: a rule entry is stored under its name only after a missed lookup of that name", 2, ruleNAM1)
	register("NAM-2", "who-may-write the RuleEntries maps", 2, ruleNAM2)
	register("NAM-3", "removal is a tombstone the engine honours, under a key that cannot collide", 4, ruleNAM3)
	register("NAM-4", "composite library keys are injective", 1, ruleNAM4)
}

// lookupWrapper: fn returns the comma-ok of a lookup of its parameter in a map field of its receiver; returns the field.
func lookupWrapper(fn *ssa.Function) *types.Var {
	if fn == nil || fn.Blocks == nil || len(fn.Params) != 2 {
		return nil
	}
	rets := returnsOf(fn)
	if len(rets) != 1 || len(rets[0].Results) != 1 {
		return nil
	}
	ex, ok := rets[0].Results[0].(*ssa.Extract)
	if !ok || ex.Index != 1 {
		return nil
	}
	lk, ok := ex.Tuple.(*ssa.Lookup)
	if !ok || !lk.CommaOk || lk.Index != ssa.Value(fn.Params[1]) {
		return nil
	}
	f, base := fieldLoad(lk.X)
	if f == nil || base != ssa.Value(fn.Params[0]) {
		return nil
	}
	return f
}

func sameValueExpr(a, b ssa.Value) bool {
	if a == b {
		return true
	}
	fa, ba := fieldLoad(a)
	fb, bb := fieldLoad(b)
	return fa != nil && fa == fb && unspill(ba) == unspill(bb)
}

// missedLookupEdge: edge (b,si) is the "key not present in map field f of base" edge for key.
func missedLookupEdge(b *ssa.BasicBlock, si int, f *types.Var, base ssa.Value, key ssa.Value) bool {
	iff, isIf := b.Instrs[len(b.Instrs)-1].(*ssa.If)
	if !isIf {
		return false
	}
	kind, sTrue, okc := condOn(iff.Cond, func(v ssa.Value) bool {
		switch x := v.(type) {
		case *ssa.Extract:
			lk, isLk := x.Tuple.(*ssa.Lookup)
			if x.Index != 1 || !isLk || !lk.CommaOk {
				return false
			}
			lf, lb := fieldLoad(lk.X)
			return lf == f && lb == base && sameValueExpr(lk.Index, key)
		case *ssa.Call:
			callee := x.Call.StaticCallee()
			if wf := lookupWrapper(callee); wf != nil && wf == f {
				return unspill(x.Call.Args[0]) == base && sameValueExpr(x.Call.Args[1], key)
			}
		}
		return false
	})
	return okc && kind == "bool" && si == 1-sTrue
}

func ruleNAM1(c *Ctx) {
	p := c.P
	nam1EveryParsedEntry(c)
	for _, spec := range []struct{ typ, method, field string }{{"KnowledgeBase", "AddRuleEntry", "RuleEntries"}, {"Grl", "ReceiveRuleEntry", "RuleEntries"}} {
		fn := p.Method("ast", spec.typ, spec.method)
		f := p.Field("ast", spec.typ, spec.field)
		if fn == nil || f == nil {
			c.AnchorLost("(*ast." + spec.typ + ")." + spec.method)
			continue
		}
		recv := ssa.Value(receiver(fn))
		n := 0
		for _, b := range fn.Blocks {
			for _, in := range b.Instrs {
				mu, ok := in.(*ssa.MapUpdate)
				if !ok {
					continue
				}
				mf, mb := fieldLoad(mu.Map)
				if mf != f || mb != recv {
					continue
				}
				n++
				guarded := edgesDominate(fn, mu, func(bb *ssa.BasicBlock, si int) bool { return missedLookupEdge(bb, si, f, recv, mu.Key) })
				// the hit edge returns a non-nil error
				hitErr := false
				for _, bb := range fn.Blocks {
					for si := range bb.Succs {
						if missedLookupEdge(bb, si, f, recv, mu.Key) {
							hitErr = allReturnsNonNil(bb.Succs[1-si])
						}
					}
				}
				keyIsName := false
				if kf, kb := fieldLoad(mu.Key); kf != nil && kf.Name() == "RuleName" && len(fn.Params) > 1 && kb == ssa.Value(fn.Params[1]) && mu.Value == ssa.Value(fn.Params[1]) {
					keyIsName = true
				}
				c.Check(guarded && hitErr && keyIsName, fmt.Sprintf("%s.%s / stored under its own name only if that name is free", spec.typ, spec.method), p.InstrPos(mu), "missed lookup of entry.RuleName dominates the store; a hit returns an error", fmt.Sprintf("a rule can replace an existing rule of the same name, or is stored under another key (guardedByMissedLookup=%v hitIsError=%v keyIsEntryName=%v)", guarded, hitErr, keyIsName))
			}
		}
		if n != 1 {
			c.Fail(fmt.Sprintf("%s.%s / exactly one store", spec.typ, spec.method), p.Pos(fn.Pos()), fmt.Sprintf("%d map updates of %s, expected 1", n, spec.field))
		}
		if spec.typ == "KnowledgeBase" {
			// lock/unlock paired
			locks := findCalls(fn, func(ci ssa.CallInstruction) bool { return calleeNameIs(ci, "Lock") })
			unlocks := findCalls(fn, func(ci ssa.CallInstruction) bool {
				_, isDefer := ci.(*ssa.Defer)
				return isDefer && calleeNameIs(ci, "Unlock")
			})
			// the lock is taken before the lookup and the store, and released by a deferred Unlock installed right away
			ok := len(locks) == 1 && len(unlocks) == 1
			if ok {
				lk := locks[0].(ssa.Instruction)
				before := func(a, b ssa.Instruction) bool {
					return (a.Block() == b.Block() && instrIndex(a) < instrIndex(b)) || (a.Block() != b.Block() && a.Block().Dominates(b.Block()))
				}
				ok = before(lk, unlocks[0].(ssa.Instruction))
				for _, bb := range fn.Blocks {
					for _, in := range bb.Instrs {
						switch x := in.(type) {
						case *ssa.MapUpdate:
							if ff, _ := fieldLoad(x.Map); ff == f && !before(lk, in) {
								ok = false
							}
						case *ssa.Lookup:
							if ff, _ := fieldLoad(x.X); ff == f && !before(lk, in) {
								ok = false
							}
						}
					}
				}
			}
			c.Check(ok, "KnowledgeBase.AddRuleEntry / lookup and store under the lock", p.Pos(fn.Pos()), "Lock() before the lookup and the store, one deferred Unlock() after it", "lookup-then-insert is not atomic")
		}
	}
}

func ruleNAM2(c *Ctx) {
	p := c.P
	owners := map[string]map[string]bool{
		"KnowledgeBase.RuleEntries": {"(*ast.KnowledgeBase).AddRuleEntry": true, "(*ast.KnowledgeBase).RemoveRuleEntry": true, "(*ast.KnowledgeLibrary).RemoveRuleEntry": true, "(*ast.KnowledgeBase).Clone": true, "(*ast.Catalog).BuildKnowledgeBase": true, "(*ast.KnowledgeBase).DiscardRuleEntries": true},
		"Grl.RuleEntries":           {"(*ast.Grl).ReceiveRuleEntry": true},
	}
	fields := map[*types.Var]string{}
	for k := range owners {
		parts := strings.Split(k, ".")
		if f := p.Field("ast", parts[0], parts[1]); f != nil {
			fields[f] = k
		} else {
			c.AnchorLost("ast." + k)
		}
	}
	count := map[string]int{}
	for _, fn := range p.ModuleFuncs() {
		for _, b := range fn.Blocks {
			for _, in := range b.Instrs {
				var m ssa.Value
				what := ""
				switch x := in.(type) {
				case *ssa.MapUpdate:
					m, what = x.Map, "update"
				case ssa.CallInstruction:
					if bi, ok := x.Common().Value.(*ssa.Builtin); ok && bi.Name() == "delete" {
						m, what = x.Common().Args[0], "delete"
					}
				}
				if m == nil {
					continue
				}
				f, _ := fieldLoad(m)
				name, ok := fields[f]
				if !ok {
					continue
				}
				count[name]++
				if !owners[name][fnName(fn)] {
					c.Fail(fmt.Sprintf("%s %s in %s", name, what, fnName(fn)), p.InstrPos(in), fmt.Sprintf("%s of %s outside its owners %v: rule entries can appear/disappear without the name-uniqueness and tombstone protocol", what, name, keysOf(owners[name])))
				}
			}
		}
	}
	var ks []string
	for k := range count {
		ks = append(ks, k)
	}
	sort.Strings(ks)
	for _, k := range ks {
		c.OK(k+" owners", "-", fmt.Sprintf("%d writes, all inside the owner set", count[k]))
	}
	nam2Discard(c)
}

// nam2Discard (D40): DiscardRuleEntries is the roll-back of a rejected text. It may take out only what that text put
// in: every delete is behind the equal edge of a comparison of the held entry with the entry it was given (an older
// rule of the same name stays), it happens under the lock, and the only caller is the builder, on its error path.
func nam2Discard(c *Ctx) {
	p := c.P
	fn := p.Method("ast", "KnowledgeBase", "DiscardRuleEntries")
	if fn == nil {
		return // no roll-back in this tree: LDR-5 speaks about what a rejected text leaves behind
	}
	re := p.Field("ast", "KnowledgeBase", "RuleEntries")
	bad := ""
	n := 0
	for _, ci := range callsIn(fn) {
		bi, ok := ci.Common().Value.(*ssa.Builtin)
		if !ok || bi.Name() != "delete" {
			continue
		}
		if f, _ := fieldLoad(ci.Common().Args[0]); f != re {
			continue
		}
		n++
		in := ci.(ssa.Instruction)
		guarded := edgesDominate(fn, in, func(b *ssa.BasicBlock, si int) bool {
			iff, isIf := b.Instrs[len(b.Instrs)-1].(*ssa.If)
			if !isIf {
				return false
			}
			bo, isBo := iff.Cond.(*ssa.BinOp)
			if !isBo || (bo.Op != token.EQL && bo.Op != token.NEQ) {
				return false
			}
			// held entry (a lookup in RuleEntries) against the given entry (an element of the parameter)
			isHeld := func(v ssa.Value) bool {
				return derivesFrom(v, func(x ssa.Value) bool {
					lk, isLk := x.(*ssa.Lookup)
					if !isLk {
						return false
					}
					f, _ := fieldLoad(lk.X)
					return f == re
				})
			}
			isGiven := func(v ssa.Value) bool {
				return len(fn.Params) > 1 && derivesFrom(v, func(x ssa.Value) bool {
					if nx, isNext := x.(*ssa.Next); isNext {
						if rg, isRg := nx.Iter.(*ssa.Range); isRg {
							return unspill(rg.X) == ssa.Value(fn.Params[1])
						}
					}
					return false
				})
			}
			if !((isHeld(bo.X) && isGiven(bo.Y)) || (isHeld(bo.Y) && isGiven(bo.X))) {
				return false
			}
			if bo.Op == token.EQL {
				return si == 0
			}
			return si == 1
		})
		if !guarded {
			bad = "the delete at " + p.InstrPos(in) + " is not behind `held entry == given entry`: a rule that was in the knowledge base before the rejected text, under a name the text used again, is removed with it"
		}
		locked := false
		for _, lc := range findCalls(fn, func(x ssa.CallInstruction) bool { return calleeNameIs(x, "Lock") }) {
			li := lc.(ssa.Instruction)
			if (li.Block() == in.Block() && instrIndex(li) < instrIndex(in)) || (li.Block() != in.Block() && li.Block().Dominates(in.Block())) {
				locked = true
			}
		}
		if !locked && bad == "" {
			bad = "the delete at " + p.InstrPos(in) + " happens without the knowledge base's lock"
		}
	}
	// callers
	if node := p.CallGraph().Nodes[fn]; node != nil {
		for _, e := range node.In {
			if e.Caller == nil || e.Caller.Func == nil || !fnInModule(e.Caller.Func) {
				continue
			}
			if fnName(e.Caller.Func) != "(*builder.RuleBuilder).BuildRuleFromResource" && bad == "" {
				bad = "called from " + fnName(e.Caller.Func) + ": only the builder rolls a rejected text back"
			}
		}
	}
	c.Check(bad == "" && n >= 1, "KnowledgeBase.DiscardRuleEntries / removes only the very entries it is given, under the lock, for the builder", p.Pos(fn.Pos()), fmt.Sprintf("%d delete(s), each behind held == given", n), bad)
}

func ruleNAM3(c *Ctx) {
	p := c.P
	a := c.eng()
	re := p.Field("ast", "KnowledgeBase", "RuleEntries")
	for _, typ := range []string{"KnowledgeBase", "KnowledgeLibrary"} {
		root := p.Method("ast", typ, "RemoveRuleEntry")
		if root == nil {
			c.AnchorLost("(*ast." + typ + ").RemoveRuleEntry")
			continue
		}
		// the function (or a module callee) that performs the re-keying
		var worker *ssa.Function
		funcs := c.reachableModuleFuncs([]*ssa.Function{root}, false)
		for f := range funcs {
			del := false
			for _, ci := range callsIn(f) {
				if bi, ok := ci.Common().Value.(*ssa.Builtin); ok && bi.Name() == "delete" {
					if mf, _ := fieldLoad(ci.Common().Args[0]); mf == re {
						del = true
					}
				}
			}
			if del {
				worker = f
			}
		}
		construct := typ + ".RemoveRuleEntry"
		if worker == nil {
			c.Fail(construct+" / removes the name", p.Pos(root.Pos()), "the rule's name is not deleted from RuleEntries: it cannot be reused")
			continue
		}
		// Deleted = true stored on the removed entry
		okDel := false
		for _, b := range worker.Blocks {
			for _, in := range b.Instrs {
				f, _, val := fieldStore(in)
				if f == a.deleted && f != nil {
					if bv, isb := constBool(val); isb && bv {
						okDel = true
					}
				}
			}
		}
		c.Check(okDel, construct+" / marks the entry Deleted", p.Pos(worker.Pos()), "Deleted = true", "the removed entry is not marked Deleted: it keeps matching and firing")
		// tombstone key: unique per removal, for the library's blueprint and for an instance alike
		var keyVal ssa.Value
		for _, b := range worker.Blocks {
			for _, in := range b.Instrs {
				if mu, ok := in.(*ssa.MapUpdate); ok {
					if mf, _ := fieldLoad(mu.Map); mf == re {
						keyVal = mu.Key
					}
				}
			}
		}
		if typ == "KnowledgeLibrary" || typ == "KnowledgeBase" {
			uniqueKey := false
			if keyVal != nil {
				// the key is the entry's (new) RuleName; find what was stored into RuleName
				for _, b := range worker.Blocks {
					for _, in := range b.Instrs {
						f, _, val := fieldStore(in)
						if f != nil && f.Name() == "RuleName" {
							found := false
							backSliceKeys(val, func(x ssa.Value) bool {
								if call, ok := x.(*ssa.Call); ok {
									n := calleeName(call)
									if strings.Contains(n, "uuid.New") || strings.Contains(n, "unique.NewID") {
										found = true
									}
								}
								return !found
							})
							if found {
								uniqueKey = true
							}
						}
					}
				}
			}
			c.Check(uniqueKey, construct+" / tombstone key is unique per removal", p.Pos(worker.Pos()), "tombstone name derives from a fresh uuid", "the tombstone of a removed rule is keyed by a name derived from the rule name: removing the same name twice overwrites the first tombstone (orphaning its nodes in the working memory, after which cloning fails), and removing rule X silently replaces a live rule that happens to be called Deleted_X")
		}
		c.Check(keyVal != nil, construct+" / tombstone kept in RuleEntries", p.Pos(worker.Pos()), "entry re-inserted under its tombstone name (its nodes stay reachable for cloning)", "the removed entry is dropped from RuleEntries: its nodes become orphans of the working memory and cloning fails")
	}
}

func ruleNAM4(c *Ctx) {
	p := c.P
	fn := p.Func("ast", "GetKnowledgeBaseKey")
	if fn == nil {
		c.AnchorLost("ast.GetKnowledgeBaseKey")
		return
	}
	construct := "GetKnowledgeBaseKey / (name, version) -> key is injective"
	for _, ci := range callsIn(fn) {
		call, ok := ci.(*ssa.Call)
		if !ok || !matchPkgFunc("fmt", "Sprintf")(call) {
			continue
		}
		format, _ := constString(call.Call.Args[0])
		specs := fmtSpecs(format)
		quoted := true
		for _, s := range specs {
			if s != "q" {
				quoted = false
			}
		}
		if len(specs) == 2 && !quoted && specs[0] == "s" && specs[1] == "s" {
			// "%s<sep>%s" with the first operand escaped: esc -> esc esc, sep -> esc sep makes the first unescaped
			// separator the boundary, whatever the second operand contains
			sep := ""
			if i := strings.Index(format, "%s"); i == 0 {
				rest := format[2:]
				if j := strings.Index(rest, "%s"); j > 0 && j+2 == len(rest) {
					sep = rest[:j]
				}
			}
			ops := varargElems(call.Call.Args[1])
			if sep != "" && len(ops) == 2 && c.escapedBy(ops[0], sep) {
				c.OK(construct, p.InstrPos(call), fmt.Sprintf("name escaped (escape character and separator %q) before it is joined with the version", sep))
				return
			}
		}
		if len(specs) == 2 && !quoted {
			c.Fail(construct, p.InstrPos(call), fmt.Sprintf("two free strings are joined with format %q: the separator can occur inside either, so (`a:b`,`c`) and (`a`,`b:c`) share one library slot", format))
			return
		}
		if quoted {
			c.OK(construct, p.InstrPos(call), "operands quoted")
			return
		}
	}
	c.Undecided(construct, p.Pos(fn.Pos()), "key construction not recognised")
}

func init() {
	register("NAM-5", "a rule's name, description, salience and scopes are written only while it is parsed, copied or rebuilt (and renamed only by removal)", 12, ruleNAM5)
}

// fieldWriters lists every store to the named fields of pkg.typ in non-test module functions.
type fieldWrite struct {
	Fn    *ssa.Function // enclosing source function (closures attributed to their parent)
	Field *types.Var
	In    *ssa.Store
	Base  ssa.Value
}

func (p *Prog) fieldWriters(pkg, typ string, fields map[string]bool) []fieldWrite {
	var out []fieldWrite
	named := p.Named(pkg, typ)
	if named == nil {
		return nil
	}
	st, _ := named.Underlying().(*types.Struct)
	own := map[*types.Var]bool{}
	for i := 0; st != nil && i < st.NumFields(); i++ {
		if fields[st.Field(i).Name()] {
			own[st.Field(i)] = true
		}
	}
	for _, fn := range p.ModuleFuncs() {
		if strings.HasSuffix(p.Pos(fn.Pos()), "_test.go") {
			continue
		}
		root := fn
		for root.Parent() != nil {
			root = root.Parent()
		}
		for _, b := range fn.Blocks {
			for _, in := range b.Instrs {
				if f, base, _ := fieldStore(in); f != nil && own[f] {
					out = append(out, fieldWrite{root, f, in.(*ssa.Store), base})
				}
			}
		}
	}
	return out
}

// NAM-5 (who-may-write): what a rule is called, how it ranks and what it consists of is fixed when the rule is read.
func ruleNAM5(c *Ctx) {
	p := c.P
	fields := map[string]bool{"RuleName": true, "RuleDescription": true, "Salience": true, "WhenScope": true, "ThenScope": true}
	type perm struct {
		fields   map[string]bool
		ownAlloc bool // only on the entry the function allocates itself
	}
	all := map[string]bool{"RuleName": true, "RuleDescription": true, "Salience": true, "WhenScope": true, "ThenScope": true}
	allowed := map[*ssa.Function]perm{}
	names := map[*ssa.Function]string{}
	add := func(fn *ssa.Function, name string, pm perm) {
		if fn == nil {
			c.AnchorLost(name)
			return
		}
		allowed[fn] = pm
		names[fn] = name
	}
	add(p.Func("ast", "NewRuleEntry"), "NewRuleEntry", perm{all, true})
	add(p.Method("ast", "RuleEntry", "Clone"), "RuleEntry.Clone", perm{all, true})
	add(p.Method("ast", "Catalog", "BuildKnowledgeBase"), "Catalog.BuildKnowledgeBase", perm{all, false})
	add(p.Method("ast", "RuleEntry", "AcceptSalience"), "RuleEntry.AcceptSalience", perm{map[string]bool{"Salience": true}, false})
	add(p.Method("ast", "RuleEntry", "AcceptWhenScope"), "RuleEntry.AcceptWhenScope", perm{map[string]bool{"WhenScope": true}, false})
	add(p.Method("ast", "RuleEntry", "AcceptThenScope"), "RuleEntry.AcceptThenScope", perm{map[string]bool{"ThenScope": true}, false})
	add(p.Method("antlr", "GruleV3ParserListener", "ExitRuleEntry"), "listener ExitRuleEntry", perm{map[string]bool{"RuleName": true, "RuleDescription": true}, false})
	add(p.Method("ast", "KnowledgeBase", "RemoveRuleEntry"), "KnowledgeBase.RemoveRuleEntry", perm{map[string]bool{"RuleName": true}, false})
	add(p.Method("ast", "KnowledgeLibrary", "RemoveRuleEntry"), "KnowledgeLibrary.RemoveRuleEntry", perm{map[string]bool{"RuleName": true}, false})
	for _, w := range p.fieldWriters("ast", "RuleEntry", fields) {
		key := fmt.Sprintf("%s / writes RuleEntry.%s", fnName(w.Fn), w.Field.Name())
		pm, ok := allowed[w.Fn]
		if w.Fn.Signature.Recv() != nil && isNamed(derefType(w.Fn.Signature.Recv().Type()), fullPkg("antlr"), "GruleV3ParserListener") {
			// any listener callback: the rule is still being read
			c.OK(key, p.InstrPos(w.In), "writer is the parse listener")
			continue
		}
		if !ok || !pm.fields[w.Field.Name()] {
			c.Fail(key, p.InstrPos(w.In), fmt.Sprintf("RuleEntry.%s is rewritten outside parsing / copying / rebuilding (and removal for the name): the rule that runs is no longer the rule that was declared (its rank, its key in the knowledge base, or its body changes behind the author's back)", w.Field.Name()))
			continue
		}
		if pm.ownAlloc {
			if _, isAlloc := w.Base.(*ssa.Alloc); !isAlloc {
				c.Fail(key, p.InstrPos(w.In), fmt.Sprintf("%s writes RuleEntry.%s of an entry it did not allocate (the origin of a copy must stay untouched)", names[w.Fn], w.Field.Name()))
				continue
			}
		}
		c.OK(key, p.InstrPos(w.In), "writer is "+names[w.Fn])
	}
}

// escapedBy: v is the result of (*strings.Replacer).Replace on a package-level replacer that was built, in the
// package initialiser, from constant pairs containing (e -> e e) and (sep -> e sep) for one escape string e.
func (c *Ctx) escapedBy(v ssa.Value, sep string) bool {
	v = stripConv(v)
	if mi, ok := v.(*ssa.MakeInterface); ok {
		v = mi.X
	}
	call, ok := v.(*ssa.Call)
	if !ok || calleeName(call) != "(*strings.Replacer).Replace" || len(call.Call.Args) != 2 {
		return false
	}
	ld, ok := call.Call.Args[0].(*ssa.UnOp)
	if !ok {
		return false
	}
	g, ok := ld.X.(*ssa.Global)
	if !ok || g.Pkg == nil {
		return false
	}
	initFn := g.Pkg.Func("init")
	if initFn == nil {
		return false
	}
	// exactly one store to the global in the whole module: the one in init
	stores := 0
	var pairs []string
	for _, fn := range c.P.ModuleFuncs() {
		for _, b := range fn.Blocks {
			for _, in := range b.Instrs {
				st, ok := in.(*ssa.Store)
				if !ok || st.Addr != ssa.Value(g) {
					continue
				}
				stores++
				nc, ok := st.Val.(*ssa.Call)
				if !ok || calleeName(nc) != "strings.NewReplacer" || len(nc.Call.Args) != 1 {
					return false
				}
				for _, e := range varargElems(nc.Call.Args[0]) {
					sv, ok := constString(e)
					if !ok {
						return false
					}
					pairs = append(pairs, sv)
				}
			}
		}
	}
	if stores != 1 || len(pairs)%2 != 0 {
		return false
	}
	m := map[string]string{}
	for i := 0; i+1 < len(pairs); i += 2 {
		m[pairs[i]] = pairs[i+1]
	}
	to, ok := m[sep]
	if !ok || !strings.HasSuffix(to, sep) || len(to) <= len(sep) {
		return false
	}
	esc := strings.TrimSuffix(to, sep)
	return m[esc] == esc+esc && !strings.Contains(esc, sep)
}

// nam1EveryParsedEntry: the listener hands every rule entry of the parsed text to KnowledgeBase.AddRuleEntry, which is
// where a name that is taken becomes an error. A filter in front of that call (same text, same salience, ...) turns a
// duplicate into silent acceptance of the text.
func nam1EveryParsedEntry(c *Ctx) {
	p := c.P
	fn := p.Method("antlr", "GruleV3ParserListener", "ExitGrl")
	add := p.Method("ast", "KnowledgeBase", "AddRuleEntry")
	entriesF := p.Field("ast", "Grl", "RuleEntries")
	if fn == nil || add == nil || entriesF == nil {
		c.AnchorLost("(*antlr.GruleV3ParserListener).ExitGrl / (*ast.KnowledgeBase).AddRuleEntry")
		return
	}
	construct := "ExitGrl / every parsed rule entry is handed to KnowledgeBase.AddRuleEntry"
	ok, why := false, "no loop over Grl.RuleEntries that calls AddRuleEntry with its element"
	loops := naturalLoops(fn)
	for _, l := range loops {
		x := rangeOperand(l)
		if x == nil {
			continue
		}
		if f, _ := fieldLoad(x); f != entriesF {
			continue
		}
		for b := range l.Blocks {
			for _, in := range b.Instrs {
				call, isCall := in.(ssa.CallInstruction)
				if !isCall || call.Common().StaticCallee() != add || len(call.Common().Args) < 2 {
					continue
				}
				if !derivesFrom(call.Common().Args[1], func(v ssa.Value) bool { return isRangeValueOf(v, l) || isIndexOfRanged(v, x) }) {
					continue
				}
				ok, why = true, ""
				if !passesOnEveryIteration(l, in) {
					ok, why = false, "an entry of the parsed text can be passed over without the AddRuleEntry call: a rule whose name is taken is then accepted silently instead of being reported as a duplicate (BuildRuleFromResource returns nil, the older rule stays in force)"
				}
				for _, ex := range l.Exits() {
					if ex[0].(*ssa.BasicBlock) != l.Header {
						ok, why = false, "the loop over the parsed entries is left before the last entry"
					}
				}
			}
		}
	}
	c.Check(ok, construct, p.Pos(fn.Pos()), "loop over Grl.RuleEntries, the call on every iteration, left only when exhausted", why)
}
