package main

import (
	"fmt"
	"go/token"
	"go/types"
	"sort"
	"strings"

	"golang.org/x/tools/go/ssa"
)

func init() {
	register("ERR-1", "recover barriers of RuleEntry.Evaluate / Execute assign the named results", 2, ruleERR1)
	register("ERR-2", "no dropped error on the evaluation/action call tree", 60, ruleERR2)
	register("ERR-4", "every recover barrier on the evaluation/action call tree reports through the function's error result and cannot itself panic", 4, ruleERR4)
}

// neverFails: callees documented never to return a non-nil error (frozen list, one reason: the type's documentation).
var neverFails = map[string]bool{
	"(*strings.Builder).WriteString": true, "(*strings.Builder).WriteByte": true, "(*strings.Builder).WriteRune": true, "(*strings.Builder).Write": true,
	"(*bytes.Buffer).WriteString": true, "(*bytes.Buffer).WriteByte": true, "(*bytes.Buffer).WriteRune": true, "(*bytes.Buffer).Write": true,
}

// recoverBarrier describes a deferred closure that calls recover().
type recoverBarrier struct {
	deferInstr *ssa.Defer
	closure    *ssa.Function
	mk         *ssa.MakeClosure
	recoverRes ssa.Value
}

func findRecoverBarriers(fn *ssa.Function) []recoverBarrier {
	var out []recoverBarrier
	for _, b := range fn.Blocks {
		for _, in := range b.Instrs {
			d, ok := in.(*ssa.Defer)
			if !ok {
				continue
			}
			mk, ok := d.Call.Value.(*ssa.MakeClosure)
			var cl *ssa.Function
			if ok {
				cl, _ = mk.Fn.(*ssa.Function)
			} else if f, ok := d.Call.Value.(*ssa.Function); ok {
				cl = f
			}
			if cl == nil {
				continue
			}
			for _, ci := range callsIn(cl) {
				if bi, ok := ci.Common().Value.(*ssa.Builtin); ok && bi.Name() == "recover" {
					out = append(out, recoverBarrier{d, cl, mk, ci.Value()})
				}
			}
		}
	}
	return out
}

// barrierAssignsError: under recover() != nil the closure stores a definitely non-nil error into the free variable
// that is bound to the alloc the enclosing function's recover block returns as its error result.
func barrierAssignsError(fn *ssa.Function, rb recoverBarrier, needRuleName bool, needFalseBool bool) (bool, string) {
	if rb.mk == nil {
		return false, "deferred function is not a closure over the results"
	}
	ei := errResultIndex(fn.Signature)
	if ei < 0 {
		return false, "function has no error result"
	}
	// the alloc returned by the recover block
	var recBlock *ssa.BasicBlock
	for _, b := range fn.Blocks {
		if b.Comment == "recover" {
			recBlock = b
		}
	}
	if recBlock == nil {
		return false, "function has no recover block (results are not named: a recovered panic returns zero values, i.e. a nil error)"
	}
	ret, ok := recBlock.Instrs[len(recBlock.Instrs)-1].(*ssa.Return)
	if !ok || ei >= len(ret.Results) {
		return false, "recover block does not return"
	}
	resAlloc := func(i int) *ssa.Alloc {
		u, ok := ret.Results[i].(*ssa.UnOp)
		if !ok || u.Op != token.MUL {
			return nil
		}
		a, _ := u.X.(*ssa.Alloc)
		return a
	}
	errAlloc := resAlloc(ei)
	if errAlloc == nil {
		return false, "after a recovered panic the function returns a constant (nil) error: the named error result is gone"
	}
	// free var index bound to errAlloc
	fvOf := func(a *ssa.Alloc) *ssa.FreeVar {
		for i, bnd := range rb.mk.Bindings {
			if bnd == ssa.Value(a) && i < len(rb.closure.FreeVars) {
				return rb.closure.FreeVars[i]
			}
		}
		return nil
	}
	errFV := fvOf(errAlloc)
	if errFV == nil {
		return false, "the deferred closure does not capture the function's error result"
	}
	// in the closure: store to errFV dominated by recover()!=nil edge, of a non-nil error
	okErr, okName := false, false
	var nonNilBlock *ssa.BasicBlock
	for _, b := range rb.closure.Blocks {
		iff, ok := b.Instrs[len(b.Instrs)-1].(*ssa.If)
		if !ok {
			continue
		}
		kind, sNil, okc := condOn(iff.Cond, func(v ssa.Value) bool { return v == rb.recoverRes })
		if okc && kind == "nil" {
			nonNilBlock = b.Succs[1-sNil]
		}
	}
	if nonNilBlock == nil {
		return false, "the deferred closure does not test recover() against nil"
	}
	q := &AQuery{Fn: rb.closure, Assume: AssumeNil}
	st := &AState{q: q, alias: map[ssa.Value]bool{}, holds: map[*ssa.Alloc]ssa.Value{}, taint: map[ssa.Value]bool{}}
	for _, b := range rb.closure.Blocks {
		if !nonNilBlock.Dominates(b) {
			continue
		}
		for _, in := range b.Instrs {
			s, ok := in.(*ssa.Store)
			if !ok || s.Addr != ssa.Value(errFV) {
				continue
			}
			if st.Tri(s.Val) == TriNonNil {
				// must be executed on every path from the non-nil edge to return
				t, _ := reach(rb.closure, nonNilBlock.Instrs[0], func(x ssa.Instruction) bool { _, r := x.(*ssa.Return); return r }, func(x ssa.Instruction) bool { return x == in }, nil)
				if t == nil || nonNilBlock.Instrs[0] == in {
					okErr = true
				}
				if errorfMentions(s.Val, func(y ssa.Value) bool {
					f, _ := fieldLoad(y)
					return f != nil && f.Name() == "RuleName"
				}) {
					okName = true
				}
			}
		}
	}
	if !okErr {
		return false, "when recover() is non-nil the closure does not (always) store a non-nil error into the function's error result"
	}
	if needRuleName && !okName {
		return false, "the recovered error does not name the rule"
	}
	if needFalseBool {
		ba := resAlloc(0)
		if ba == nil {
			return false, "the boolean result is not a named result"
		}
		bfv := fvOf(ba)
		okB := false
		if bfv != nil {
			for _, b := range rb.closure.Blocks {
				if !nonNilBlock.Dominates(b) {
					continue
				}
				for _, in := range b.Instrs {
					if s, ok := in.(*ssa.Store); ok && s.Addr == ssa.Value(bfv) {
						if bv, isb := constBool(s.Val); isb && !bv {
							okB = true
						}
					}
				}
			}
		}
		if !okB {
			return false, "after a recovered panic the candidate flag is not forced to false"
		}
	}
	return true, ""
}

func ruleERR1(c *Ctx) {
	p := c.P
	a := c.eng()
	for _, pr := range []struct {
		fn    *ssa.Function
		inner Matcher
		name  string
		flag  bool
	}{
		{a.reEval, matchNamedMethod(fullPkg("ast"), "WhenScope", "Evaluate"), "RuleEntry.Evaluate", true},
		{a.reExec, matchNamedMethod(fullPkg("ast"), "ThenScope", "Execute"), "RuleEntry.Execute", false},
	} {
		if pr.fn == nil {
			c.AnchorLost(pr.name)
			continue
		}
		construct := pr.name + " / recover barrier assigns the named results and dominates the scope call"
		rbs := findRecoverBarriers(pr.fn)
		calls := findCalls(pr.fn, pr.inner)
		if len(rbs) == 0 {
			c.Fail(construct, p.Pos(pr.fn.Pos()), "no deferred recover(): a panic in a user method or operator escapes the engine")
			continue
		}
		if len(calls) == 0 {
			c.Fail(construct, p.Pos(pr.fn.Pos()), "scope call not found (anchor lost)")
			continue
		}
		ok := false
		why := ""
		for _, rb := range rbs {
			good, w := barrierAssignsError(pr.fn, rb, true, pr.flag)
			if !good {
				why = w
				continue
			}
			dom := true
			for _, ci := range calls {
				if !(rb.deferInstr.Block().Dominates(ci.Block()) && (rb.deferInstr.Block() != ci.Block() || instrIndex(rb.deferInstr) < instrIndex(ci.(ssa.Instruction)))) {
					dom = false
					why = "the defer is installed after (or not on every path to) the scope call"
				}
			}
			if dom {
				ok = true
			}
		}
		c.Check(ok, construct, p.Pos(pr.fn.Pos()), "defer func(){ if r := recover(); r != nil { err = fmt.Errorf(... RuleName ...) } }() before the scope call", why)
	}
}

// errCallSites lists, for fn, the call sites that yield an error worth tracking.
func errCallSites(fn *ssa.Function) []ssa.CallInstruction {
	var out []ssa.CallInstruction
	for _, ci := range callsIn(fn) {
		if _, isDefer := ci.(*ssa.Defer); isDefer {
			continue
		}
		if _, isGo := ci.(*ssa.Go); isGo {
			continue
		}
		sig := ci.Common().Signature()
		if errResultIndex(sig) < 0 {
			continue
		}
		f, m := calleeOf(ci)
		if f != nil {
			if alwaysNonNilError(f, 0) {
				continue // constructors
			}
			if neverFails[f.String()] {
				continue
			}
		}
		if f == nil && m == nil {
			// dynamic call through a function value
			if _, isB := ci.Common().Value.(*ssa.Builtin); isB {
				continue
			}
		}
		out = append(out, ci)
	}
	return out
}

// errDiscipline checks every error-yielding call site of the functions: the error must not be discarded and, when it
// is non-nil, no path may reach a return whose error operand is not definitely non-nil (nil, or another call's error).
// furtherWork (optional): instructions that must not be reached either while the error is pending.
func errDiscipline(c *Ctx, funcs []*ssa.Function, exempt map[string]string, furtherWork func(fn *ssa.Function) func(ssa.Instruction) bool) (sites int) {
	p := c.P
	for _, fn := range funcs {
		ei := errResultIndex(fn.Signature)
		var work func(ssa.Instruction) bool
		if furtherWork != nil {
			work = furtherWork(fn)
		}
		for _, ci := range errCallSites(fn) {
			sites++
			construct := fmt.Sprintf("%s / error of %s", fnName(fn), calleeName(ci))
			key := fnName(fn) + " / " + calleeName(ci)
			if reason, ok := exempt[key]; ok {
				c.OK(construct+" [exempt]", p.InstrPos(ci), "frozen exemption: "+reason)
				continue
			}
			cei := errResultIndex(ci.Common().Signature())
			des := resultValues(ci, cei)
			if len(des) == 0 || allUnused(des) {
				c.Fail(construct, p.InstrPos(ci), "the error result of "+calleeName(ci)+" is discarded: a failure here is silently swallowed")
				continue
			}
			if ei < 0 {
				// the enclosing function cannot report an error: the value must at least be consumed (tested, logged, stored)
				c.OK(construct, p.InstrPos(ci), "error is consumed in a function without error result")
				continue
			}
			var bad string
			q := &AQuery{Fn: fn, From: ci.(ssa.Instruction), Designated: des, Assume: AssumeNonNil,
				IsTarget: func(in ssa.Instruction, st *AState) bool {
					if work != nil && work(in) && in != ci.(ssa.Instruction) {
						bad = "continues with " + describeInstr(in) + " at " + p.InstrPos(in) + " although the error is pending"
						return true
					}
					ret, ok := in.(*ssa.Return)
					if !ok {
						return false
					}
					if ret.Block().Comment == "recover" {
						return false
					}
					v := ret.Results[ei]
					if st.Tri(v) == TriNonNil {
						return false
					}
					if errorfWrapsAny(v, st) {
						return false
					}
					bad = "returns at " + p.InstrPos(ret) + " with an error operand that is not (provably) this error: the failure is lost or replaced by a later call's result"
					return true
				},
			}
			r := q.Run()
			switch {
			case r.Overflow:
				c.Undecided(construct, p.InstrPos(ci), "path search exceeded its state budget")
			case r.Found != nil:
				c.Fail(construct, p.InstrPos(ci), "when "+calleeName(ci)+" fails, the function "+bad, pathString(p, r.Path)...)
			default:
				c.OK(construct, p.InstrPos(ci), "every path with this error non-nil returns a non-nil error")
			}
		}
	}
	return sites
}

func errorfWrapsAny(v ssa.Value, st *AState) bool {
	call, ok := v.(*ssa.Call)
	if !ok {
		return false
	}
	if f := call.Call.StaticCallee(); f != nil && alwaysNonNilError(f, 0) {
		return true
	}
	return false
}

func allUnused(vs []ssa.Value) bool {
	for _, v := range vs {
		if refs := v.Referrers(); refs != nil && len(*refs) > 0 {
			return false
		}
	}
	return true
}

func describeInstr(in ssa.Instruction) string {
	if ci, ok := in.(ssa.CallInstruction); ok {
		return "a call of " + calleeName(ci)
	}
	return strings.SplitN(in.String(), "\n", 2)[0]
}

// evalTreeExempt: frozen exemptions of ERR-2, one construct and one reason each.
var evalTreeExempt = map[string]string{
	"(*ast.Expression).Evaluate / pkg.EvaluateLogicSingle": "probe: is the left operand a boolean that short-circuits? When it fails the error is superseded because EvaluateLogicAnd/Or re-tests the same operand and fails for the same cause two statements later",
}

func ruleERR2(c *Ctx) {
	a := c.eng()
	if a.reEval == nil || a.reExec == nil {
		c.AnchorLost("RuleEntry.Evaluate / Execute")
		return
	}
	funcs := c.reachableModuleFuncs([]*ssa.Function{a.reEval, a.reExec}, true)
	var fl []*ssa.Function
	for f := range funcs {
		switch fnPkgShort(f) {
		case "ast", "model", "pkg", "engine":
			fl = append(fl, f)
		}
	}
	sort.Slice(fl, func(i, j int) bool { return fl[i].String() < fl[j].String() })
	n := errDiscipline(c, fl, evalTreeExempt, nil)
	c.Notes = append(c.Notes, fmt.Sprintf("ERR-2 analysed %d call sites with an error result in %d module functions on the evaluation/action call tree", n, len(fl)))
}

var _ = types.Typ

// ERR-4: all recover barriers of module functions reachable from RuleEntry.Evaluate/Execute.
func ruleERR4(c *Ctx) {
	p := c.P
	a := c.eng()
	if a.reEval == nil || a.reExec == nil {
		c.AnchorLost("RuleEntry.Evaluate / Execute")
		return
	}
	funcs := c.reachableModuleFuncs([]*ssa.Function{a.reEval, a.reExec}, true)
	var fl []*ssa.Function
	for f := range funcs {
		fl = append(fl, f)
	}
	sort.Slice(fl, func(i, j int) bool { return fl[i].String() < fl[j].String() })
	for _, fn := range fl {
		for _, rb := range findRecoverBarriers(fn) {
			construct := fnName(fn) + " / recover barrier"
			// (a) the handler itself must not panic on the recovered value
			var unsafe []string
			for _, b := range rb.closure.Blocks {
				for _, in := range b.Instrs {
					if ta, ok := in.(*ssa.TypeAssert); ok && !ta.CommaOk && derivesFromValue(ta.X, rb.recoverRes) {
						unsafe = append(unsafe, "unchecked type assertion of the recovered value to "+ta.AssertedType.String()+" at "+p.InstrPos(in))
					}
					if pn, ok := in.(*ssa.Panic); ok {
						unsafe = append(unsafe, "re-panic at "+p.InstrPos(pn))
					}
				}
			}
			c.Check(len(unsafe) == 0, construct+" cannot itself panic on the recovered value", p.InstrPos(rb.deferInstr), "no unchecked type assertion / re-panic in the handler", "the recover handler can panic ("+strings.Join(unsafe, "; ")+"): a panic value that is not of that type escapes the engine")
			// (b) when the function reports errors, the handler must assign its error result
			if errResultIndex(fn.Signature) >= 0 {
				ok, why := barrierAssignsError(fn, rb, false, false)
				c.Check(ok, construct+" reports through the function's error result", p.InstrPos(rb.deferInstr), "assigns a non-nil error to the named error result", why+": a recovered panic is reported as success")
			}
		}
	}
}

func init() {
	register("ERR-3", "errors raised by RuleEntry.Evaluate name the rule", 3, ruleERR3)
	register("LDR-10", "rule header: name and salience reach the rule entry as declared", 3, ruleLDR10)
}

// ERR-3: every fresh error returned by RuleEntry.Evaluate (and the recover handlers of Evaluate/Execute) is built with
// the rule's name among its operands; Execute's pass-through of the action error is named by the engine's wrap (ENG-12).
func ruleERR3(c *Ctx) {
	p := c.P
	a := c.eng()
	fn := a.reEval
	if fn == nil {
		c.AnchorLost("RuleEntry.Evaluate")
		return
	}
	mentionsName := func(v ssa.Value) bool {
		return errorfMentions(v, func(y ssa.Value) bool {
			f, _ := fieldLoad(y)
			return f != nil && f.Name() == "RuleName"
		})
	}
	n := 0
	for _, ret := range returnsOf(fn) {
		if ret.Block().Comment == "recover" {
			continue
		}
		_, errv := returnOperandsThroughAllocs(ret)
		if errv == nil || isNilConst(errv) {
			continue
		}
		n++
		c.Check(mentionsName(errv), "RuleEntry.Evaluate / error at "+shortRetLabel(p, ret)+" names the rule", p.InstrPos(ret), "fmt.Errorf(... RuleName ...)", "an evaluation error is returned without the rule's name: with ReturnErrOnFailedRuleEvaluation set, Execute's error does not say which rule failed")
	}
	if n == 0 {
		c.Fail("RuleEntry.Evaluate / error returns", p.Pos(fn.Pos()), "no error return found (anchor lost)")
	}
}

// LDR-10: the declared name and salience are what ends up in the rule entry.
func ruleLDR10(c *Ctx) {
	p := c.P
	fn := p.Method("antlr", "GruleV3ParserListener", "ExitRuleEntry")
	if fn == nil {
		c.AnchorLost("ExitRuleEntry")
		return
	}
	ok := false
	for _, b := range fn.Blocks {
		for _, in := range b.Instrs {
			f, _, val := fieldStore(in)
			if f == nil || f.Name() != "RuleName" {
				continue
			}
			// ctx.RuleName().GetText()
			if call, isCall := val.(*ssa.Call); isCall && calleeNameIs(call, "GetText") {
				if inner, isCall2 := call.Call.Value.(*ssa.Call); isCall2 && calleeNameIs(inner, "RuleName") {
					ok = true
				}
			}
		}
	}
	c.Check(ok, "ExitRuleEntry / RuleName is the text of the ruleName token", p.Pos(fn.Pos()), "entry.RuleName = ctx.RuleName().GetText()", "the rule's name is not taken from its ruleName token")
	acc := p.Method("ast", "RuleEntry", "AcceptSalience")
	okS := false
	if acc != nil {
		for _, b := range acc.Blocks {
			for _, in := range b.Instrs {
				f, base, val := fieldStore(in)
				if f == nil || f.Name() != "Salience" || base != ssa.Value(receiver(acc)) {
					continue
				}
				sf, sb := fieldLoad(val)
				okS = sf != nil && sf.Name() == "SalienceValue" && len(acc.Params) > 1 && sb == ssa.Value(acc.Params[1])
			}
		}
	}
	c.Check(okS, "RuleEntry.AcceptSalience / Salience is the accepted node's value", "-", "e.Salience = salience.SalienceValue", "the rule's salience is not the declared value")
	ex := p.Method("antlr", "GruleV3ParserListener", "ExitSalience")
	okE := false
	if ex != nil {
		for _, ci := range callsIn(ex) {
			if calleeNameIs(ci, "AcceptSalience") {
				args := ci.Common().Args
				arg := args[len(args)-1]
				// the popped *ast.Salience
				okE = derivesFrom(arg, func(v ssa.Value) bool {
					call, isCall := v.(*ssa.Call)
					return isCall && calleeNameIs(call, "Pop")
				})
			}
		}
	}
	c.Check(okE, "ExitSalience / hands the parsed salience node to the rule entry", "-", "AcceptSalience(popped node)", "the salience node built from the literal is not the one accepted by the rule entry")
	// the literal lands in the node: Salience.AcceptIntegerLiteral stores int(lit.Integer)
	sal := p.Method("ast", "Salience", "AcceptIntegerLiteral")
	okL := false
	if sal != nil {
		for _, b := range sal.Blocks {
			for _, in := range b.Instrs {
				f, _, val := fieldStore(in)
				if f == nil || f.Name() != "SalienceValue" {
					continue
				}
				lf, lb := fieldLoad(stripConv(val))
				okL = lf != nil && lf.Name() == "Integer" && len(sal.Params) > 1 && lb == ssa.Value(sal.Params[1])
			}
		}
	}
	c.Check(okL, "Salience.AcceptIntegerLiteral / stores the literal's own value", "-", "SalienceValue = int(lit.Integer)", "the stored salience is not the literal's value")
}
