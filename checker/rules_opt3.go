package main

import (
	"fmt"
	"go/ast"
	"go/token"
	"go/types"
	"os"
	"path/filepath"
	"regexp"
	"sort"
	"strconv"
	"strings"

	"golang.org/x/tools/go/ssa"
)

func init() {
	register("OPT-7", "built-in dispatch tables of both back ends equal each other, the documentation and the expected library calls", 20, ruleOPT7)
	register("OPT-8", "arguments reach the callee in order", 3, ruleOPT8)
	register("OPT-11", "compound assignment chain: token, flag, snapshot symbol, arithmetic function and operand order agree", 7, ruleOPT11)
	register("OPT-12", "numeric store tables are coherent and shared by field and element stores", 20, ruleOPT12)
	register("OPT-13", "actions run in textual order, stop at the first error, one dispatch per action", 3, ruleOPT13)
}

// dispatchTables extracts, from a CallFunction method, every `switch funcName { case "X": v = F }` table.
// Returns tables in source order: name -> assigned function (or "" when the clause handles the call inline).
func dispatchTables(fd *ast.FuncDecl) []map[string]string {
	var out []map[string]string
	ast.Inspect(fd.Body, func(n ast.Node) bool {
		sw, ok := n.(*ast.SwitchStmt)
		if !ok || sw.Tag == nil {
			return true
		}
		if _, ok := sw.Tag.(*ast.Ident); !ok {
			return true
		}
		// a dispatch table: every case label is a string literal
		allStr := len(sw.Body.List) > 0
		for _, st := range sw.Body.List {
			for _, e := range st.(*ast.CaseClause).List {
				if bl, ok := e.(*ast.BasicLit); !ok || bl.Kind != token.STRING {
					allStr = false
				}
			}
		}
		if !allStr {
			return true
		}
		tab := map[string]string{}
		for _, st := range sw.Body.List {
			cc := st.(*ast.CaseClause)
			target := ""
			for _, s := range cc.Body {
				if as, ok := s.(*ast.AssignStmt); ok && len(as.Lhs) == 1 && len(as.Rhs) == 1 {
					if id, ok := as.Rhs[0].(*ast.Ident); ok && target == "" {
						if _, isIdent := as.Lhs[0].(*ast.Ident); isIdent && as.Tok == token.ASSIGN {
							target = id.Name
						}
					}
				}
			}
			if target == "" {
				// inline handling: remember the first method called
				ast.Inspect(cc, func(x ast.Node) bool {
					if call, ok := x.(*ast.CallExpr); ok && target == "" {
						if se, ok := call.Fun.(*ast.SelectorExpr); ok {
							target = "inline:" + se.Sel.Name
						}
					}
					return true
				})
			}
			for _, e := range cc.List {
				if bl, ok := e.(*ast.BasicLit); ok {
					k, _ := strconv.Unquote(bl.Value)
					tab[k] = target
				}
			}
		}
		out = append(out, tab)
		return true
	})
	return out
}

func (c *Ctx) methodDecl(short, typ, name string) *ast.FuncDecl {
	return c.P.FuncDecl(c.P.Method(short, typ, name))
}

// expectedStrLib: GRL string function -> (helper, library callee, index of the argument that must be the receiver string).
var expectedStrLib = map[string][3]string{
	"In":          {"StrIn", "", ""},
	"Compare":     {"StrCompare", "strings.Compare", "0"},
	"Contains":    {"StrContains", "strings.Contains", "0"},
	"Count":       {"StrCount", "strings.Count", "0"},
	"HasPrefix":   {"StrHasPrefix", "strings.HasPrefix", "0"},
	"HasSuffix":   {"StrHasSuffix", "strings.HasSuffix", "0"},
	"Index":       {"StrIndex", "strings.Index", "0"},
	"LastIndex":   {"StrLastIndex", "strings.LastIndex", "0"},
	"Repeat":      {"StrRepeat", "strings.Repeat", "0"},
	"Replace":     {"StrReplace", "strings.ReplaceAll", "0"}, // documented as replacing every occurrence
	"Split":       {"StrSplit", "strings.Split", "0"},
	"ToLower":     {"StrToLower", "strings.ToLower", "0"},
	"ToUpper":     {"StrToUpper", "strings.ToUpper", "0"},
	"Trim":        {"StrTrim", "strings.TrimSpace", "0"}, // documented as trimming white space on both ends
	"Len":         {"StrLen", "len", "0"},
	"MatchString": {"StrMatchRegexPattern", "regexp.MatchString", "1"}, // regexp.MatchString(pattern, s): the receiver is the subject
}

// docFunctionHeadings: headings `### prefix.Name(` of docs/en/Function_en.md by prefix; and built-ins `### Name(params)`.
func docFunctionHeadings(repo string) (map[string][]string, map[string]int, error) {
	b, err := os.ReadFile(filepath.Join(repo, "docs", "en", "Function_en.md"))
	if err != nil {
		return nil, nil, err
	}
	byPrefix := map[string][]string{}
	builtins := map[string]int{}
	section := ""
	re1 := regexp.MustCompile(`^### (string|array|map)\.([A-Za-z]+)\(`)
	re2 := regexp.MustCompile(`^### ([A-Z][A-Za-z0-9]*)\(([^)]*)\)`)
	for _, line := range strings.Split(string(b), "\n") {
		if strings.HasPrefix(line, "## ") {
			section = strings.TrimSpace(strings.TrimPrefix(line, "## "))
			continue
		}
		if m := re1.FindStringSubmatch(line); m != nil {
			byPrefix[m[1]] = append(byPrefix[m[1]], m[2])
			continue
		}
		if section == "Built-In Functions" {
			if m := re2.FindStringSubmatch(line); m != nil {
				n := 0
				params := strings.TrimSpace(m[2])
				if params != "" {
					n = len(strings.Split(params, ","))
				}
				builtins[m[1]] = n
			}
		}
	}
	return byPrefix, builtins, nil
}

func sortedKeysS(m map[string]string) []string {
	var out []string
	for k := range m {
		out = append(out, k)
	}
	sort.Strings(out)
	return out
}

func ruleOPT7(c *Ctx) {
	p := c.P
	gfd := c.methodDecl("model", "GoValueNode", "CallFunction")
	jfd := c.methodDecl("model", "JSONValueNode", "CallFunction")
	if gfd == nil || jfd == nil {
		c.AnchorLost("CallFunction of GoValueNode / JSONValueNode")
		return
	}
	gt, jt := dispatchTables(gfd), dispatchTables(jfd)
	if len(gt) < 3 || len(jt) < 3 {
		c.Fail("CallFunction / dispatch tables", p.Pos(gfd.Pos()), fmt.Sprintf("expected string, array and map tables in both back ends (found %d and %d)", len(gt), len(jt)))
		return
	}
	doc, builtins, err := docFunctionHeadings(p.RepoDir)
	if err != nil {
		c.Fail("docs / function headings", "docs/en/Function_en.md", err.Error())
		return
	}
	labels := []string{"string", "array", "map"}
	for i, lab := range labels {
		g, j := gt[i], jt[i]
		d := append([]string{}, doc[lab]...)
		sort.Strings(d)
		same := strings.Join(sortedKeysS(g), ",") == strings.Join(sortedKeysS(j), ",")
		sameDoc := strings.Join(sortedKeysS(g), ",") == strings.Join(d, ",")
		c.Check(same && sameDoc, lab+" functions / Go back end, JSON back end and documentation list the same names", p.Pos(gfd.Pos()), strings.Join(sortedKeysS(g), ","), fmt.Sprintf("tables disagree: Go [%s] JSON [%s] docs [%s]", strings.Join(sortedKeysS(g), ","), strings.Join(sortedKeysS(j), ","), strings.Join(d, ",")))
		for _, name := range sortedKeysS(g) {
			if g[name] != j[name] {
				c.Fail(lab+"."+name+" / same helper in both back ends", p.Pos(jfd.Pos()), fmt.Sprintf("Go back end dispatches to %s, JSON back end to %s", g[name], j[name]))
			}
		}
	}
	// string helpers: name -> helper -> library call with the receiver in the right position
	for _, name := range sortedKeysS(gt[0]) {
		exp, known := expectedStrLib[name]
		construct := "string." + name + " / dispatches to the matching helper and library function"
		if !known {
			c.Fail(construct, p.Pos(gfd.Pos()), "string function "+name+" is not in the table of expected helpers (new built-in: extend the table after reading it)")
			continue
		}
		if gt[0][name] != exp[0] {
			c.Fail(construct, p.Pos(gfd.Pos()), fmt.Sprintf("%q dispatches to %s, expected %s", name, gt[0][name], exp[0]))
			continue
		}
		h := p.Func("model", exp[0])
		if h == nil {
			c.Fail(construct, p.Pos(gfd.Pos()), "helper "+exp[0]+" not found")
			continue
		}
		if exp[1] == "" {
			c.OK(construct, p.Pos(h.Pos()), exp[0]+" (own implementation)")
			continue
		}
		ok := false
		for _, ci := range callsIn(h) {
			call, isCall := ci.(*ssa.Call)
			if !isCall {
				continue
			}
			cn := ""
			if bi, isB := call.Call.Value.(*ssa.Builtin); isB {
				cn = bi.Name()
			} else if f := call.Call.StaticCallee(); f != nil {
				cn = f.String()
			}
			if cn != exp[1] {
				continue
			}
			idx, _ := strconv.Atoi(exp[2])
			if idx < len(call.Call.Args) && call.Call.Args[idx] == ssa.Value(h.Params[0]) {
				// the result of the helper derives from this call
				for _, ret := range returnsOf(h) {
					if isNilConst(ret.Results[1]) && derivesFromArgsAny(ret.Results[0], call) {
						ok = true
					}
				}
			}
		}
		c.Check(ok, construct, p.Pos(h.Pos()), exp[0]+" -> "+exp[1]+" with the receiver as argument "+exp[2], exp[0]+" does not return the result of "+exp[1]+" applied to the receiver string in position "+exp[2])
	}
	// documented built-ins exist with the documented arity
	bt := p.Named("ast", "BuiltInFunctions")
	var bnames []string
	for n := range builtins {
		bnames = append(bnames, n)
	}
	sort.Strings(bnames)
	for _, n := range bnames {
		m := p.Method("ast", "BuiltInFunctions", n)
		ok := m != nil && bt != nil
		if ok {
			got := m.Signature.Params().Len()
			ok = got == builtins[n] || (m.Signature.Variadic() && builtins[n] >= got-1)
		}
		c.Check(ok, "built-in "+n+" exists with the documented arity", "docs/en/Function_en.md", fmt.Sprintf("%d parameter(s)", builtins[n]), "the documented built-in "+n+" is missing or takes another number of arguments")
	}
}

// derivesFromArgsAny: v derives from w through calls (reflect.ValueOf(x)), conversions and phis.
func derivesFromArgsAny(v ssa.Value, w ssa.Value) bool {
	found := false
	backSliceKeys(v, func(x ssa.Value) bool {
		if x == w {
			found = true
		}
		return !found
	})
	return found
}

func ruleOPT8(c *Ctx) {
	p := c.P
	fn := p.Method("ast", "ArgumentList", "Evaluate")
	if fn == nil {
		c.AnchorLost("ArgumentList.Evaluate")
		return
	}
	argsF := p.Field("ast", "ArgumentList", "Arguments")
	okLen, okStore := false, false
	var theSlice *ssa.MakeSlice
	for _, b := range fn.Blocks {
		for _, in := range b.Instrs {
			if ms, ok := in.(*ssa.MakeSlice); ok {
				if call, ok := ms.Len.(*ssa.Call); ok {
					if bi, ok := call.Call.Value.(*ssa.Builtin); ok && bi.Name() == "len" {
						if f, _ := fieldLoad(call.Call.Args[0]); f == argsF {
							okLen = true
							theSlice = ms
						}
					}
				}
			}
		}
	}
	for _, l := range naturalLoops(fn) {
		x := rangeOperand(l)
		if x == nil {
			continue
		}
		if f, _ := fieldLoad(x); f != argsF {
			continue
		}
		for b := range l.Blocks {
			for _, in := range b.Instrs {
				st, ok := in.(*ssa.Store)
				if !ok {
					continue
				}
				ia, ok := st.Addr.(*ssa.IndexAddr)
				if !ok || theSlice == nil || !derivesFromValue(ia.X, theSlice) {
					continue
				}
				// index is the loop's own index, value is the evaluation of the element at that index
				elemIdx := ssa.Value(nil)
				okVal := derivesFrom(st.Val, func(v ssa.Value) bool {
					call, isCall := v.(*ssa.Call)
					if !isCall || !calleeNameIs(call, "Evaluate") || len(call.Call.Args) == 0 {
						return false
					}
					s, idx := elemOfSlice(call.Call.Args[0])
					if s == x {
						elemIdx = idx
						return true
					}
					return false
				})
				if okVal && elemIdx != nil && ia.Index == elemIdx {
					okStore = true
				}
			}
		}
	}
	c.Check(okLen && okStore, "ArgumentList.Evaluate / i-th value stored at index i of a slice of len(Arguments)", p.Pos(fn.Pos()), "values[i] = Arguments[i].Evaluate()", "argument values are not stored position by position")
	// every argument is evaluated: the loop over Arguments ends by exhaustion or by returning an error, and the store
	// happens on every iteration that does not
	okAllArgs, whyArgs := false, "no range loop over Arguments"
	loopsA := naturalLoops(fn)
	for _, l := range loopsA {
		x := rangeOperand(l)
		if x == nil {
			continue
		}
		if f, _ := fieldLoad(x); f != argsF {
			continue
		}
		okAllArgs, whyArgs = true, ""
		for _, ex := range l.Exits() {
			eb := ex[0].(*ssa.BasicBlock)
			si := ex[1].(int)
			if eb == l.Header {
				continue
			}
			if !onlyErrorReturns(eb.Succs[si], loopsA) {
				okAllArgs = false
				whyArgs = "the loop over Arguments can be left early without an error (from block " + eb.Comment + "): later arguments are not evaluated and the callee gets zero values in their place"
			}
		}
	}
	c.Check(okAllArgs, "ArgumentList.Evaluate / every argument is evaluated unless one fails", p.Pos(fn.Pos()), "loop ends by exhaustion or an error return", whyArgs)
	// on every call: the list keeps no values of its own (it has no invalidation protocol; the argument expressions
	// are shared nodes, so "all arguments are still remembered" does not mean "nobody re-evaluated one in between").
	// Every success return hands out the slice made in this call, and none is reached around the loop.
	okFresh, whyFresh := true, ""
	for _, r := range returnsOf(fn) {
		if returnsNonNilError(r) || len(r.Results) < 1 {
			continue
		}
		if isNilConst(r.Results[0]) {
			continue
		}
		fresh := false
		backSlice(r.Results[0], func(v ssa.Value) bool {
			switch v.(type) {
			case *ssa.MakeSlice, *ssa.Alloc:
				fresh = true
				return false
			}
			if f, _ := fieldLoad(v); f != nil {
				whyFresh = "a success return hands out what is kept in the field " + f.Name() + ": the values of an earlier evaluation reach the callee (C.X + 1 > 2 && C.Over(C.X + 1): the shared operand is re-evaluated by the comparison, the call still gets the old value)"
				okFresh = false
				return false
			}
			return true
		})
		if !fresh && okFresh {
			okFresh, whyFresh = false, "a success return does not hand out a slice made in this call"
		}
	}
	for _, l := range loopsA {
		if f, _ := fieldLoad(rangeOperand(l)); f != argsF {
			continue
		}
		if t, _ := reach(fn, nil, func(in ssa.Instruction) bool {
			r, ok := in.(*ssa.Return)
			return ok && !returnsNonNilError(r)
		}, func(in ssa.Instruction) bool { return in.Block() == l.Header && instrIndex(in) == 0 }, nil); t != nil && okFresh {
			okFresh, whyFresh = false, "a success return at "+p.InstrPos(t)+" is reached without running the loop over Arguments"
		}
	}
	c.Check(okFresh, "ArgumentList.Evaluate / the values handed out are collected in this call", p.Pos(fn.Pos()), "fresh slice, loop on every path to a success return", whyFresh)
	// the evaluated slice reaches CallFunction unchanged
	atom := p.Method("ast", "ExpressionAtom", "Evaluate")
	if atom == nil {
		c.AnchorLost("ExpressionAtom.Evaluate")
		return
	}
	n, okAll := 0, true
	for _, ci := range callsIn(atom) {
		if !calleeNameIs(ci, "CallFunction") {
			continue
		}
		n++
		args := ci.Common().Args
		va := args[len(args)-1]
		direct := false
		if ex, ok := va.(*ssa.Extract); ok && ex.Index == 0 {
			if call, ok := ex.Tuple.(*ssa.Call); ok && calleeNameIs(call, "EvaluateArgumentList") {
				direct = true
			}
		}
		if !direct {
			okAll = false
		}
		// and the function name is the call's own name
		f, _ := fieldLoad(args[len(args)-2])
		if f == nil || f.Name() != "FunctionName" {
			okAll = false
		}
	}
	c.Check(okAll && n >= 2, "ExpressionAtom.Evaluate / evaluated arguments are passed on unchanged under the call's own name", p.Pos(atom.Pos()), fmt.Sprintf("%d CallFunction sites take FunctionName and the EvaluateArgumentList result", n), "the argument slice or the function name is altered between evaluation and the call")
	eal := p.Method("ast", "FunctionCall", "EvaluateArgumentList")
	okE := false
	if eal != nil {
		for _, ret := range returnsOf(eal) {
			if isNilConst(ret.Results[1]) {
				if ex, ok := ret.Results[0].(*ssa.Extract); ok && ex.Index == 0 {
					if call, ok := ex.Tuple.(*ssa.Call); ok && calleeNameIs(call, "Evaluate") {
						okE = true
					}
				}
			}
		}
	}
	c.Check(okE, "FunctionCall.EvaluateArgumentList / returns the argument list's values as they are", "-", "returns ArgumentList.Evaluate()'s slice", "the evaluated arguments are re-packed")
}

// ---------- OPT-11 ----------

func ruleOPT11(c *Ctx) {
	p := c.P
	lits, _ := grammarLiterals(p.RepoDir)
	tokenLit := map[string]string{}
	for l, t := range lits {
		tokenLit[t] = l
	}
	// listener: flag <- token
	lfd := c.methodDecl("antlr", "GruleV3ParserListener", "ExitAssignment")
	sfd := c.methodDecl("ast", "Assignment", "GetSnapshot")
	efn := p.Method("ast", "Assignment", "Execute")
	if lfd == nil || sfd == nil || efn == nil {
		c.AnchorLost("ExitAssignment / Assignment.GetSnapshot / Assignment.Execute")
		return
	}
	flagToken := map[string]string{}
	ast.Inspect(lfd.Body, func(n ast.Node) bool {
		as, ok := n.(*ast.AssignStmt)
		if !ok || len(as.Lhs) != 1 || len(as.Rhs) != 1 {
			return true
		}
		lse, ok := as.Lhs[0].(*ast.SelectorExpr)
		if !ok || !strings.HasPrefix(lse.Sel.Name, "Is") || !strings.HasSuffix(lse.Sel.Name, "Assign") {
			return true
		}
		if be, ok := as.Rhs[0].(*ast.BinaryExpr); ok && be.Op == token.NEQ {
			if call, ok := be.X.(*ast.CallExpr); ok {
				if se, ok := call.Fun.(*ast.SelectorExpr); ok {
					flagToken[lse.Sel.Name] = se.Sel.Name
				}
			}
		}
		return true
	})
	flagSymbol := map[string]string{}
	ast.Inspect(sfd.Body, func(n ast.Node) bool {
		is, ok := n.(*ast.IfStmt)
		if !ok {
			return true
		}
		if se, ok := is.Cond.(*ast.SelectorExpr); ok && strings.HasPrefix(se.Sel.Name, "Is") {
			flagSymbol[se.Sel.Name] = firstStringLit(is.Body)
		}
		return true
	})
	// Execute: flag -> arithmetic function (SSA: If on load of flag; in its true region a pkg.Evaluate* call and Variable.Assign)
	assignFn := p.Method("ast", "Variable", "Assign")
	varEval := findCalls(efn, matchNamedMethod(fullPkg("ast"), "Variable", "Evaluate"))
	exprEval := findCalls(efn, matchNamedMethod(fullPkg("ast"), "Expression", "Evaluate"))
	flagFunc := map[string]string{}
	flagOK := map[string]string{}
	for _, b := range efn.Blocks {
		iff, isIf := b.Instrs[len(b.Instrs)-1].(*ssa.If)
		if !isIf {
			continue
		}
		f, base := fieldLoad(iff.Cond)
		if f == nil || base != ssa.Value(receiver(efn)) || !strings.HasPrefix(f.Name(), "Is") {
			continue
		}
		tb := b.Succs[0]
		var arith *ssa.Call
		var asg ssa.CallInstruction
		for _, bb := range efn.Blocks {
			if !tb.Dominates(bb) {
				continue
			}
			for _, in := range bb.Instrs {
				call, isCall := in.(*ssa.Call)
				if !isCall {
					continue
				}
				if callee := call.Call.StaticCallee(); callee != nil {
					if fnPkgShort(callee) == "pkg" && strings.HasPrefix(publicName(callee), "Evaluate") {
						arith = call
					}
					if callee == assignFn {
						asg = call
					}
				}
			}
		}
		name := f.Name()
		// every path of the branch that does not fail ends in Variable.Assign: no `nothing to do` shortcut
		skips := false
		if asg != nil {
			t, _ := reach(efn, tb.Instrs[0], func(in ssa.Instruction) bool {
				ret, isRet := in.(*ssa.Return)
				if !isRet {
					return false
				}
				if ret.Results[0] == asg.Value() {
					return false
				}
				return !returnsNonNilError(ret)
			}, func(in ssa.Instruction) bool { return in == asg.(ssa.Instruction) }, func(bb *ssa.BasicBlock, si int) bool {
				return tb.Dominates(bb.Succs[si])
			})
			if isRetNilAtStart(tb, asg) {
				skips = true
			}
			if t != nil {
				skips = true
			}
		}
		switch {
		case skips:
			flagOK[name] = "the branch can return success without calling Variable.Assign: on that path the assignment is silently skipped (any `nothing to do` test is coarser than identity of value, kind and location)"
		case asg == nil:
			flagOK[name] = "no Variable.Assign in this branch"
		case arith == nil:
			flagFunc[name] = ""
			// plain assignment: assigns the expression's value
			if len(exprEval) == 1 && derivesFromValue(asg.Common().Args[1], exprEval[0].Value()) {
				flagOK[name] = "ok"
			} else {
				flagOK[name] = "the assigned value is not the right-hand side's value"
			}
		default:
			flagFunc[name] = publicName(arith.Call.StaticCallee())
			okOperands := len(varEval) >= 1 && len(exprEval) == 1 && derivesFromValue(arith.Call.Args[0], varEval[0].Value()) && derivesFromValue(arith.Call.Args[1], exprEval[0].Value())
			okResult := derivesFromValue(asg.Common().Args[1], arith)
			switch {
			case !okOperands:
				flagOK[name] = "operands are not (current value of the variable, value of the right-hand side) in this order"
			case !okResult:
				flagOK[name] = "the assigned value is not the arithmetic result"
			default:
				flagOK[name] = "ok"
			}
		}
	}
	var flags []string
	if st, ok := p.Named("ast", "Assignment").Underlying().(*types.Struct); ok {
		for i := 0; i < st.NumFields(); i++ {
			if n := st.Field(i).Name(); strings.HasPrefix(n, "Is") && strings.HasSuffix(n, "Assign") {
				flags = append(flags, n)
			}
		}
	}
	sort.Strings(flags)
	for _, fl := range flags {
		tok := flagToken[fl]
		lit := tokenLit[tok]
		sym := flagSymbol[fl]
		fn, hasFn := flagFunc[fl]
		want := "="
		if fn != "" {
			want = evalFuncSpelling(fn) + "="
		}
		ok := tok != "" && lit != "" && lit == sym && hasFn && want == lit && flagOK[fl] == "ok"
		c.Check(ok, "assignment form "+fl+" / token, snapshot symbol and arithmetic agree", p.Pos(efn.Pos()), fmt.Sprintf("%s `%s` -> %s -> snapshot `%s` -> %s", tok, lit, fl, sym, map[bool]string{true: fn, false: "direct assign"}[fn != ""]),
			fmt.Sprintf("compound assignment chain broken for %s: token %s (`%s`), snapshot `%s`, Execute applies %q (`%s`), %s", fl, tok, lit, sym, fn, want, flagOK[fl]))
	}
	// the right-hand side is evaluated before the variable is read
	okOrder := len(exprEval) == 1 && len(varEval) >= 1
	for _, ve := range varEval {
		if okOrder && !(exprEval[0].Block().Dominates(ve.Block()) && (exprEval[0].Block() != ve.Block() || instrIndex(exprEval[0].(ssa.Instruction)) < instrIndex(ve.(ssa.Instruction)))) {
			okOrder = false
		}
	}
	c.Check(okOrder, "Assignment.Execute / right-hand side evaluated before the variable is read", p.Pos(efn.Pos()), "Expression.Evaluate dominates Variable.Evaluate", "the variable's current value is read before the right-hand side is evaluated")
	// addressing: Variable.Assign and Variable.Evaluate use the same three-way shape test
	c.Check(len(flags) == 5, "Assignment / five assignment forms", p.Pos(efn.Pos()), strings.Join(flags, ","), "expected five Is*Assign flags")
}

// ---------- OPT-12 ----------

// numericStoreTable extracts target class x source class -> setter expression from a function containing
// `switch <target>.Type().Kind() { case ints: if GetBaseKind(src) == reflect.Uint64 {...} else if ... }`.
func numericStoreTable(fd *ast.FuncDecl) (map[string]string, []string) {
	tab := map[string]string{}
	var problems []string
	ast.Inspect(fd.Body, func(n ast.Node) bool {
		sw, ok := n.(*ast.SwitchStmt)
		if !ok || sw.Tag == nil || !strings.HasSuffix(types.ExprString(sw.Tag), ".Kind()") {
			return true
		}
		isStore := false
		for _, st := range sw.Body.List {
			cc := st.(*ast.CaseClause)
			if cc.List == nil {
				continue
			}
			T := kindClass(cc.List)
			if !isNumClass(T) && !strings.HasPrefix(T, "partial") {
				continue
			}
			// walk the if / else-if chain
			for _, s := range cc.Body {
				is, ok := s.(*ast.IfStmt)
				if !ok {
					continue
				}
				for is != nil {
					S := "?"
					cond := types.ExprString(is.Cond)
					switch {
					case strings.Contains(cond, "== reflect.Uint64"):
						S = "uint"
					case strings.Contains(cond, "== reflect.Float64"):
						S = "float"
					case strings.Contains(cond, "== reflect.Int64"):
						S = "int"
					}
					if e := setterExpr(is.Body); e != "" {
						tab[T+"<-"+S] = e
						isStore = true
					}
					switch el := is.Else.(type) {
					case *ast.IfStmt:
						is = el
					case *ast.BlockStmt:
						if e := setterExpr(el); e != "" {
							tab[T+"<-int"] = e
						}
						is = nil
					default:
						is = nil
					}
				}
			}
		}
		return !isStore
	})
	return tab, problems
}

func setterExpr(b *ast.BlockStmt) string {
	for _, s := range b.List {
		if es, ok := s.(*ast.ExprStmt); ok {
			if call, ok := es.X.(*ast.CallExpr); ok {
				if se, ok := call.Fun.(*ast.SelectorExpr); ok && strings.HasPrefix(se.Sel.Name, "Set") && len(call.Args) == 1 {
					return se.Sel.Name + "(" + normaliseOperand(call.Args[0]) + ")"
				}
			}
		}
	}
	return ""
}

// normaliseOperand renders `conv(src.Acc())` as conv(Acc) / Acc.
func normaliseOperand(e ast.Expr) string {
	if call, ok := e.(*ast.CallExpr); ok {
		if id, ok := call.Fun.(*ast.Ident); ok && len(call.Args) == 1 {
			return id.Name + "(" + normaliseOperand(call.Args[0]) + ")"
		}
		if se, ok := call.Fun.(*ast.SelectorExpr); ok && len(call.Args) == 0 {
			return se.Sel.Name
		}
	}
	return types.ExprString(e)
}

var expectedStore = map[string]string{
	"int<-int": "SetInt(Int)", "int<-uint": "SetInt(int64(Uint))", "int<-float": "SetInt(int64(Float))",
	"uint<-int": "SetUint(uint64(Int))", "uint<-uint": "SetUint(Uint)", "uint<-float": "SetUint(uint64(Float))",
	"float<-int": "SetFloat(float64(Int))", "float<-uint": "SetFloat(float64(Uint))", "float<-float": "SetFloat(Float)",
}

func ruleOPT12(c *Ctx) {
	p := c.P
	f1, _ := c.pkgFuncDecl("model", "SetNumberValue")
	f2, _ := c.pkgFuncDecl("pkg", "SetAttributeValue")
	if f1 == nil || f2 == nil {
		c.AnchorLost("model.SetNumberValue / pkg.SetAttributeValue")
		return
	}
	for _, spec := range []struct {
		name string
		fd   *ast.FuncDecl
	}{{"model.SetNumberValue", f1}, {"pkg.SetAttributeValue", f2}} {
		tab, _ := numericStoreTable(spec.fd)
		var keys []string
		for k := range expectedStore {
			keys = append(keys, k)
		}
		sort.Strings(keys)
		for _, k := range keys {
			got := tab[k]
			c.Check(got == expectedStore[k], spec.name+" / cell "+k, p.Pos(spec.fd.Pos()), got, fmt.Sprintf("numeric store cell %s is `%s`, expected `%s`: the value is read with the wrong accessor, set with the wrong setter, or converted through another type (loses precision or sign)", k, got, expectedStore[k]))
		}
		for k := range tab {
			if _, ok := expectedStore[k]; !ok {
				c.Fail(spec.name+" / cell "+k, p.Pos(spec.fd.Pos()), "unexpected cell (incomplete width set or unknown source class): "+tab[k])
			}
		}
	}
	// routes: field and element stores send number -> number through SetNumberValue
	snv := p.Func("model", "SetNumberValue")
	for _, m := range []string{"SetObjectValueByField", "SetArrayValueAt"} {
		fn := p.Method("model", "GoValueNode", m)
		if fn == nil || snv == nil {
			c.AnchorLost("(*model.GoValueNode)." + m)
			continue
		}
		calls := findCalls(fn, matchStatic(snv))
		ok := len(calls) >= 1
		for _, ci := range calls {
			// the new value parameter is passed as the source
			args := ci.Common().Args
			if len(args) != 2 || unspill(args[1]) != ssa.Value(fn.Params[2]) {
				ok = false
			}
		}
		// a plain reflect Set of the new value must not be reachable when both are numbers: the Set call is preceded by the IsNumber tests
		c.Check(ok, "GoValueNode."+m+" / number to number goes through SetNumberValue", p.Pos(fn.Pos()), fmt.Sprintf("%d call(s) with the new value as source", len(calls)), "numeric stores bypass the shared conversion table (reflect.Set panics or rejects on width mismatch)")
	}
}

// ---------- OPT-13 ----------

func ruleOPT13(c *Ctx) {
	p := c.P
	fn := p.Method("ast", "ThenExpressionList", "Execute")
	if fn == nil {
		c.AnchorLost("ThenExpressionList.Execute")
		return
	}
	te := p.Field("ast", "ThenExpressionList", "ThenExpressions")
	ok := false
	why := "no range over ThenExpressions"
	loops := naturalLoops(fn)
	for _, l := range loops {
		x := rangeOperand(l)
		if x == nil {
			continue
		}
		if f, base := fieldLoad(x); f != te || base != ssa.Value(receiver(fn)) {
			continue
		}
		// forward: index phi starts at -1/0 and is incremented by 1
		fwd := false
		for _, in := range l.Header.Instrs {
			if bo, isBo := in.(*ssa.BinOp); isBo && bo.Op == token.ADD {
				if k, okk := constInt(bo.Y); okk && k == 1 {
					fwd = true
				}
			}
		}
		calls := findCalls(fn, matchNamedMethod(fullPkg("ast"), "ThenExpression", "Execute"))
		if len(calls) != 1 || !l.Blocks[calls[0].Block()] {
			why = "expected exactly one ThenExpression.Execute call inside the loop"
			continue
		}
		call := calls[0]
		elemOK := false
		if s, _ := elemOfSlice(call.Common().Args[0]); s == x {
			elemOK = true
		}
		every := passesOnEveryIteration(l, call.(ssa.Instruction))
		// exits: exhaustion, or return of the action's own error on its non-nil edge
		exitsOK := true
		for _, ex := range l.Exits() {
			b := ex[0].(*ssa.BasicBlock)
			if b == l.Header {
				continue
			}
			tgt := b.Succs[ex[1].(int)]
			ret, isRet := tgt.Instrs[len(tgt.Instrs)-1].(*ssa.Return)
			errv := resultValues(call, 0)
			if !isRet || len(errv) == 0 || ret.Results[0] != errv[0] || !dominatedByNonNilTest(tgt, errv[0]) {
				exitsOK = false
			}
		}
		// a failing action ends the list: with its error pending neither the next action nor a nil return is reachable
		errv := resultValues(call, 0)
		q := &AQuery{Fn: fn, From: call.(ssa.Instruction), Designated: errv, Assume: AssumeNonNil,
			IsTarget: func(in ssa.Instruction, st *AState) bool {
				if in == call.(ssa.Instruction) {
					return true
				}
				ret, isRet := in.(*ssa.Return)
				return isRet && st.Tri(ret.Results[0]) != TriNonNil
			}}
		if r := q.Run(); r.Found != nil || len(errv) == 0 {
			exitsOK = false
		}
		// after exhaustion: nil
		if fwd && elemOK && every && exitsOK {
			ok = true
		} else {
			why = fmt.Sprintf("forward=%v element=%v everyIteration=%v exitsOnlyOnError=%v", fwd, elemOK, every, exitsOK)
		}
	}
	c.Check(ok, "ThenExpressionList.Execute / one forward pass, stops at the first failing action", p.Pos(fn.Pos()), "range over ThenExpressions; Execute on each element; leaves only by exhaustion or returning that action's error", "action list execution broken: "+why)
	// ThenExpression.Execute: exactly one of assignment / atom
	tfn := p.Method("ast", "ThenExpression", "Execute")
	if tfn == nil {
		c.AnchorLost("ThenExpression.Execute")
		return
	}
	asg := findCalls(tfn, matchNamedMethod(fullPkg("ast"), "Assignment", "Execute"))
	atm := findCalls(tfn, matchNamedMethod(fullPkg("ast"), "ExpressionAtom", "Evaluate"))
	one := len(asg) == 1 && len(atm) == 1
	if one {
		// no path executes both
		t, _ := reach(tfn, asg[0].(ssa.Instruction), func(in ssa.Instruction) bool { return in == atm[0].(ssa.Instruction) }, nil, nil)
		t2, _ := reach(tfn, atm[0].(ssa.Instruction), func(in ssa.Instruction) bool { return in == asg[0].(ssa.Instruction) }, nil, nil)
		one = t == nil && t2 == nil
	}
	c.Check(one, "ThenExpression.Execute / dispatches to exactly one of assignment and call", p.Pos(tfn.Pos()), "one Assignment.Execute and one ExpressionAtom.Evaluate site, mutually exclusive", "an action can run both as assignment and as call, or neither site exists")
	// the addressing forms of Assign and Evaluate are siblings: same three shape tests
	av := p.Method("ast", "Variable", "Assign")
	ev := p.Method("ast", "Variable", "Evaluate")
	if av != nil && ev != nil {
		sa, se := shapeTests(av), shapeTests(ev)
		c.Check(sa == se && sa != "", "Variable.Assign / Variable.Evaluate use the same addressing shape tests", p.Pos(av.Pos()), sa, "the write path addresses a variable by other shape tests ("+sa+") than the read path ("+se+"): an assignment may write another location than the one a condition reads")
	}
}

// shapeTests renders the sequence of top-level `if` conditions of a Variable method that test Name/Variable/ArrayMapSelector.
func shapeTests(fn *ssa.Function) string {
	fd, ok := fn.Syntax().(*ast.FuncDecl)
	if !ok {
		return ""
	}
	var out []string
	recvName := "e"
	if fd.Recv != nil && len(fd.Recv.List) == 1 && len(fd.Recv.List[0].Names) == 1 {
		recvName = fd.Recv.List[0].Names[0].Name
	}
	for _, st := range fd.Body.List {
		if is, ok := st.(*ast.IfStmt); ok {
			cond := renameExpr(is.Cond, recvName, "")
			cond = strings.ReplaceAll(cond, "L.", "e.") // renameExpr names the first identifier L
			if strings.Contains(cond, "e.Name") || strings.Contains(cond, "e.Variable") || strings.Contains(cond, "e.ArrayMapSelector") {
				// conjunct order is irrelevant
				parts := strings.Split(cond, " && ")
				sort.Strings(parts)
				out = append(out, strings.Join(parts, " && "))
			}
		}
	}
	return strings.Join(out, " ; ")
}

func init() {
	register("ASG-1", "each fact-write sink receives the variable's own name / selector, the new value, and an up-to-date parent; no success path around the write", 8, ruleASG1)
}

// ASG-1 (C04): addressing of the write. In Variable.Assign every sink call must name exactly the addressed location.
func ruleASG1(c *Ctx) {
	p := c.P
	fn := p.Method("ast", "Variable", "Assign")
	if fn == nil {
		c.AnchorLost("(*ast.Variable).Assign")
		return
	}
	recv := ssa.Value(receiver(fn))
	newVal := ssa.Value(fn.Params[1])
	sink, _ := c.sinkMatcher()
	nameF := p.Field("ast", "Variable", "Name")
	varF := p.Field("ast", "Variable", "Variable")
	selF := p.Field("ast", "Variable", "ArrayMapSelector")
	vnF := p.Field("ast", "Variable", "ValueNode")
	selValF := p.Field("ast", "ArrayMapSelector", "Value")
	isOwn := func(v ssa.Value, f *types.Var) bool {
		lf, base := fieldLoad(v)
		return lf == f && base == recv
	}
	parentNode := func(v ssa.Value) bool {
		// e.Variable.ValueNode
		lf, base := fieldLoad(v)
		return lf == vnF && isOwn(base, varF)
	}
	selectorValue := func(v ssa.Value) bool {
		found := false
		backSliceKeys(v, func(x ssa.Value) bool {
			if lf, base := fieldLoad(x); lf == selValF && isOwn(base, selF) {
				found = true
			}
			return !found
		})
		return found
	}
	parentEval := findCalls(fn, func(ci ssa.CallInstruction) bool {
		return matchNamedMethod(fullPkg("ast"), "Variable", "Evaluate")(ci) && isOwn(ci.Common().Args[0], varF)
	})
	selEval := findCalls(fn, func(ci ssa.CallInstruction) bool {
		return matchNamedMethod(fullPkg("ast"), "ArrayMapSelector", "Evaluate")(ci) && isOwn(ci.Common().Args[0], selF)
	})
	dominatedByOneOf := func(calls []ssa.CallInstruction, in ssa.Instruction) bool {
		for _, ci := range calls {
			if ci.Block().Dominates(in.Block()) && (ci.Block() != in.Block() || instrIndex(ci.(ssa.Instruction)) < instrIndex(in)) {
				return true
			}
		}
		return false
	}
	n := 0
	for _, ci := range findCalls(fn, sink) {
		n++
		cc := ci.Common()
		name := calleeName(ci)
		construct := "Variable.Assign / " + name + " addresses the assigned location"
		var problems []string
		args := cc.Args
		if !cc.IsInvoke() {
			args = args[1:]
		}
		var rcv ssa.Value
		if cc.IsInvoke() {
			rcv = cc.Value
		} else {
			rcv = cc.Args[0]
		}
		valueIsNew := func(v ssa.Value) bool {
			return v == newVal || derivesFromArgsAny(v, newVal)
		}
		switch {
		case strings.HasSuffix(name, ".Add"):
			if len(args) != 2 || !isOwn(args[0], nameF) {
				problems = append(problems, "the key is not the variable's own Name")
			}
			if len(args) == 2 && !valueIsNew(args[1]) {
				problems = append(problems, "the stored object is not the new value")
			}
		case strings.HasSuffix(name, "SetObjectValueByField"):
			if !parentNode(rcv) {
				problems = append(problems, "the receiver is not the parent variable's value node")
			}
			if len(args) != 2 || !isOwn(args[0], nameF) {
				problems = append(problems, "the field name is not the variable's own Name")
			}
			if len(args) == 2 && args[1] != newVal {
				problems = append(problems, "the stored value is not the new value")
			}
			if !dominatedByOneOf(parentEval, ci.(ssa.Instruction)) {
				problems = append(problems, "the parent variable is not re-evaluated before the write (its value node may be stale)")
			}
		case strings.HasSuffix(name, "SetArrayValueAt"), strings.HasSuffix(name, "SetMapValueAt"):
			if !parentNode(rcv) {
				problems = append(problems, "the receiver is not the parent variable's value node")
			}
			if len(args) != 2 || !selectorValue(args[0]) {
				problems = append(problems, "the index/key is not the variable's own selector value")
			}
			if len(args) == 2 && args[1] != newVal {
				problems = append(problems, "the stored value is not the new value")
			}
			if !dominatedByOneOf(parentEval, ci.(ssa.Instruction)) {
				problems = append(problems, "the parent variable is not re-evaluated before the write")
			}
			if !dominatedByOneOf(selEval, ci.(ssa.Instruction)) {
				problems = append(problems, "the selector is not evaluated before the write")
			}
		}
		c.Check(len(problems) == 0, construct, p.InstrPos(ci), "own name/selector, new value, parent and selector evaluated first", "the write does not address exactly the assigned location: "+strings.Join(problems, "; "))
	}
	if n == 0 {
		c.Fail("Variable.Assign / sink calls", p.Pos(fn.Pos()), "no fact-write sink call found (anchor lost)")
	}
	// no success path around the write: every return of a not-definitely-non-nil error is preceded by a sink call
	sinks := findCalls(fn, sink)
	t, path := reach(fn, nil, func(in ssa.Instruction) bool {
		ret, isRet := in.(*ssa.Return)
		return isRet && !returnsNonNilError(ret) && !returnsCallError(ret)
	}, func(in ssa.Instruction) bool {
		for _, s := range sinks {
			if in == s.(ssa.Instruction) {
				return true
			}
		}
		return false
	}, nil)
	if t != nil {
		c.Fail("Variable.Assign / every successful return follows a write", p.InstrPos(t), "Assign can report success without having called any fact-write sink (a `nothing to do` shortcut): the assignment is silently skipped on that path", pathString(p, path)...)
	} else {
		c.OK("Variable.Assign / every successful return follows a write", p.Pos(fn.Pos()), "all nil-capable returns are preceded by a sink call")
	}
	// the Go back end's setters themselves: every success return is preceded by a reflect store (or the shared number table)
	for _, mn := range []string{"SetObjectValueByField", "SetArrayValueAt", "SetMapValueAt"} {
		m := p.Method("model", "GoValueNode", mn)
		if m == nil {
			c.AnchorLost("(*model.GoValueNode)." + mn)
			continue
		}
		isStore := func(in ssa.Instruction) bool {
			ci, ok := in.(ssa.CallInstruction)
			if !ok {
				return false
			}
			name := calleeName(ci)
			return name == "(reflect.Value).Set" || name == "(reflect.Value).SetMapIndex" || strings.HasSuffix(name, "SetNumberValue") || strings.HasPrefix(name, "(reflect.Value).Set")
		}
		t, path := reach(m, nil, func(in ssa.Instruction) bool {
			ret, isRet := in.(*ssa.Return)
			if !isRet || ret.Block().Comment == "recover" {
				return false
			}
			return !returnsNonNilError(ret) && !returnsCallError(ret)
		}, isStore, nil)
		if t != nil {
			c.Fail("GoValueNode."+mn+" / every successful return follows a store", p.InstrPos(t), "the setter can report success without storing anything", pathString(p, path)...)
		} else {
			c.OK("GoValueNode."+mn+" / every successful return follows a store", p.Pos(m.Pos()), "all nil-capable returns are preceded by a reflect store")
		}
	}
}

// returnsCallError: the return hands back the error result of a call made in the same block (return f(x)).
func returnsCallError(ret *ssa.Return) bool {
	if len(ret.Results) == 0 {
		return false
	}
	v := ret.Results[len(ret.Results)-1]
	if u, ok := v.(*ssa.UnOp); ok && u.Op == token.MUL {
		if a, ok := u.X.(*ssa.Alloc); ok {
			for _, in := range ret.Block().Instrs {
				if st, ok := in.(*ssa.Store); ok && st.Addr == ssa.Value(a) {
					v = st.Val
				}
			}
		}
	}
	switch x := v.(type) {
	case *ssa.Call:
		return true
	case *ssa.Extract:
		_, ok := x.Tuple.(*ssa.Call)
		return ok
	}
	return false
}

func isRetNilAtStart(b *ssa.BasicBlock, asg ssa.CallInstruction) bool {
	if ret, ok := b.Instrs[0].(*ssa.Return); ok {
		return ret.Results[0] != asg.Value() && !returnsNonNilError(ret)
	}
	return false
}

func init() {
	register("ASG-2", "the data back ends store the given value at the given index / key / field of their own data", 6, ruleASG2)
}

// reflectChain walks a reflect.Value expression down its receiver chain (Index, Elem, FieldByName, Convert, ...)
// and reports the roots it starts from and the addressing arguments met on the way.
func reflectChain(v ssa.Value) (roots, keys []ssa.Value) {
	seen := map[ssa.Value]bool{}
	var walk func(v ssa.Value)
	walk = func(v ssa.Value) {
		v = unspill(v)
		if v == nil || seen[v] {
			return
		}
		seen[v] = true
		switch x := v.(type) {
		case *ssa.Phi:
			for _, e := range x.Edges {
				walk(e)
			}
			return
		case *ssa.Extract:
			walk(x.Tuple)
			return
		case *ssa.MakeInterface:
			walk(x.X)
			return
		case *ssa.ChangeType:
			walk(x.X)
			return
		case *ssa.Convert:
			walk(x.X)
			return
		case *ssa.Call:
			name := calleeName(x)
			switch name {
			case "(reflect.Value).Index", "(reflect.Value).FieldByName", "(reflect.Value).MapIndex", "(reflect.Value).Field":
				if len(x.Call.Args) == 2 {
					keys = append(keys, x.Call.Args[1])
					walk(x.Call.Args[0])
					return
				}
			case "(reflect.Value).Elem", "(reflect.Value).Addr", "(reflect.Value).Convert", "(reflect.Value).Interface":
				walk(x.Call.Args[0])
				return
			case "reflect.ValueOf", "reflect.Indirect":
				walk(x.Call.Args[0])
				return
			}
			if strings.HasSuffix(name, "pkg.GetValueElem") || strings.HasSuffix(name, "GetValueElem") {
				walk(x.Call.Args[0])
				return
			}
		}
		roots = append(roots, v)
	}
	walk(v)
	return
}

// ASG-2: last step of an assignment. Variable.Assign (ASG-1) picks the back-end call; the back end must put the value it
// was given at the place it was given.
func ruleASG2(c *Ctx) {
	asg2AppendReachesTheFact(c)
	p := c.P
	type spec struct {
		typ, method string
		addrParam   int // index in Params (receiver = 0)
		valParam    int
		viaKeyArg   bool // addressed through SetMapIndex's key argument rather than through the target chain
	}
	specs := []spec{
		{"GoValueNode", "SetArrayValueAt", 1, 2, false},
		{"GoValueNode", "SetMapValueAt", 1, 2, true},
		{"GoValueNode", "SetObjectValueByField", 1, 2, false},
		{"JSONValueNode", "SetArrayValueAt", 1, 2, false},
		{"JSONValueNode", "SetMapValueAt", 1, 2, true},
		{"JSONValueNode", "SetObjectValueByField", 1, 2, true},
	}
	for _, sp := range specs {
		m := p.Method("model", sp.typ, sp.method)
		if m == nil || len(m.Params) < 3 {
			c.AnchorLost("(*model." + sp.typ + ")." + sp.method)
			continue
		}
		recv := ssa.Value(m.Params[0])
		addr := ssa.Value(m.Params[sp.addrParam])
		val := ssa.Value(m.Params[sp.valParam])
		construct := sp.typ + "." + sp.method
		isOwnData := func(v ssa.Value) bool {
			f, base := fieldLoad(v)
			return f != nil && base == recv
		}
		allRoots := func(vs []ssa.Value, pred func(ssa.Value) bool) bool {
			if len(vs) == 0 {
				return false
			}
			for _, v := range vs {
				if !pred(v) {
					return false
				}
			}
			return true
		}
		isParam := func(prm ssa.Value) func(ssa.Value) bool {
			return func(v ssa.Value) bool { return unspill(stripConv(v)) == prm }
		}
		nStores := 0
		for _, ci := range callsIn(m) {
			call, ok := ci.(*ssa.Call)
			if !ok {
				continue
			}
			name := calleeName(call)
			var target, stored, key ssa.Value
			switch {
			case name == "(reflect.Value).Set" && len(call.Call.Args) == 2:
				target, stored = call.Call.Args[0], call.Call.Args[1]
			case name == "(reflect.Value).SetMapIndex" && len(call.Call.Args) == 3:
				target, key, stored = call.Call.Args[0], call.Call.Args[1], call.Call.Args[2]
			case strings.HasSuffix(name, "SetNumberValue") && len(call.Call.Args) == 2:
				target, stored = call.Call.Args[0], call.Call.Args[1]
			default:
				if strings.HasPrefix(name, "(reflect.Value).Set") {
					c.Undecided(construct+" / store "+name, p.InstrPos(call), "a reflect setter the rule does not model")
				}
				continue
			}
			nStores++
			k := fmt.Sprintf("%s / %s", construct, name)
			tRoots, tKeys := reflectChain(target)
			sRoots, sKeys := reflectChain(stored)
			okTarget := allRoots(tRoots, isOwnData)
			okVal := allRoots(sRoots, isParam(val)) && len(sKeys) == 0
			okAddr := false
			if key != nil {
				kRoots, kKeys := reflectChain(key)
				okAddr = allRoots(kRoots, isParam(addr)) && len(kKeys) == 0 && len(tKeys) == 0
			} else {
				okAddr = len(tKeys) >= 1 && allRoots(tKeys, isParam(addr))
			}
			c.Check(okTarget, k+" writes the node's own data", p.InstrPos(call), "target is reached from the receiver's data field", "the store does not go into the data this node stands for (a copy or another value is written)")
			c.Check(okAddr, k+" at the given index/key/field", p.InstrPos(call), "addressed by the parameter itself", "the element written is not addressed by exactly the index / key / field that was passed in")
			c.Check(okVal, k+" stores the given value", p.InstrPos(call), "stored operand is the value parameter (unwrapped/converted at most)", "what is stored is not the value that was passed in")
		}
		if nStores == 0 {
			c.Fail(construct+" / has a store", p.Pos(m.Pos()), "no reflect store found in the setter (anchor lost)")
		}
		if sp.typ == "JSONValueNode" {
			isStore := func(in ssa.Instruction) bool {
				ci, ok := in.(ssa.CallInstruction)
				return ok && strings.HasPrefix(calleeName(ci), "(reflect.Value).Set")
			}
			t, path := reach(m, nil, func(in ssa.Instruction) bool {
				ret, isRet := in.(*ssa.Return)
				if !isRet || ret.Block().Comment == "recover" {
					return false
				}
				return !returnsNonNilError(ret) && !returnsCallError(ret)
			}, isStore, nil)
			if t != nil {
				c.Fail(construct+" / every successful return follows a store", p.InstrPos(t), "the setter can report success without storing anything", pathString(p, path)...)
			} else {
				c.OK(construct+" / every successful return follows a store", p.Pos(m.Pos()), "all nil-capable returns are preceded by a reflect store")
			}
		}
	}
}

func init() {
	register("ASG-3", "the data back ends read the element at the given index / key / field of their own data", 6, ruleASG3)
}

// ASG-3: mirror of ASG-2 for the read side (conditions and right-hand sides are evaluated through these getters).
func ruleASG3(c *Ctx) {
	p := c.P
	for _, typ := range []string{"GoValueNode", "JSONValueNode"} {
		for _, mn := range []string{"GetArrayValueAt", "GetMapValueAt", "GetObjectValueByField"} {
			m := p.Method("model", typ, mn)
			if m == nil || len(m.Params) < 2 {
				c.AnchorLost("(*model." + typ + ")." + mn)
				continue
			}
			recv := ssa.Value(m.Params[0])
			addr := ssa.Value(m.Params[1])
			construct := typ + "." + mn
			n := 0
			for _, ret := range returnsOf(m) {
				if ret.Block().Comment == "recover" || returnsNonNilError(ret) {
					continue
				}
				first, _ := returnOperandsThroughAllocs(ret)
				if first == nil {
					c.Undecided(construct+" / success return", p.InstrPos(ret), "cannot resolve the returned value")
					continue
				}
				n++
				roots, keys := reflectChain(first)
				okRoot, nRoot := true, 0
				for _, r := range roots {
					if isZeroValue(r) {
						continue // an invalid value: rejected by the IsValid test or by the consumer
					}
					nRoot++
					if f, base := fieldLoad(r); f == nil || base != recv {
						okRoot = false
					}
				}
				okKey := len(keys) >= 1
				for _, k := range keys {
					k = unspill(stripConv(k))
					if k == addr {
						continue
					}
					// reflect.ValueOf(field)
					if call, ok := k.(*ssa.Call); ok && calleeName(call) == "reflect.ValueOf" && len(call.Call.Args) == 1 {
						if mi, ok := call.Call.Args[0].(*ssa.MakeInterface); ok && unspill(mi.X) == addr {
							continue
						}
					}
					okKey = false
				}
				k := fmt.Sprintf("%s / success return at %s", construct, shortRetLabel(p, ret))
				c.Check(okRoot && nRoot >= 1 && okKey, k, p.InstrPos(ret), "returns own data addressed by the parameter", fmt.Sprintf("the value returned is not the element of this node's own data at exactly the index / key / field passed in (ownData=%v addressedByParam=%v)", okRoot && nRoot >= 1, okKey))
			}
			if n == 0 {
				c.Fail(construct+" / has a success return", p.Pos(m.Pos()), "no success return found (anchor lost)")
			}
		}
	}
}

func isZeroValue(v ssa.Value) bool {
	if k, ok := v.(*ssa.Const); ok {
		return k.Value == nil
	}
	if ld, ok := v.(*ssa.UnOp); ok && ld.Op == token.MUL {
		v = ld.X
	}
	if al, ok := v.(*ssa.Alloc); ok {
		for _, r := range *al.Referrers() {
			if _, isStore := r.(*ssa.Store); isStore {
				return false
			}
		}
		return true
	}
	return false
}

func init() {
	register("ASG-4", "the data context stores and finds a fact under exactly the key it is given", 3, ruleASG4)
}

// ASG-4: top-level variables are read with Get(name) and written with Add(name, value) (Variable.Evaluate / Assign).
func ruleASG4(c *Ctx) {
	p := c.P
	storeF := p.Field("ast", "DataContext", "ObjectStore")
	for _, mn := range []string{"Add", "AddJSON"} {
		m := p.Method("ast", "DataContext", mn)
		if m == nil || len(m.Params) < 3 {
			c.AnchorLost("(*ast.DataContext)." + mn)
			continue
		}
		recv, key, val := ssa.Value(m.Params[0]), ssa.Value(m.Params[1]), ssa.Value(m.Params[2])
		n, okKey, okVal, okMap := 0, true, true, true
		for _, b := range m.Blocks {
			for _, in := range b.Instrs {
				mu, ok := in.(*ssa.MapUpdate)
				if !ok {
					continue
				}
				n++
				if f, base := fieldLoad(mu.Map); f != storeF || base != recv {
					okMap = false
				}
				if unspill(mu.Key) != key {
					okKey = false
				}
				// the stored node wraps the object that was passed in
				fromVal := false
				var walk func(v ssa.Value, d int)
				walk = func(v ssa.Value, d int) {
					if v == nil || d > 8 || fromVal {
						return
					}
					v = unspill(v)
					if v == val {
						fromVal = true
						return
					}
					switch x := v.(type) {
					case *ssa.Call:
						for _, a := range x.Call.Args {
							walk(a, d+1)
						}
					case *ssa.Extract:
						walk(x.Tuple, d+1)
					case *ssa.MakeInterface:
						walk(x.X, d+1)
					case *ssa.Convert:
						walk(x.X, d+1)
					case *ssa.ChangeType:
						walk(x.X, d+1)
					case *ssa.Phi:
						for _, e := range x.Edges {
							walk(e, d+1)
						}
					}
				}
				walk(mu.Value, 0)
				if !fromVal {
					okVal = false
				}
				// ... the object as it is: a reflect conversion of it on the way in (to the type the key held before, say)
				// stores another value than the one the action computed (round-6 seed C04/k: Share = F.Num / F.Den became 3)
				if mn == "Add" {
					for _, ci := range callsIn(m) {
						name := calleeName(ci)
						if name == "(reflect.Value).Convert" || name == "(reflect.Value).SetInt" || name == "(reflect.Value).SetFloat" || name == "(reflect.Value).SetUint" || name == "model.SetNumberValue" {
							okVal = false
						}
					}
				}
			}
		}
		c.Check(n >= 1 && okKey && okVal && okMap, "DataContext."+mn+" / ObjectStore[key] = node(obj)", p.Pos(m.Pos()), "keyed by the key parameter, value built from the object parameter", fmt.Sprintf("the fact is not stored in the context's own ObjectStore under exactly the given key with a node of exactly the given object (stores=%d ownMap=%v key=%v value=%v): a top-level assignment would write somewhere a later read does not look", n, okMap, okKey, okVal))
	}
	if m := p.Method("ast", "DataContext", "Get"); m == nil || len(m.Params) < 2 {
		c.AnchorLost("(*ast.DataContext).Get")
	} else {
		recv, key := ssa.Value(m.Params[0]), ssa.Value(m.Params[1])
		n, ok := 0, true
		for _, b := range m.Blocks {
			for _, in := range b.Instrs {
				lk, isL := in.(*ssa.Lookup)
				if !isL {
					continue
				}
				n++
				if f, base := fieldLoad(lk.X); f != storeF || base != recv || unspill(lk.Index) != key {
					ok = false
				}
			}
		}
		okRet := true
		for _, ret := range returnsOf(m) {
			if len(ret.Results) != 1 || isNilConst(ret.Results[0]) {
				continue
			}
			isLookup := derivesFrom(ret.Results[0], func(v ssa.Value) bool { _, isL := v.(*ssa.Lookup); return isL })
			if !isLookup {
				okRet = false
			}
		}
		c.Check(n >= 1 && ok && okRet, "DataContext.Get / returns ObjectStore[key]", p.Pos(m.Pos()), "lookup keyed by the key parameter", "Get does not return what is stored in the context's own ObjectStore under exactly the given key")
	}
}

func init() {
	register("ASG-5", "value nodes are views: apart from constructors and AppendValue no method of a data back end stores into the node", 40, ruleASG5)
	register("ASG-6", "an array selector is converted by an operation that fails for a value that is not an integer", 3, ruleASG6)
}

// ASG-5: a GoValueNode / JSONValueNode is re-derived from the fact on every evaluation (Variable.Evaluate goes through
// GetChildNodeBy* each time the working memory has forgotten the value). A node that remembers children or values
// it handed out serves them again after the fact was written through another path.
func ruleASG5(c *Ctx) {
	p := c.P
	for _, typ := range []string{"GoValueNode", "JSONValueNode"} {
		named := p.Named("model", typ)
		if named == nil {
			c.AnchorLost("model." + typ)
			continue
		}
		ms := p.SSA.MethodSets.MethodSet(types.NewPointer(named))
		for i := 0; i < ms.Len(); i++ {
			fn := p.SSA.MethodValue(ms.At(i))
			if fn == nil || fn.Blocks == nil || fn.Synthetic != "" || delegationWrapper[fn] {
				continue
			}
			key := fmt.Sprintf("%s.%s keeps nothing in the node", typ, publicName(fn))
			var ws []ssa.Instruction
			for _, w := range receiverRootedWrites(fn) {
				// the dispatch of the built-in Append to AppendValue is that method's one permitted write, not a second one
				if ci, isCall := w.(ssa.CallInstruction); isCall && calleeNameIs(ci, "AppendValue") {
					continue
				}
				ws = append(ws, w)
			}
			if len(ws) == 0 {
				c.OK(key, p.Pos(fn.Pos()), "no store through the receiver")
				continue
			}
			if publicName(fn) == "AppendValue" {
				c.OK(key, p.Pos(fn.Pos()), "AppendValue replaces the node's slice header by the appended slice (the one write a view needs)")
				continue
			}
			c.Fail(key, p.InstrPos(ws[0]), "the method stores into its own node (a cache of children or values): what it remembers is served again after the fact was written through another path, so a re-evaluated condition still reads the old value")
		}
	}
}

// ASG-6: reflect.Value.Int() panics for every kind but the signed integers, which is how a string or bool used as an
// array index becomes a reported failure (the panic is contained by ERR-1). A conversion helper that falls through to
// a default index turns the type error into a silent access to element 0.
func ruleASG6(c *Ctx) {
	p := c.P
	n := 0
	for _, fn := range p.ModuleFuncs() {
		if fnPkgShort(fn) != "ast" || strings.HasSuffix(p.Pos(fn.Pos()), "_test.go") {
			continue
		}
		for _, ci := range callsIn(fn) {
			name := calleeName(ci)
			if !(strings.HasSuffix(name, ".GetChildNodeByIndex") || strings.HasSuffix(name, ".SetArrayValueAt") || strings.HasSuffix(name, ".GetArrayValueAt")) {
				continue
			}
			args := ci.Common().Args
			if len(args) < 1 {
				continue
			}
			idx := args[0]
			if !ci.Common().IsInvoke() && len(args) >= 2 {
				idx = args[1]
			}
			n++
			key := fmt.Sprintf("%s / index handed to %s", fnName(fn), name[strings.LastIndex(name, ".")+1:])
			ok, why := failingIntConversion(idx, 0)
			c.Check(ok, key, p.InstrPos(ci.(ssa.Instruction)), "int(selector.Int()): panics (reported) for a non-integer selector", why)
		}
	}
	if n == 0 {
		c.Fail("array access sites in package ast", "-", "no GetChildNodeByIndex / SetArrayValueAt call found (anchor lost)")
	}
}

// failingIntConversion: every way v is produced goes through (reflect.Value).Int/Uint, or through a module helper all of
// whose returns do (or carry a non-nil error).
func failingIntConversion(v ssa.Value, depth int) (bool, string) {
	if depth > 4 {
		return false, "conversion too deeply nested"
	}
	v = unspill(v)
	switch x := v.(type) {
	case *ssa.Convert:
		return failingIntConversion(x.X, depth+1)
	case *ssa.ChangeType:
		return failingIntConversion(x.X, depth+1)
	case *ssa.Phi:
		for _, e := range x.Edges {
			if ok, why := failingIntConversion(e, depth+1); !ok {
				return false, why
			}
		}
		return len(x.Edges) > 0, "empty merge"
	case *ssa.Extract:
		return failingIntConversion(x.Tuple, depth+1)
	case *ssa.Call:
		name := calleeName(x)
		if name == "(reflect.Value).Int" || name == "(reflect.Value).Uint" || name == "(reflect.Value).Float" {
			return true, ""
		}
		callee := x.Call.StaticCallee()
		if callee != nil && callee.Blocks != nil && fnInModule(callee) {
			for _, r := range returnsOf(callee) {
				if returnsNonNilError(r) {
					continue
				}
				if len(r.Results) == 0 {
					return false, "helper " + fnName(callee) + " returns nothing"
				}
				if ok, why := failingIntConversion(r.Results[0], depth+1); !ok {
					return false, "helper " + fnName(callee) + " can return an index that does not come from Int()/Uint(): " + why
				}
			}
			return true, ""
		}
		return false, "index produced by " + name
	case *ssa.Const:
		return false, "a constant index (" + x.String() + ") on some path: a selector of the wrong kind silently addresses that element instead of failing"
	}
	return false, fmt.Sprintf("index produced by %T", v)
}

func init() {
	register("OPT-16", "a fact method is handed to reflect without an arity pre-check that contradicts reflect's own rule for variadic methods", 1, ruleOPT16)
}

// OPT-16: reflect.Value.Call accepts len(args) >= NumIn()-1 for a variadic method (the variadic part may be empty) and
// exactly NumIn() otherwise. The documentation promises "zero or more values" for variadic fact methods and built-ins.
func ruleOPT16(c *Ctx) {
	p := c.P
	fn := p.Method("model", "GoValueNode", "CallFunction")
	if fn == nil {
		c.AnchorLost("(*model.GoValueNode).CallFunction")
		return
	}
	var callSite *ssa.Call
	for _, ci := range callsIn(fn) {
		if call, ok := ci.(*ssa.Call); ok && calleeName(call) == "(reflect.Value).Call" {
			callSite = call
		}
	}
	if callSite == nil {
		c.Fail("GoValueNode.CallFunction / reflect call", p.Pos(fn.Pos()), "no (reflect.Value).Call (anchor lost)")
		return
	}
	isNumIn := func(v ssa.Value) bool {
		call, ok := stripConv(v).(*ssa.Call)
		return ok && strings.HasSuffix(calleeName(call), ".NumIn")
	}
	isLenArgs := func(v ssa.Value) bool {
		call, ok := stripConv(v).(*ssa.Call)
		if !ok {
			return false
		}
		bi, ok := call.Call.Value.(*ssa.Builtin)
		return ok && bi.Name() == "len"
	}
	bad := ""
	nChecks := 0
	for _, b := range fn.Blocks {
		for _, in := range b.Instrs {
			bo, ok := in.(*ssa.BinOp)
			if !ok {
				continue
			}
			var other ssa.Value
			switch {
			case isLenArgs(bo.X):
				other = bo.Y
			case isLenArgs(bo.Y):
				other = bo.X
			default:
				continue
			}
			minusOne := false
			if sub, ok := stripConv(other).(*ssa.BinOp); ok && sub.Op == token.SUB && isNumIn(sub.X) {
				if k, ok := constInt(sub.Y); ok && k == 1 {
					minusOne = true
				}
			}
			if !isNumIn(other) && !minusOne {
				continue
			}
			nChecks++
			// under the variadic edge the bound must be NumIn()-1
			underVariadic := edgesDominate(fn, bo, func(bb *ssa.BasicBlock, si int) bool {
				iff, isIf := bb.Instrs[len(bb.Instrs)-1].(*ssa.If)
				if !isIf {
					return false
				}
				kind, sTrue, okc := condOn(iff.Cond, func(v ssa.Value) bool {
					call, ok := v.(*ssa.Call)
					return ok && strings.HasSuffix(calleeName(call), ".IsVariadic")
				})
				return okc && kind == "bool" && si == sTrue
			})
			if underVariadic && !minusOne {
				bad = "under IsVariadic() the argument count is compared with NumIn() instead of NumIn()-1 at " + p.InstrPos(bo)
			}
			if !underVariadic && bo.Op != token.NEQ && bo.Op != token.EQL && !minusOne {
				// a `<` / `>=` test against NumIn() that is not restricted to the non-variadic case rejects empty variadic parts
				notVariadic := edgesDominate(fn, bo, func(bb *ssa.BasicBlock, si int) bool {
					iff, isIf := bb.Instrs[len(bb.Instrs)-1].(*ssa.If)
					if !isIf {
						return false
					}
					kind, sTrue, okc := condOn(iff.Cond, func(v ssa.Value) bool {
						call, ok := v.(*ssa.Call)
						return ok && strings.HasSuffix(calleeName(call), ".IsVariadic")
					})
					return okc && kind == "bool" && si == 1-sTrue
				})
				if !notVariadic {
					bad = "the argument count is compared with NumIn() for variadic methods too at " + p.InstrPos(bo)
				}
			}
		}
	}
	c.Check(bad == "", "GoValueNode.CallFunction / arity pre-checks agree with reflect's rule", p.InstrPos(callSite), fmt.Sprintf("%d arity pre-check(s); reflect's own check applies and its panic is contained", nChecks), bad+": a variadic fact method or built-in called with only its fixed arguments (documented: zero or more values) is rejected")
}

// asg2AppendReachesTheFact (D41): reflect.Append yields a new slice value. The Go back end sets it into the addressable
// value it wraps; a JSON node wraps a copy of what the enclosing object or array holds, so the longer slice has to be put
// back there, or `J.arr.Append(7)` changes a node nobody keeps. Decided: in each back end's AppendValue the result of
// reflect.Append is, on every success path, set into the wrapped value (Set), or stored as the node's data and handed to
// the node's write-back function unless that is nil (the root); and every constructor of a child node of the JSON back
// end (GetChildNodeBy*) installs a write-back that stores into the parent's data under the key it read from.
func asg2AppendReachesTheFact(c *Ctx) {
	p := c.P
	for _, typ := range []string{"GoValueNode", "JSONValueNode"} {
		fn := p.Method("model", typ, "AppendValue")
		if fn == nil {
			c.AnchorLost("(*model." + typ + ").AppendValue")
			continue
		}
		recv := ssa.Value(receiver(fn))
		construct := typ + ".AppendValue / the longer slice reaches the fact"
		var app *ssa.Call
		for _, ci := range callsIn(fn) {
			if call, ok := ci.(*ssa.Call); ok && calleeName(call) == "reflect.Append" {
				app = call
			}
		}
		if app == nil {
			c.Fail(construct, p.Pos(fn.Pos()), "no reflect.Append in AppendValue (anchor lost)")
			continue
		}
		isSuccess := func(in ssa.Instruction) bool {
			r, ok := in.(*ssa.Return)
			return ok && !returnsNonNilError(r)
		}
		// (a) Set into the wrapped value
		setsThrough := func(in ssa.Instruction) bool {
			call, ok := in.(ssa.CallInstruction)
			if !ok || calleeName(call) != "(reflect.Value).Set" || len(call.Common().Args) != 2 {
				return false
			}
			return call.Common().Args[1] == ssa.Value(app) && derivesFrom(call.Common().Args[0], func(v ssa.Value) bool {
				f, base := fieldLoad(v)
				return f != nil && base == recv
			})
		}
		if t, _ := reach(fn, app, isSuccess, setsThrough, nil); t == nil {
			c.OK(construct, p.InstrPos(app), "set into the value the node wraps on every success path")
			continue
		}
		// (b) write-back through a function field of the node
		var fnField *types.Var
		isWriteBack := func(in ssa.Instruction) bool {
			call, ok := in.(*ssa.Call)
			if !ok || call.Call.IsInvoke() || call.Call.StaticCallee() != nil || len(call.Call.Args) != 1 {
				return false
			}
			f, base := fieldLoad(call.Call.Value)
			if f == nil || base != recv {
				return false
			}
			if _, isSig := f.Type().Underlying().(*types.Signature); !isSig {
				return false
			}
			// the argument is the appended slice: the Append result itself or the data field it was stored into
			arg := call.Call.Args[0]
			okArg := arg == ssa.Value(app)
			if df, db := fieldLoad(arg); df != nil && db == recv {
				for _, b := range fn.Blocks {
					for _, x := range b.Instrs {
						if sf, sb, sv := fieldStore(x); sf == df && sb == recv && sv == ssa.Value(app) {
							okArg = true
						}
					}
				}
			}
			if okArg {
				fnField = f
			}
			return okArg
		}
		t, path := reach(fn, app, isSuccess, isWriteBack, func(b *ssa.BasicBlock, si int) bool {
			// the root has no container: the nil edge of the test of the write-back field is a way out
			iff, isIf := b.Instrs[len(b.Instrs)-1].(*ssa.If)
			if !isIf {
				return true
			}
			kind, sNil, ok := condOn(iff.Cond, func(v ssa.Value) bool {
				f, base := fieldLoad(v)
				if f == nil || base != recv {
					return false
				}
				_, isSig := f.Type().Underlying().(*types.Signature)
				return isSig
			})
			return !(ok && kind == "nil" && si == sNil)
		})
		if t != nil {
			c.Fail(construct, p.InstrPos(app), "the slice reflect.Append returns is kept in the node only: the node of a JSON member or element wraps a copy of what the enclosing object or array holds, so `J.arr.Append(7)` is lost (J stays {\"arr\":[1]}, `when J.arr.Len() < 3` holds for ever), while the same rule on a Go slice works", pathString(p, path)...)
			continue
		}
		// the constructors of child nodes install the write-back
		bad := ""
		n := 0
		for _, mname := range []string{"GetChildNodeByField", "GetChildNodeBySelector", "GetChildNodeByIndex"} {
			m := p.Method("model", typ, mname)
			if m == nil {
				c.AnchorLost("(*model." + typ + ")." + mname)
				continue
			}
			installed := false
			for _, b := range m.Blocks {
				for _, in := range b.Instrs {
					sf, _, sv := fieldStore(in)
					if sf != fnField {
						continue
					}
					mc, isMC := sv.(*ssa.MakeClosure)
					if !isMC {
						continue
					}
					body, _ := mc.Fn.(*ssa.Function)
					if body == nil {
						continue
					}
					// the closure stores its argument into the parent's data: SetMapIndex(key, arg) or Index(i).Set(arg)
					for _, ci := range callsIn(body) {
						name := calleeName(ci)
						args := ci.Common().Args
						if (name == "(reflect.Value).SetMapIndex" && len(args) == 3 && args[2] == ssa.Value(body.Params[0])) || (name == "(reflect.Value).Set" && len(args) == 2 && args[1] == ssa.Value(body.Params[0])) {
							installed = true
						}
					}
				}
			}
			if installed {
				n++
			} else {
				bad = mname + " hands out a child node without a write-back into this node's data"
			}
		}
		c.Check(bad == "" && n == 3, construct, p.InstrPos(app), "stored as the node's data and handed to the write-back that each of the 3 child constructors installs (nil for the root)", bad+": an Append on a node made that way is lost")
	}
}
