module pos

go 1.24
