// Package pos holds tiny positive examples for rules whose expected count on /repo is zero; every run of such a rule
// first runs its detector on this package and must find the construct (otherwise the checker is broken: exit 2).
package pos

var counter int
var table = map[string]int{}

type node struct {
	child *node
	name  string
	vals  []int
}

// GlobalWriter stores to package-level variables (CLN-5 control).
func GlobalWriter(k string) {
	counter++
	table[k] = counter
}

func callsGlobalWriter() { GlobalWriter("x") }

// ReceiverWriter stores through its receiver (CLN-3 control).
func (n *node) ReceiverWriter() {
	n.child.name = "changed"
	n.vals[0] = 1
}

// Spawner starts a goroutine and uses a channel (ENG-6 control).
func Spawner() int {
	ch := make(chan int, 1)
	go func() { ch <- 1 }()
	return <-ch
}

// Panicker panics explicitly (LDR-6 control).
func Panicker(i int) int {
	if i < 0 {
		panic("negative")
	}
	return i
}

// Allocator allocates a buffer sized by its argument without a bound (LDR-8 control).
func Allocator(n uint64) []byte { return make([]byte, int(n)) }

// ChildReacher dereferences a child without a nil test, GuardedChildReacher with one (LDR-17 control).
func ChildReacher(n *node) string { return n.child.name }

func GuardedChildReacher(n *node) string {
	if n.child == nil {
		return ""
	}
	return n.child.name
}
