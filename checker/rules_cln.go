package main

import (
	"fmt"
	"go/token"
	"go/types"
	"os"
	"path/filepath"
	"sort"
	"strings"

	"golang.org/x/tools/go/packages"
	"golang.org/x/tools/go/ssa"
	"golang.org/x/tools/go/ssa/ssautil"
)

func init() {
	register("CLN-1", "clone field coverage: every semantic field is assigned in Clone, Retracted is reset", 13, ruleCLN1)
	register("CLN-2", "no aliasing: node-typed fields of a clone never point into the blueprint", 20, ruleCLN2)
	register("CLN-3", "read-only blueprint: cloning, snapshotting and cataloguing never write through the receiver", 30, ruleCLN3)
	register("CLN-4", "working-memory clone is re-targeted to the instance's own nodes", 5, ruleCLN4)
	register("CLN-5", "no shared mutable state (package-level variables) on concurrent paths", 4, ruleCLN5)
	register("CLN-6", "NewKnowledgeBaseInstance hands out a fresh clone; a failed self-check is not ignored", 2, ruleCLN6)
	register("CLN-7", "clone-table discipline: lookup before clone, mark after clone, for every child", 20, ruleCLN7)
	register("CLN-8", "clone table integrity: IsCloned looks up what MarkCloned records, and the record holds the clone", 2, ruleCLN8)
}

// ---------- fixture for positive controls ----------

var fixtureProg *ssa.Program
var fixturePkg *ssa.Package
var fixtureErr error

func fixtureDir() string {
	if d := os.Getenv("GRULECHECK_FIXTURE"); d != "" {
		return d
	}
	exe, err := os.Executable()
	if err == nil {
		d := filepath.Join(filepath.Dir(filepath.Dir(exe)), "checker", "testdata", "pos")
		if _, err := os.Stat(d); err == nil {
			return d
		}
	}
	return "/verif/checker/testdata/pos"
}

func fixture() (*ssa.Package, error) {
	if fixturePkg != nil || fixtureErr != nil {
		return fixturePkg, fixtureErr
	}
	cfg := &packages.Config{Mode: packages.LoadAllSyntax, Dir: fixtureDir(), Env: append(os.Environ(), "GOWORK=off", "GOFLAGS=-mod=mod", "GOPROXY=off", "GOTOOLCHAIN=local")}
	pkgs, err := packages.Load(cfg, ".")
	if err != nil || len(pkgs) != 1 || len(pkgs[0].Errors) > 0 {
		fixtureErr = fmt.Errorf("cannot load positive-control fixture at %s: %v", fixtureDir(), err)
		return nil, fixtureErr
	}
	prog, sp := ssautil.AllPackages(pkgs, 0)
	prog.Build()
	fixtureProg, fixturePkg = prog, sp[0]
	return fixturePkg, nil
}

// ---------- detectors shared by rules and controls ----------

// receiverRootedWrites lists instructions of fn that write memory reachable from the receiver: stores through an
// address derived from the receiver, and updates/deletes of maps loaded from it.
func receiverRootedWrites(fn *ssa.Function) []ssa.Instruction {
	recv := receiver(fn)
	if recv == nil {
		return nil
	}
	rooted := func(v ssa.Value) bool {
		found := false
		backSlice(v, func(x ssa.Value) bool {
			if found {
				return false
			}
			switch y := x.(type) {
			case *ssa.Parameter:
				if y == recv {
					found = true
				}
				return false
			case *ssa.Call, *ssa.MakeMap, *ssa.MakeSlice:
				return false
			case *ssa.Alloc:
				// a local alloc: follow its stores only when it is a spilled variable (pointer-typed content)
				return true
			}
			return true
		})
		return found
	}
	var out []ssa.Instruction
	fns := append([]*ssa.Function{fn}, fn.AnonFuncs...)
	for _, f := range fns {
		for _, b := range f.Blocks {
			for _, in := range b.Instrs {
				switch x := in.(type) {
				case *ssa.Store:
					if _, isAlloc := x.Addr.(*ssa.Alloc); isAlloc {
						continue
					}
					if rooted(x.Addr) {
						out = append(out, in)
					}
				case *ssa.MapUpdate:
					if rooted(x.Map) {
						out = append(out, in)
					}
				case ssa.CallInstruction:
					if bi, ok := x.Common().Value.(*ssa.Builtin); ok && bi.Name() == "delete" && rooted(x.Common().Args[0]) {
						out = append(out, in)
					}
					if bi, ok := x.Common().Value.(*ssa.Builtin); ok && bi.Name() == "copy" && rooted(x.Common().Args[0]) {
						out = append(out, in)
					}
					// library functions that write through the slice they are given: sorting a list that belongs to the
					// receiver in place is a write to the receiver (round-6 seed C09/k: Equals sorted the blueprint's index lists)
					// a helper of the module that writes through the parameter it is handed (one level)
					if callee := x.Common().StaticCallee(); callee != nil && callee.Blocks != nil && fnInModule(callee) {
						for i, a := range x.Common().Args {
							if i < len(callee.Params) && rooted(a) && paramWrittenThrough(callee, callee.Params[i]) {
								out = append(out, in)
							}
						}
					}
					if mutatingLibraryCall(x) && len(x.Common().Args) > 0 {
						a := x.Common().Args[0]
						if mi, isMI := a.(*ssa.MakeInterface); isMI {
							a = mi.X
						}
						if rooted(a) {
							out = append(out, in)
						}
					}
				}
			}
		}
	}
	return out
}

// mutatingLibraryCall: a library function that writes through its first argument (sorting, shuffling in place).
func mutatingLibraryCall(ci ssa.CallInstruction) bool {
	callee := ci.Common().StaticCallee()
	if callee == nil {
		return false
	}
	pk := ""
	if callee.Pkg != nil {
		pk = callee.Pkg.Pkg.Path()
	} else if o := callee.Origin(); o != nil && o.Pkg != nil {
		pk = o.Pkg.Pkg.Path() // an instance of a generic library function
	}
	name := callee.Name()
	if i := strings.Index(name, "["); i > 0 {
		name = name[:i]
	}
	switch pk + "." + name {
	case "sort.Slice", "sort.SliceStable", "sort.Sort", "sort.Stable", "sort.Strings", "sort.Ints", "sort.Float64s", "slices.Sort", "slices.SortFunc", "slices.SortStableFunc", "slices.Reverse", "math/rand.Shuffle":
		return true
	}
	return false
}

// paramWrittenThrough: fn stores through prm (an element, a field, a map entry) or hands it to a library function that does.
func paramWrittenThrough(fn *ssa.Function, prm *ssa.Parameter) bool {
	from := func(v ssa.Value) bool {
		found := false
		backSlice(v, func(x ssa.Value) bool {
			if x == ssa.Value(prm) {
				found = true
			}
			return !found
		})
		return found
	}
	for _, b := range fn.Blocks {
		for _, in := range b.Instrs {
			switch x := in.(type) {
			case *ssa.Store:
				if _, isAlloc := x.Addr.(*ssa.Alloc); !isAlloc && from(x.Addr) {
					return true
				}
			case *ssa.MapUpdate:
				if from(x.Map) {
					return true
				}
			case ssa.CallInstruction:
				if mutatingLibraryCall(x) && len(x.Common().Args) > 0 {
					a := x.Common().Args[0]
					if mi, isMI := a.(*ssa.MakeInterface); isMI {
						a = mi.X
					}
					if from(a) {
						return true
					}
				}
			}
		}
	}
	return false
}

// globalWrites lists instructions of fn that write package-level variables (directly, through their fields/elements,
// or maps loaded from them).
func globalWrites(fn *ssa.Function) []ssa.Instruction {
	rooted := func(v ssa.Value) bool {
		found := false
		backSlice(v, func(x ssa.Value) bool {
			if found {
				return false
			}
			switch x.(type) {
			case *ssa.Global:
				found = true
				return false
			case *ssa.Call, *ssa.MakeMap, *ssa.MakeSlice, *ssa.Parameter:
				return false
			}
			return true
		})
		return found
	}
	var out []ssa.Instruction
	for _, b := range fn.Blocks {
		for _, in := range b.Instrs {
			switch x := in.(type) {
			case *ssa.Store:
				if _, isAlloc := x.Addr.(*ssa.Alloc); isAlloc {
					continue
				}
				if rooted(x.Addr) {
					out = append(out, in)
				}
			case *ssa.MapUpdate:
				if rooted(x.Map) {
					out = append(out, in)
				}
			}
		}
	}
	return out
}

// ---------- CLN-1 ----------

func cloneAlloc(fn *ssa.Function, named *types.Named) *ssa.Alloc {
	for _, b := range fn.Blocks {
		for _, in := range b.Instrs {
			if al, ok := in.(*ssa.Alloc); ok && al.Heap && types.Identical(al.Type(), types.NewPointer(named)) {
				return al
			}
		}
	}
	return nil
}

// cloneFieldStores maps field -> stored values for stores into the fresh clone object.
func cloneFieldStores(fn *ssa.Function, al *ssa.Alloc) map[*types.Var][]ssa.Value {
	out := map[*types.Var][]ssa.Value{}
	for _, b := range fn.Blocks {
		for _, in := range b.Instrs {
			st, ok := in.(*ssa.Store)
			if !ok {
				continue
			}
			fa, ok := st.Addr.(*ssa.FieldAddr)
			if !ok || fa.X != ssa.Value(al) {
				continue
			}
			out[fieldOfAddr(fa)] = append(out[fieldOfAddr(fa)], st.Val)
		}
	}
	return out
}

// cloneExempt: frozen exemptions (one symbol, one reason).
var cloneExempt = map[string]string{
	"Constant.IsNil": "implied by Value.Kind()==Invalid: the listener never sets Value for the nil literal, and an invalid Value evaluates identically",
}

func ruleCLN1(c *Ctx) {
	p := c.P
	infos := c.nodeInfos()
	for _, n := range nodeTypeNames {
		ni := infos[n]
		fn := p.Method("ast", n, "Clone")
		if ni == nil || fn == nil {
			c.AnchorLost("(*ast." + n + ").Clone")
			continue
		}
		al := cloneAlloc(fn, ni.Named)
		if al == nil {
			c.Fail(n+".Clone / allocates a fresh node", p.Pos(fn.Pos()), "Clone does not allocate a new "+n)
			continue
		}
		stores := cloneFieldStores(fn, al)
		need := map[*types.Var]bool{}
		for f := range ni.Eval {
			need[f] = true
		}
		for f := range ni.WM {
			need[f] = true
		}
		for f := range ni.Engine {
			need[f] = true
		}
		if n == "RuleEntry" {
			for _, extra := range []string{"RuleName", "RuleDescription", "Salience", "Deleted"} {
				if f := ni.fieldByName(extra); f != nil {
					need[f] = true
				}
			}
		}
		var missing []string
		for f := range need {
			if f.Name() == "AstID" {
				continue
			}
			if _, ex := cloneExempt[n+"."+f.Name()]; ex {
				continue
			}
			if len(stores[f]) == 0 {
				missing = append(missing, f.Name())
			}
		}
		sort.Strings(missing)
		// scalar fields must be copied from the receiver's namesake
		var wrong []string
		for f, vals := range stores {
			if !need[f] || isNodeTyped(f.Type()) || f.Name() == "AstID" {
				continue
			}
			for _, v := range vals {
				sf, base := fieldLoad(v)
				if !(sf == f && base == ssa.Value(receiver(fn))) {
					wrong = append(wrong, f.Name())
				}
			}
		}
		sort.Strings(wrong)
		// ... and on every path: a scalar copied only in one branch is lost on the others (e.g. in the branch that takes a
		// child from the clone table instead of cloning it)
		var partial []string
		for f := range need {
			if f.Name() == "AstID" || isNodeTyped(f.Type()) || len(stores[f]) == 0 {
				continue
			}
			if _, ex := cloneExempt[n+"."+f.Name()]; ex {
				continue
			}
			if _, isSlice := f.Type().Underlying().(*types.Slice); isSlice {
				continue
			}
			if _, isMap := f.Type().Underlying().(*types.Map); isMap {
				continue
			}
			ff := f
			t, _ := reach(fn, al, func(in ssa.Instruction) bool { _, isRet := in.(*ssa.Return); return isRet }, func(in ssa.Instruction) bool {
				sf, base, _ := fieldStore(in)
				return sf == ff && base == ssa.Value(al)
			}, nil)
			if t != nil {
				partial = append(partial, f.Name())
			}
		}
		sort.Strings(partial)
		c.Check(len(partial) == 0, n+".Clone / semantic scalars are copied on every path", p.Pos(fn.Pos()), "each scalar store dominates all returns", fmt.Sprintf("fields %v are copied only on some paths through Clone: on the others (typically when a child is already in the clone table) the clone keeps the zero value and differs from its blueprint", partial))
		c.Check(len(missing) == 0 && len(wrong) == 0, n+".Clone / copies every semantic field", p.Pos(fn.Pos()), "semantic fields "+strings.Join(sortedFieldNames(need), ",")+" assigned from their namesakes",
			fmt.Sprintf("clone loses or mis-copies fields: missing=%v notCopiedFromNamesake=%v (an instance would behave differently from its blueprint)", missing, wrong))
		if n == "RuleEntry" {
			rf := ni.fieldByName("Retracted")
			ok := false
			for _, v := range stores[rf] {
				if bv, isb := constBool(v); isb && !bv {
					ok = true
				}
			}
			if len(stores[rf]) == 0 {
				ok = true // zero value
			}
			c.Check(ok, "RuleEntry.Clone / Retracted starts false", p.Pos(fn.Pos()), "constant false (or zero value)", "a clone inherits the blueprint's Retracted flag")
		}
	}
}

func isNodeTyped(t types.Type) bool {
	switch u := t.Underlying().(type) {
	case *types.Pointer:
		if n, ok := u.Elem().(*types.Named); ok && n.Obj().Pkg() != nil && inModule(n.Obj().Pkg().Path()) {
			_, isStruct := n.Underlying().(*types.Struct)
			return isStruct
		}
	case *types.Slice:
		return isNodeTyped(u.Elem())
	case *types.Map:
		return isNodeTyped(u.Elem()) || isNodeTyped(u.Key())
	}
	return false
}

// ---------- CLN-2 ----------

// cloneProvenanceOK: v is the result of a child's Clone, a type assertion of CloneTable.Records[..].CloneInstance,
// a fresh make, nil, or a Phi of such.
func cloneProvenanceOK(p *Prog, v ssa.Value, depth int) (bool, string) {
	if depth > 6 {
		return false, "too deep"
	}
	switch x := v.(type) {
	case *ssa.Const:
		if x.Value == nil {
			return true, ""
		}
	case *ssa.MakeSlice, *ssa.MakeMap:
		return true, ""
	case *ssa.Call:
		if calleeNameIs(x, "Clone") || calleeNameIs(x, "NewWorkingMemory") {
			return true, ""
		}
		return false, "result of " + calleeName(x)
	case *ssa.Extract:
		return cloneProvenanceOK(p, x.Tuple, depth+1)
	case *ssa.TypeAssert:
		f, _ := fieldLoad(x.X)
		if f != nil && f == p.Field("pkg", "CloneRecord", "CloneInstance") {
			return true, ""
		}
		if f != nil {
			return false, "type assertion of CloneRecord." + f.Name() + " (not CloneInstance)"
		}
		return false, "type assertion of something other than CloneRecord.CloneInstance"
	case *ssa.Phi:
		for _, e := range x.Edges {
			if ok, why := cloneProvenanceOK(p, e, depth+1); !ok {
				return false, why
			}
		}
		return true, ""
	case *ssa.UnOp:
		if f, _ := fieldLoad(v); f != nil {
			return false, "loaded from field " + f.Name() + " of an existing node (aliases the origin)"
		}
		if a, ok := x.X.(*ssa.Alloc); ok {
			for _, r := range *a.Referrers() {
				if st, ok := r.(*ssa.Store); ok && st.Addr == ssa.Value(a) {
					if ok, why := cloneProvenanceOK(p, st.Val, depth+1); !ok {
						return false, why
					}
				}
			}
			return true, ""
		}
	case *ssa.Parameter:
		return false, "a parameter (the origin itself)"
	}
	return false, "unrecognised source " + v.String()
}

func ruleCLN2(c *Ctx) {
	p := c.P
	var fns []*ssa.Function
	for _, n := range append(append([]string{}, nodeTypeNames...), "KnowledgeBase") {
		if fn := p.Method("ast", n, "Clone"); fn != nil {
			fns = append(fns, fn)
		} else {
			c.AnchorLost("(*ast." + n + ").Clone")
		}
	}
	for _, fn := range fns {
		recvT := fn.Signature.Recv().Type().(*types.Pointer).Elem().(*types.Named)
		al := cloneAlloc(fn, recvT)
		if al == nil {
			c.Fail(fnName(fn)+" / fresh object", p.Pos(fn.Pos()), "no fresh allocation")
			continue
		}
		// what Clone hands out is that fresh object on every path: a Clone that answers with its receiver for some kinds
		// of node ("a literal is the same in every instance") makes the blueprint's node, memo flag and value included,
		// part of every instance (round-5 seed C09/a; the callers trust a Clone result to be new)
		notFresh := ""
		for _, r := range returnsOf(fn) {
			if len(r.Results) == 0 {
				continue
			}
			res := unspill(r.Results[0])
			if isNilConst(res) || res == ssa.Value(al) {
				continue
			}
			// the second result of KnowledgeBase.Clone style (value, error) returns: a nil value with an error is fine
			if len(r.Results) > 1 && returnsNonNilError(r) {
				continue
			}
			if ph, isPhi := res.(*ssa.Phi); isPhi {
				allFresh := true
				for _, e := range ph.Edges {
					if ue := unspill(e); ue != ssa.Value(al) && !isNilConst(ue) {
						allFresh = false
					}
				}
				if allFresh {
					continue
				}
			}
			notFresh = "the return at " + p.InstrPos(r) + " hands out " + res.String()
		}
		c.Check(notFresh == "", fnName(fn)+" / returns its fresh object on every path", p.Pos(fn.Pos()), "every non-error return is the allocation made in this call", notFresh+", not the object allocated in this call: a node of the blueprint becomes part of the instances, whose engine calls then write its memo flag and value concurrently")
		// stores into node-typed fields, and into elements of slices/maps held by the clone
		for _, b := range fn.Blocks {
			for _, in := range b.Instrs {
				var target string
				var val ssa.Value
				switch x := in.(type) {
				case *ssa.Store:
					switch addr := x.Addr.(type) {
					case *ssa.FieldAddr:
						if addr.X == ssa.Value(al) && isNodeTyped(fieldOfAddr(addr).Type()) {
							target, val = "field "+fieldOfAddr(addr).Name(), x.Val
						}
					case *ssa.IndexAddr:
						if derivesFromValue(addr.X, al) && isNodeTyped(x.Val.Type()) {
							target, val = "element of a slice of the clone", x.Val
						}
					}
				case *ssa.MapUpdate:
					if derivesFromValue(x.Map, al) && isNodeTyped(x.Value.Type()) {
						target, val = "entry of a map of the clone", x.Value
					}
				}
				if val == nil {
					continue
				}
				ok, why := cloneProvenanceOK(p, val, 0)
				c.Check(ok, fmt.Sprintf("%s / %s comes from a clone", fnName(fn), target), p.InstrPos(in), "child Clone result, clone-table CloneInstance or fresh make", "the clone's "+target+" is "+why+": the instance shares a mutable node with the blueprint (or another instance)")
			}
		}
	}
}

// ---------- CLN-3 ----------

func ruleCLN3(c *Ctx) {
	p := c.P
	// control
	if fp, err := fixture(); err != nil {
		c.Control(false, err.Error())
	} else {
		var rw *ssa.Function
		for _, m := range fp.Members {
			if t, ok := m.(*ssa.Type); ok {
				ms := fixtureProg.MethodSets.MethodSet(types.NewPointer(t.Type()))
				for i := 0; i < ms.Len(); i++ {
					if ms.At(i).Obj().Name() == "ReceiverWriter" {
						rw = fixtureProg.MethodValue(ms.At(i))
					}
				}
			}
		}
		c.Control(rw != nil && len(receiverRootedWrites(rw)) >= 2, "receiver-rooted-store detector flags the fixture's ReceiverWriter")
	}
	var fns []*ssa.Function
	for _, n := range append(append([]string{}, nodeTypeNames...), "KnowledgeBase", "WorkingMemory") {
		for _, m := range []string{"Clone", "GetSnapshot", "MakeCatalog", "IsIdentical", "Equals"} {
			if fn := p.Method("ast", n, m); fn != nil && fn.Synthetic == "" {
				fns = append(fns, fn)
			}
		}
	}
	if fn := p.Method("pkg", "CloneTable", "IsCloned"); fn != nil {
		fns = append(fns, fn)
	}
	for _, fn := range fns {
		ws := receiverRootedWrites(fn)
		if len(ws) == 0 {
			c.OK(fnName(fn)+" / does not write through its receiver", p.Pos(fn.Pos()), "0 receiver-rooted stores")
			continue
		}
		var pos []string
		for _, w := range ws {
			pos = append(pos, p.InstrPos(w))
		}
		c.Fail(fnName(fn)+" / does not write through its receiver", pos[0], "writes memory of the origin ("+strings.Join(pos, ", ")+"): creating an instance / snapshot / catalogue would mutate the shared blueprint (a data race between concurrent NewKnowledgeBaseInstance calls)")
	}
}

// ---------- CLN-4 ----------

func ruleCLN4(c *Ctx) {
	p := c.P
	fn := p.Method("ast", "WorkingMemory", "Clone")
	if fn == nil {
		c.AnchorLost("(*ast.WorkingMemory).Clone")
		return
	}
	recv := receiver(fn)
	var cloneVal ssa.Value
	for _, ci := range callsIn(fn) {
		if calleeNameIs(ci, "NewWorkingMemory") {
			cloneVal = ci.Value()
		}
	}
	if cloneVal == nil {
		if al := cloneAlloc(fn, p.Named("ast", "WorkingMemory")); al != nil {
			cloneVal = al
		}
	}
	if cloneVal == nil {
		c.Fail("WorkingMemory.Clone / fresh working memory", p.Pos(fn.Pos()), "no fresh working memory")
		return
	}
	loops := naturalLoops(fn)
	fromCloneTable := func(v ssa.Value) bool {
		ok, _ := cloneProvenanceOK(p, v, 0)
		return ok
	}
	fields := []string{"expressionSnapshotMap", "expressionAtomSnapshotMap", "variableSnapshotMap", "expressionVariableMap", "expressionAtomVariableMap"}
	for _, fname := range fields {
		f := p.Field("ast", "WorkingMemory", fname)
		if f == nil {
			c.AnchorLost("WorkingMemory." + fname)
			continue
		}
		n, bad := 0, ""
		for _, b := range fn.Blocks {
			for _, in := range b.Instrs {
				mu, ok := in.(*ssa.MapUpdate)
				if !ok {
					continue
				}
				mf, base := fieldLoad(mu.Map)
				if mf != f || base != cloneVal {
					continue
				}
				n++
				// inside a range over the receiver's namesake
				l := innermostLoopOfAny(loops, b, func(l *Loop) bool {
					x := rangeOperand(l)
					if x == nil {
						return false
					}
					rf, rb := fieldLoad(x)
					return rf == f && rb == ssa.Value(recv)
				})
				if l == nil {
					bad = "populated outside a range over the origin's " + fname
					continue
				}
				if isString(mu.Key.Type()) {
					if !isRangeKeyOf(mu.Key, l) {
						bad = "string key is not the origin's key"
					}
				} else if !fromCloneTable(mu.Key) {
					bad = "key is not the clone-table instance of the origin's key"
				}
				if !fromCloneTable(mu.Value) {
					bad = "value is not a clone-table instance / fresh slice"
				}
			}
		}
		// element stores into slices of this map
		for _, b := range fn.Blocks {
			for _, in := range b.Instrs {
				st, ok := in.(*ssa.Store)
				if !ok {
					continue
				}
				ia, ok := st.Addr.(*ssa.IndexAddr)
				if !ok {
					continue
				}
				lk, ok := ia.X.(*ssa.Lookup)
				if !ok {
					continue
				}
				mf, base := fieldLoad(lk.X)
				if mf != f || base != cloneVal {
					continue
				}
				if !fromCloneTable(st.Val) {
					bad = "a list element is not a clone-table instance"
				}
				if !fromCloneTable(lk.Index) {
					bad = "a list is addressed by a key that is not a clone-table instance"
				}
			}
		}
		c.Check(n >= 1 && bad == "", "WorkingMemory.Clone / "+fname+" re-targeted", p.Pos(fn.Pos()), fmt.Sprintf("%d update(s), keys/values from the clone table, populated from the namesake", n), "the instance's "+fname+" is wrong: "+bad+fmt.Sprintf(" (updates=%d): resets on the instance would miss its own nodes or touch the blueprint's", n))
	}
}

func isString(t types.Type) bool {
	b, ok := t.Underlying().(*types.Basic)
	return ok && b.Info()&types.IsString != 0
}

func innermostLoopOfAny(loops []*Loop, b *ssa.BasicBlock, pred func(*Loop) bool) *Loop {
	var best *Loop
	for _, l := range loops {
		if l.Blocks[b] && pred(l) && (best == nil || len(l.Blocks) < len(best.Blocks)) {
			best = l
		}
	}
	return best
}

// ---------- CLN-5 ----------

func ruleCLN5(c *Ctx) {
	p := c.P
	// control on the fixture
	if fp, err := fixture(); err != nil {
		c.Control(false, err.Error())
	} else {
		gw := fp.Func("GlobalWriter")
		c.Control(gw != nil && len(globalWrites(gw)) >= 2, "global-store detector flags the fixture's GlobalWriter")
	}
	roots := map[string]*ssa.Function{
		"NewKnowledgeBaseInstance": p.Method("ast", "KnowledgeLibrary", "NewKnowledgeBaseInstance"),
		"Execute":                  p.Method("engine", "GruleEngine", "Execute"),
		"ExecuteWithContext":       p.Method("engine", "GruleEngine", "ExecuteWithContext"),
		"FetchMatchingRules":       p.Method("engine", "GruleEngine", "FetchMatchingRules"),
	}
	var names []string
	for n := range roots {
		names = append(names, n)
	}
	sort.Strings(names)
	for _, n := range names {
		root := roots[n]
		if root == nil {
			c.AnchorLost(n)
			continue
		}
		funcs := c.reachableModuleFuncs([]*ssa.Function{root}, true)
		var bad []string
		for f := range funcs {
			if f.Name() == "init" || strings.HasPrefix(f.Name(), "init#") {
				continue
			}
			for _, w := range globalWrites(f) {
				bad = append(bad, fnName(f)+" at "+p.InstrPos(w))
			}
		}
		sort.Strings(bad)
		c.Check(len(bad) == 0, n+" / reaches no store to a package-level variable of the module", p.Pos(root.Pos()), fmt.Sprintf("%d module functions reachable, 0 global stores", len(funcs)), "package-level state is written on a path that goroutines run concurrently: "+strings.Join(bad, "; "))
	}
	// cross-reference inside the repo: the serializer's byte counters are found by the same scan from the load path
	if ld := p.Method("ast", "KnowledgeLibrary", "LoadKnowledgeBaseFromReader"); ld != nil {
		n := 0
		for f := range c.reachableModuleFuncs([]*ssa.Function{ld}, false) {
			n += len(globalWrites(f))
		}
		c.Notes = append(c.Notes, fmt.Sprintf("CLN-5 cross-reference: the same scan from LoadKnowledgeBaseFromReader finds %d global stores (serializer byte counters; load/store is outside C09's concurrency clause)", n))
	}
}

// ---------- CLN-6 ----------

func ruleCLN6(c *Ctx) {
	p := c.P
	fn := p.Method("ast", "KnowledgeLibrary", "NewKnowledgeBaseInstance")
	if fn == nil {
		c.AnchorLost("NewKnowledgeBaseInstance")
		return
	}
	// (a) what is handed out is always a fresh clone, never the library's own knowledge base
	cloneFn := p.Method("ast", "KnowledgeBase", "Clone")
	nSucc, bad := 0, ""
	var clones []ssa.Value
	for _, ret := range returnsOf(fn) {
		if len(ret.Results) != 2 || !isNilConst(ret.Results[1]) {
			continue
		}
		nSucc++
		v := unspill(ret.Results[0])
		isClone := false
		var chk func(v ssa.Value, depth int) bool
		chk = func(v ssa.Value, depth int) bool {
			if depth > 4 {
				return false
			}
			switch x := v.(type) {
			case *ssa.Extract:
				if call, ok := x.Tuple.(*ssa.Call); ok && call.Call.StaticCallee() == cloneFn && x.Index == 0 {
					return true
				}
			case *ssa.Call:
				return x.Call.StaticCallee() == cloneFn
			case *ssa.Phi:
				for _, e := range x.Edges {
					if !chk(unspill(e), depth+1) {
						return false
					}
				}
				return len(x.Edges) > 0
			}
			return false
		}
		isClone = cloneFn != nil && chk(v, 0)
		if !isClone {
			bad = "the success return at " + p.InstrPos(ret) + " hands out something other than the result of KnowledgeBase.Clone"
		} else {
			clones = append(clones, v)
		}
	}
	c.Check(bad == "" && nSucc > 0, "NewKnowledgeBaseInstance / every instance is a fresh clone", p.Pos(fn.Pos()), fmt.Sprintf("%d success return(s), each yields Clone's result", nSucc), bad+": callers would execute (and mutate) the shared blueprint, so instances are no longer isolated from the library or from each other")
	// (b) when the structural self-check is made, its verdict gates the return (a check whose failure is ignored is a
	// contradiction; dropping the check altogether is allowed: CLN-1/2/4/7/8 decide the clone's fidelity structurally)
	var checks []*ssa.Call
	for _, ci := range callsIn(fn) {
		if call, ok := ci.(*ssa.Call); ok && calleeNameIs(call, "IsIdentical") {
			checks = append(checks, call)
		}
	}
	if len(checks) == 0 {
		c.OK("NewKnowledgeBaseInstance / a failed self-check is not ignored", p.Pos(fn.Pos()), "no IsIdentical self-check is made (fidelity of the clone is decided by CLN-1/2/4/7/8)")
		return
	}
	ok := false
	for _, ret := range returnsOf(fn) {
		if len(ret.Results) != 2 || !isNilConst(ret.Results[1]) || isNilConst(ret.Results[0]) {
			continue
		}
		clone := ret.Results[0]
		ok = edgesDominate(fn, ret, func(b *ssa.BasicBlock, si int) bool {
			iff, isIf := b.Instrs[len(b.Instrs)-1].(*ssa.If)
			if !isIf {
				return false
			}
			kind, sTrue, okc := condOn(iff.Cond, func(v ssa.Value) bool {
				call, isCall := v.(*ssa.Call)
				return isCall && calleeNameIs(call, "IsIdentical") && len(call.Call.Args) == 2 && call.Call.Args[1] == clone
			})
			return okc && kind == "bool" && si == sTrue
		})
	}
	c.Check(ok, "NewKnowledgeBaseInstance / a failed self-check is not ignored", p.Pos(fn.Pos()), "success return dominated by the true edge of IsIdentical", "IsIdentical is computed but a clone that failed it can still be returned")
}

// ---------- CLN-7 ----------

func ruleCLN7(c *Ctx) {
	p := c.P
	isCloned := p.Method("pkg", "CloneTable", "IsCloned")
	mark := p.Method("pkg", "CloneTable", "MarkCloned")
	if isCloned == nil || mark == nil {
		c.AnchorLost("pkg.CloneTable.IsCloned/MarkCloned")
		return
	}
	for _, n := range append(append([]string{}, nodeTypeNames...), "KnowledgeBase") {
		fn := p.Method("ast", n, "Clone")
		if fn == nil {
			continue
		}
		for _, ci := range callsIn(fn) {
			callee := ci.Common().StaticCallee()
			if callee == nil || publicName(callee) != "Clone" || callee.Signature.Recv() == nil || !fnInModule(callee) {
				continue
			}
			if isNamed(callee.Signature.Recv().Type(), fullPkg("ast"), "WorkingMemory") {
				continue // the working memory is cloned once, after all nodes (CLN-4)
			}
			child := ci.Common().Args[0]
			construct := fmt.Sprintf("%s / child %s", fnName(fn), childLabel(child))
			isIDOf := func(v ssa.Value) bool {
				f, base := fieldLoad(v)
				return f != nil && f.Name() == "AstID" && sameChild(base, child)
			}
			guarded := edgesDominate(fn, ci.(ssa.Instruction), func(b *ssa.BasicBlock, si int) bool {
				iff, isIf := b.Instrs[len(b.Instrs)-1].(*ssa.If)
				if !isIf {
					return false
				}
				kind, sTrue, okc := condOn(iff.Cond, func(v ssa.Value) bool {
					call, isCall := v.(*ssa.Call)
					return isCall && matchStatic(isCloned)(call) && isIDOf(call.Call.Args[1])
				})
				return okc && kind == "bool" && si == 1-sTrue
			})
			t, _ := reach(fn, ci.(ssa.Instruction), func(in ssa.Instruction) bool { _, r := in.(*ssa.Return); return r }, func(in ssa.Instruction) bool {
				mc, ok := in.(ssa.CallInstruction)
				if !ok || !matchStatic(mark)(mc) {
					return false
				}
				args := mc.Common().Args
				return len(args) == 5 && isIDOf(args[1]) && sameChild(stripConv(args[3]), child) && stripConv(args[4]) == ci.Value()
			}, nil)
			c.Check(guarded && t == nil, construct+" cloned once (IsCloned before, MarkCloned after)", p.InstrPos(ci), "guarded by !IsCloned(child.AstID), followed by MarkCloned(child.AstID, _, child, clone)",
				fmt.Sprintf("clone-table discipline broken for this child (lookupBefore=%v markedAfter=%v): a shared node would be duplicated in the instance, so the instance's working memory and its rule tree disagree", guarded, t == nil))
		}
	}
}

func childLabel(v ssa.Value) string {
	if f, _ := fieldLoad(v); f != nil {
		return f.Name()
	}
	if ex, ok := v.(*ssa.Extract); ok {
		if _, ok := ex.Tuple.(*ssa.Next); ok {
			return "range element"
		}
	}
	if u, ok := v.(*ssa.UnOp); ok && u.Op == token.MUL {
		if ia, ok := u.X.(*ssa.IndexAddr); ok {
			if f, _ := fieldLoad(ia.X); f != nil {
				return "element of " + f.Name()
			}
		}
	}
	return v.Name()
}

// sameChild: two SSA values denote the same child: identical, or loads of the same field of the same base, or the
// same range element.
func sameChild(a, b ssa.Value) bool {
	a, b = unspill(a), unspill(b)
	if a == b {
		return true
	}
	fa, ba := fieldLoad(a)
	fb, bb := fieldLoad(b)
	if fa != nil && fa == fb && ba == bb {
		return true
	}
	// element of the same slice at the same index
	sa, ia := elemOfSlice(a)
	sb, ib := elemOfSlice(b)
	if sa != nil && sb != nil && ia == ib && (sa == sb || sameChild(sa, sb)) {
		return true
	}
	return false
}

// CLN-8: the two functions every Clone relies on.
func ruleCLN8(c *Ctx) {
	p := c.P
	isCloned := p.Method("pkg", "CloneTable", "IsCloned")
	mark := p.Method("pkg", "CloneTable", "MarkCloned")
	rec := p.Field("pkg", "CloneTable", "Records")
	if isCloned == nil || mark == nil || rec == nil {
		c.AnchorLost("pkg.CloneTable")
		return
	}
	c.Check(lookupWrapper(isCloned) == rec, "CloneTable.IsCloned / reports presence of its argument in Records", p.Pos(isCloned.Pos()), "comma-ok lookup of the parameter in Records", "IsCloned does not answer `is this id recorded`: nodes are cloned twice or reuse never happens")
	ok := false
	why := "no update of Records"
	for _, b := range mark.Blocks {
		for _, in := range b.Instrs {
			mu, isMU := in.(*ssa.MapUpdate)
			if !isMU {
				continue
			}
			if f, base := fieldLoad(mu.Map); f != rec || base != ssa.Value(receiver(mark)) {
				continue
			}
			keyOK := len(mark.Params) == 5 && mu.Key == ssa.Value(mark.Params[1])
			al, isAlloc := mu.Value.(*ssa.Alloc)
			instOK := false
			if isAlloc {
				for _, r := range *al.Referrers() {
					fa, isFA := r.(*ssa.FieldAddr)
					if !isFA || fieldOfAddr(fa).Name() != "CloneInstance" {
						continue
					}
					for _, rr := range *fa.Referrers() {
						if st, isSt := rr.(*ssa.Store); isSt && len(mark.Params) == 5 && st.Val == ssa.Value(mark.Params[4]) {
							instOK = true
						}
					}
				}
			}
			if keyOK && instOK {
				ok = true
			} else {
				why = fmt.Sprintf("keyedByOriginID=%v cloneInstanceIsTheCloneArgument=%v", keyOK, instOK)
			}
		}
	}
	c.Check(ok, "CloneTable.MarkCloned / records the clone under the origin's id", p.Pos(mark.Pos()), "Records[originAst] = &CloneRecord{CloneInstance: clone}", "MarkCloned records something else ("+why+"): every later reuse from the clone table hands out the wrong instance (e.g. the origin itself)")
}

func init() {
	register("CLN-9", "node identifiers come from a source that is unique across processes, and every node gets a fresh one", 20, ruleCLN9)
}

// uniqueSourcePkgs: packages whose results are unique across processes and machines.
var uniqueSourcePkgs = map[string]bool{"github.com/google/uuid": true, "crypto/rand": true}

// derivesFromUniqueSource: every way the value can be produced passes through a call into a uniqueSourcePkgs package.
func derivesFromUniqueSource(v ssa.Value, depth int, seen map[ssa.Value]bool) bool {
	if v == nil || depth > 12 || seen[v] {
		return false
	}
	seen[v] = true
	defer delete(seen, v)
	switch v := v.(type) {
	case *ssa.Call:
		if f := v.Call.StaticCallee(); f != nil && f.Pkg != nil && uniqueSourcePkgs[f.Pkg.Pkg.Path()] {
			return true
		}
		if f := v.Call.StaticCallee(); f != nil && f.Signature.Recv() != nil {
			if n, ok := derefType(f.Signature.Recv().Type()).(*types.Named); ok && n.Obj().Pkg() != nil && uniqueSourcePkgs[n.Obj().Pkg().Path()] {
				return true
			}
		}
		// a formatting / conversion call is as unique as one of its arguments
		for _, a := range v.Call.Args {
			if derivesFromUniqueSource(a, depth+1, seen) {
				return true
			}
		}
		// a module helper: all its returns
		if f := v.Call.StaticCallee(); f != nil && f.Blocks != nil && f.Pkg != nil && strings.HasPrefix(f.Pkg.Pkg.Path(), modPath) {
			rets := returnsOf(f)
			if len(rets) == 0 {
				return false
			}
			for _, r := range rets {
				if len(r.Results) == 0 || !derivesFromUniqueSource(r.Results[0], depth+1, seen) {
					return false
				}
			}
			return true
		}
		return false
	case *ssa.Phi:
		for _, e := range v.Edges {
			if !derivesFromUniqueSource(e, depth+1, seen) {
				return false
			}
		}
		return len(v.Edges) > 0
	case *ssa.BinOp:
		return derivesFromUniqueSource(v.X, depth+1, seen) || derivesFromUniqueSource(v.Y, depth+1, seen)
	case *ssa.Extract:
		return derivesFromUniqueSource(v.Tuple, depth+1, seen)
	case *ssa.Convert:
		return derivesFromUniqueSource(v.X, depth+1, seen)
	case *ssa.ChangeType:
		return derivesFromUniqueSource(v.X, depth+1, seen)
	case *ssa.MakeInterface:
		return derivesFromUniqueSource(v.X, depth+1, seen)
	case *ssa.Slice:
		return derivesFromUniqueSource(v.X, depth+1, seen)
	case *ssa.UnOp:
		if v.Op == token.MUL {
			// load of a local filled by a unique source (e.g. var b [16]byte; rand.Read(b[:]))
			if al, ok := v.X.(*ssa.Alloc); ok {
				return allocFilledByUnique(al)
			}
		}
		return false
	case *ssa.Alloc:
		return allocFilledByUnique(v)
	}
	return false
}

func allocFilledByUnique(al *ssa.Alloc) bool {
	for _, r := range *al.Referrers() {
		switch r := r.(type) {
		case *ssa.Store:
			if r.Addr == ssa.Value(al) && derivesFromUniqueSource(r.Val, 1, map[ssa.Value]bool{}) {
				return true
			}
		case *ssa.Slice:
			for _, rr := range *r.Referrers() {
				if call, ok := rr.(*ssa.Call); ok {
					if f := call.Call.StaticCallee(); f != nil && f.Pkg != nil && uniqueSourcePkgs[f.Pkg.Pkg.Path()] {
						return true
					}
				}
			}
		}
	}
	return false
}

func derefType(t types.Type) types.Type {
	if p, ok := t.(*types.Pointer); ok {
		return p.Elem()
	}
	return t
}

func ruleCLN9(c *Ctx) {
	p := c.P
	newID := p.Func("ast/unique", "NewID")
	if newID == nil {
		c.AnchorLost("unique.NewID")
		return
	}
	rets := returnsOf(newID)
	ok := len(rets) > 0
	for _, r := range rets {
		if len(r.Results) != 1 || !derivesFromUniqueSource(r.Results[0], 0, map[ssa.Value]bool{}) {
			ok = false
		}
	}
	c.Check(ok, "unique.NewID / unique across processes", p.Pos(newID.Pos()), "every returned identifier derives from github.com/google/uuid or crypto/rand",
		"an identifier that is unique only inside this process (counter, clock, text): identifiers are persisted in stored knowledge bases and mixed with fresh ones when rules are added after loading, so nodes collide in the clone table and NewKnowledgeBaseInstance fails or cross-links nodes")
	// every node allocation in package ast takes its identifier from a fresh NewID call (or, when rebuilding, from the stored record)
	isNewIDCall := func(v ssa.Value) bool {
		call, ok := v.(*ssa.Call)
		return ok && call.Call.StaticCallee() == newID
	}
	build := p.Method("ast", "Catalog", "BuildKnowledgeBase")
	for _, fn := range p.ModuleFuncs() {
		if fn.Pkg == nil || fn.Pkg.Pkg.Path() != fullPkg("ast") || strings.HasSuffix(p.Pos(fn.Pos()), "_test.go") {
			continue
		}
		for _, b := range fn.Blocks {
			for _, in := range b.Instrs {
				al, ok := in.(*ssa.Alloc)
				if !ok || !al.Heap {
					continue
				}
				pt, ok := al.Type().(*types.Pointer)
				if !ok {
					continue
				}
				if _, isPtr := pt.Elem().(*types.Pointer); isPtr {
					continue // a spilled pointer variable, not a node
				}
				name, isNode := nodeTypeOf(pt.Elem())
				if !isNode {
					continue
				}
				var idField *types.Var
				var vals []ssa.Value
				for f, vs := range cloneFieldStores(fn, al) {
					if f.Name() == "AstID" {
						idField, vals = f, vs
					}
				}
				key := fmt.Sprintf("%s / new %s gets a fresh identifier", fnName(fn), name)
				if idField == nil || len(vals) == 0 {
					c.Fail(key, p.InstrPos(al), "the node is created without an AstID: all such nodes collide under the empty key in the clone table and in a stored catalogue")
					continue
				}
				good := true
				for _, v := range vals {
					if isNewIDCall(v) {
						continue
					}
					if fn == build {
						if lf, base := fieldLoad(v); lf != nil && lf.Name() == "AstID" && isMetaOf(base) {
							continue
						}
						if call, ok := v.(*ssa.Call); ok && call.Call.IsInvoke() && call.Call.Method.Name() == "GetAstID" && isNamed(call.Call.Value.Type(), fullPkg("ast"), "Meta") {
							continue
						}
					}
					good = false
				}
				c.Check(good, key, p.InstrPos(al), "AstID <- unique.NewID() (or the stored record's AstID when rebuilding)", "AstID does not come from a fresh unique.NewID() call: two nodes can carry the same identifier, and the clone table (keyed by AstID) hands one node's clone to the other's parents")
			}
		}
	}
}
