package main

import (
	"fmt"
	"go/token"
	"go/types"
	"sort"
	"strings"

	"golang.org/x/tools/go/ssa"
)

func init() {
	register("LDR-1", "error channels: lexer, parser and listener all report into the reporter that gates the result", 6, ruleLDR1)
	register("LDR-2", "the gate: nil is returned only when the reporter is empty, tested after the walk", 1, ruleLDR2)
	register("LDR-3", "listener error discipline: every error produced while building reaches the reporter", 15, ruleLDR3)
	register("LDR-4", "salience literal range is enforced and reported", 3, ruleLDR4)
	register("LDR-5", "a rejected text leaves no orphan node in the working memory", 1, ruleLDR5)
}

func (c *Ctx) reporterType() *types.Named { return c.P.Named("pkg", "GruleErrorReporter") }

// appendsToErrors: instruction stores append(recv.Errors, x) back into recv.Errors.
func appendsToErrors(p *Prog, fn *ssa.Function) []ssa.Instruction {
	ef := p.Field("pkg", "GruleErrorReporter", "Errors")
	var out []ssa.Instruction
	for _, b := range fn.Blocks {
		for _, in := range b.Instrs {
			f, base, val := fieldStore(in)
			if f == nil || f != ef || base != ssa.Value(receiver(fn)) {
				continue
			}
			if call, ok := val.(*ssa.Call); ok {
				if bi, ok := call.Call.Value.(*ssa.Builtin); ok && bi.Name() == "append" {
					if lf, lb := fieldLoad(call.Call.Args[0]); lf == ef && lb == ssa.Value(receiver(fn)) {
						out = append(out, in)
					}
				}
			}
		}
	}
	return out
}

func mustPass(fn *ssa.Function, is func(ssa.Instruction) bool) bool {
	t, _ := reach(fn, nil, func(in ssa.Instruction) bool { _, r := in.(*ssa.Return); return r }, is, nil)
	return t == nil
}

func ruleLDR1(c *Ctx) {
	p := c.P
	fn := p.Method("builder", "RuleBuilder", "BuildRuleFromResource")
	if fn == nil || c.reporterType() == nil {
		c.AnchorLost("BuildRuleFromResource / GruleErrorReporter")
		return
	}
	// the reporter object
	var rep *ssa.Alloc
	for _, b := range fn.Blocks {
		for _, in := range b.Instrs {
			if al, ok := in.(*ssa.Alloc); ok && types.Identical(al.Type(), types.NewPointer(c.reporterType())) {
				rep = al
			}
		}
	}
	if rep == nil {
		c.Fail("BuildRuleFromResource / reporter", p.Pos(fn.Pos()), "no GruleErrorReporter is created (anchor lost)")
		return
	}
	grl := findCalls(fn, func(ci ssa.CallInstruction) bool { return calleeNameIs(ci, "Grl") })
	if len(grl) == 0 {
		c.Fail("BuildRuleFromResource / parse call", p.Pos(fn.Pos()), "no psr.Grl() call (anchor lost)")
		return
	}
	// recognisers: values on which RemoveErrorListeners / AddErrorListener are called
	type rec struct {
		name       string
		removed    ssa.CallInstruction
		added      ssa.CallInstruction
		addedIsRep bool
		recognizer ssa.Value
	}
	byRecv := map[ssa.Value]*rec{}
	recvOf := func(ci ssa.CallInstruction) ssa.Value {
		if ci.Common().IsInvoke() {
			return ci.Common().Value
		}
		v := ci.Common().Args[0]
		// promoted through embedded fields: &lexer.BaseLexer.BaseRecognizer -> lexer
		for {
			switch x := v.(type) {
			case *ssa.FieldAddr:
				v = x.X
				continue
			case *ssa.UnOp:
				if _, ok := x.X.(*ssa.FieldAddr); ok {
					v = x.X
					continue
				}
			}
			break
		}
		return v
	}
	for _, ci := range callsIn(fn) {
		switch {
		case calleeNameIs(ci, "RemoveErrorListeners"):
			r := recvOf(ci)
			if byRecv[r] == nil {
				byRecv[r] = &rec{recognizer: r}
			}
			byRecv[r].removed = ci
		case calleeNameIs(ci, "AddErrorListener"):
			r := recvOf(ci)
			if byRecv[r] == nil {
				byRecv[r] = &rec{recognizer: r}
			}
			byRecv[r].added = ci
			args := ci.Common().Args
			byRecv[r].addedIsRep = derivesFromValue(args[len(args)-1], rep)
		}
	}
	// for every parse (SLL stage, LL stage): the parser is the receiver of Grl(), the lexer the one feeding its token stream
	lexerOf := func(psr ssa.Value) ssa.Value {
		var found ssa.Value
		backSlice(psr, func(v ssa.Value) bool {
			if found != nil {
				return false
			}
			if call, ok := v.(*ssa.Call); ok {
				for _, a := range call.Call.Args {
					x := a
					if mi, isMI := x.(*ssa.MakeInterface); isMI {
						x = mi.X
					}
					if strings.Contains(x.Type().String(), "Lexer") {
						found = x
						return false
					}
					// the token stream built from the lexer
					if inner, isCall := x.(*ssa.Call); isCall {
						for _, ia := range inner.Call.Args {
							y := ia
							if mi, isMI := y.(*ssa.MakeInterface); isMI {
								y = mi.X
							}
							if strings.Contains(y.Type().String(), "Lexer") {
								found = y
							}
						}
					}
				}
			}
			return found == nil
		})
		return found
	}
	for _, parse := range grl {
		psrV := recvOf(parse)
		for _, kind := range []string{"lexer", "parser"} {
			var r *rec
			switch kind {
			case "parser":
				r = byRecv[psrV]
			case "lexer":
				if lv := lexerOf(psrV); lv != nil {
					r = byRecv[lv]
				}
			}
			construct := "BuildRuleFromResource / " + kind + " reports into the reporter"
			if r == nil || r.removed == nil || r.added == nil {
				c.Fail(construct, p.InstrPos(parse.(ssa.Instruction)), "the "+kind+"'s default error listener is not replaced by the reporter: "+kind+" errors only go to the console and the text is accepted")
				continue
			}
			before := func(a, b ssa.Instruction) bool {
				return a.Block().Dominates(b.Block()) && (a.Block() != b.Block() || instrIndex(a) < instrIndex(b))
			}
			ok := r.addedIsRep && before(r.removed.(ssa.Instruction), r.added.(ssa.Instruction)) && before(r.added.(ssa.Instruction), parse.(ssa.Instruction))
			c.Check(ok, construct, p.InstrPos(r.added), "RemoveErrorListeners, then AddErrorListener(reporter), both before psr.Grl()", fmt.Sprintf("%s error channel broken (listenerIsTheReporter=%v, order remove<add<parse violated otherwise)", kind, r.addedIsRep))
		}
	}
	// the parser that parses is the one that got the reporter
	// the listener is built with the same reporter and the same knowledge base
	okL := false
	for _, ci := range callsIn(fn) {
		if calleeNameIs(ci, "NewGruleV3ParserListener") {
			args := ci.Common().Args
			if len(args) == 2 && derivesFromValue(args[1], rep) {
				okL = true
			}
		}
	}
	c.Check(okL, "BuildRuleFromResource / listener reports into the same reporter", p.Pos(fn.Pos()), "NewGruleV3ParserListener(kb, reporter)", "the tree listener is not given the reporter that gates the result: semantic errors (duplicate names, bad literals) are lost")
	// reporter methods: SyntaxError and AddError append on every path; HasError is true iff Errors is non-empty
	for _, mn := range []string{"SyntaxError", "AddError"} {
		m := p.Method("pkg", "GruleErrorReporter", mn)
		if m == nil {
			c.AnchorLost("(*pkg.GruleErrorReporter)." + mn)
			continue
		}
		apps := appendsToErrors(p, m)
		ok := len(apps) > 0 && mustPass(m, func(in ssa.Instruction) bool {
			for _, a := range apps {
				if in == a {
					return true
				}
			}
			return false
		})
		c.Check(ok, "GruleErrorReporter."+mn+" / records an error on every path", p.Pos(m.Pos()), "append to Errors on every path", mn+" can return without recording the error (e.g. only for some kinds of offending symbol): such errors are silently dropped and the text is accepted")
	}
	he := p.Method("pkg", "GruleErrorReporter", "HasError")
	okH := false
	if he != nil {
		// every return value derives only from Errors (len > 0 / != nil)
		okH = true
		ef := p.Field("pkg", "GruleErrorReporter", "Errors")
		usesLen := false
		for _, b := range he.Blocks {
			for _, in := range b.Instrs {
				if bo, ok := in.(*ssa.BinOp); ok {
					if call, ok := bo.X.(*ssa.Call); ok {
						if bi, ok := call.Call.Value.(*ssa.Builtin); ok && bi.Name() == "len" {
							if f, _ := fieldLoad(call.Call.Args[0]); f == ef {
								if k, ok := constInt(bo.Y); ok && ((bo.Op == token.GTR && k == 0) || (bo.Op == token.NEQ && k == 0) || (bo.Op == token.GEQ && k == 1)) {
									usesLen = true
								} else {
									okH = false
								}
							}
						}
					}
				}
				if fa, ok := in.(*ssa.FieldAddr); ok && fieldOfAddr(fa) != ef {
					okH = false
				}
			}
		}
		okH = okH && usesLen
	}
	c.Check(okH, "GruleErrorReporter.HasError / true exactly when an error was recorded", "pkg/errorReporter.go", "len(Errors) > 0", "HasError no longer reflects whether errors were recorded")
}

func ruleLDR2(c *Ctx) {
	p := c.P
	fn := p.Method("builder", "RuleBuilder", "BuildRuleFromResource")
	if fn == nil {
		c.AnchorLost("BuildRuleFromResource")
		return
	}
	walks := findCalls(fn, func(ci ssa.CallInstruction) bool {
		f, _ := calleeOf(ci)
		return f != nil && f.Name() == "Walk" && strings.Contains(f.String(), "antlr")
	})
	hasErr := p.Method("pkg", "GruleErrorReporter", "HasError")
	if len(walks) == 0 || hasErr == nil {
		c.AnchorLost("tree walk / HasError")
		return
	}
	w := walks[0]
	construct := "BuildRuleFromResource / nil only through !HasError() after the walk"
	ok := true
	why := ""
	nNil := 0
	for _, ret := range returnsOf(fn) {
		v := ret.Results[0]
		if !isNilConst(v) {
			continue
		}
		// nil returns before the walk are impossible (only error returns) — all nil returns must be after it
		if !w.Block().Dominates(ret.Block()) {
			ok, why = false, "a nil return at "+p.InstrPos(ret)+" is not preceded by the tree walk"
			continue
		}
		nNil++
		dom := edgesDominate(fn, ret, func(b *ssa.BasicBlock, si int) bool {
			iff, isIf := b.Instrs[len(b.Instrs)-1].(*ssa.If)
			if !isIf || !w.Block().Dominates(b) {
				return false
			}
			kind, sTrue, okc := condOn(iff.Cond, func(v ssa.Value) bool {
				call, isCall := v.(*ssa.Call)
				return isCall && matchStatic(hasErr)(call)
			})
			if okc && kind == "bool" && si == 1-sTrue {
				return true
			}
			// the same test spelled out: len(reporter.Errors) > 0
			if bo, isBo := iff.Cond.(*ssa.BinOp); isBo {
				if lc, isCall := bo.X.(*ssa.Call); isCall {
					if bi, isB := lc.Call.Value.(*ssa.Builtin); isB && bi.Name() == "len" {
						if f, _ := fieldLoad(lc.Call.Args[0]); f != nil && f == p.Field("pkg", "GruleErrorReporter", "Errors") {
							if k, okk := constInt(bo.Y); okk {
								switch {
								case bo.Op == token.GTR && k == 0, bo.Op == token.NEQ && k == 0, bo.Op == token.GEQ && k == 1:
									return si == 1
								case bo.Op == token.EQL && k == 0, bo.Op == token.LSS && k == 1:
									return si == 0
								}
							}
						}
					}
				}
			}
			return false
		})
		if !dom {
			ok, why = false, "the nil return at "+p.InstrPos(ret)+" is reachable without passing the `no error recorded` edge of HasError() evaluated after the walk"
		}
	}
	// the HasError true edge returns the reporter
	for _, b := range fn.Blocks {
		iff, isIf := b.Instrs[len(b.Instrs)-1].(*ssa.If)
		if !isIf {
			continue
		}
		kind, sTrue, okc := condOn(iff.Cond, func(v ssa.Value) bool {
			call, isCall := v.(*ssa.Call)
			return isCall && matchStatic(hasErr)(call)
		})
		if !okc || kind != "bool" {
			continue
		}
		if !w.Block().Dominates(b) {
			continue // a look at the reporter before the walk decides how to parse (SLL first, then LL), it is not the gate
		}
		if !allReturnsNonNil(b.Succs[sTrue]) {
			ok, why = false, "the `errors recorded` edge does not end in an error return"
		}
	}
	c.Check(ok && nNil >= 1, construct, p.Pos(fn.Pos()), fmt.Sprintf("%d nil return(s), all gated", nNil), why)
}

// ---------- LDR-3 ----------

var ldr3Exempt = map[string]string{
	"(*builder.RuleBuilder).BuildRuleFromResource / (*ast.KnowledgeBase).AddRuleEntry": "the builder's second AddRuleEntry loop after the walk ignores its error on purpose: the listener's ExitGrl already reported the duplicate through the reporter",
	"(*builder.RuleBuilder).BuildRuleFromResource / (pkg.Resource).Load":               "handled by LDR-2/ERR discipline: the load error is returned directly before any parsing",
}

func ruleLDR3(c *Ctx) {
	p := c.P
	addErr := func(ci ssa.CallInstruction) bool { return calleeNameIs(ci, "AddError") }
	var funcs []*ssa.Function
	for _, fn := range p.ModuleFuncs() {
		if fnPkgShort(fn) == "antlr" {
			funcs = append(funcs, fn)
		}
	}
	if b := p.Method("builder", "RuleBuilder", "BuildRuleFromResource"); b != nil {
		funcs = append(funcs, b)
	}
	n := 0
	for _, fn := range funcs {
		ei := errResultIndex(fn.Signature)
		for _, ci := range errCallSites(fn) {
			n++
			key := fnName(fn) + " / " + calleeName(ci)
			construct := fmt.Sprintf("%s / error of %s reaches the reporter", fnName(fn), calleeName(ci))
			if reason, ok := ldr3Exempt[key]; ok {
				c.OK(construct+" [exempt]", p.InstrPos(ci), "frozen exemption: "+reason)
				continue
			}
			des := resultValues(ci, errResultIndex(ci.Common().Signature()))
			if len(des) == 0 || allUnused(des) {
				c.Fail(construct, p.InstrPos(ci), "the error result is discarded: a failure while building the rule is lost and the text is accepted")
				continue
			}
			q := &AQuery{Fn: fn, From: ci.(ssa.Instruction), Designated: des, Assume: AssumeNonNil,
				IsTarget: func(in ssa.Instruction, st *AState) bool {
					ret, ok := in.(*ssa.Return)
					if !ok {
						return false
					}
					if ei >= 0 && st.Tri(ret.Results[ei]) == TriNonNil {
						return false // propagated
					}
					return true
				},
				IsBlocker: func(in ssa.Instruction, st *AState) bool {
					call, ok := in.(ssa.CallInstruction)
					if !ok || !addErr(call) {
						return false
					}
					args := call.Common().Args
					arg := args[len(args)-1]
					return derivesFromAlias(arg, st)
				},
			}
			r := q.Run()
			if r.Found != nil {
				c.Fail(construct, p.InstrPos(ci), "when "+calleeName(ci)+" fails the callback can return at "+p.InstrPos(r.Found)+" without handing the error to ErrorCallback.AddError: the text would be accepted although building this rule failed", pathString(p, r.Path)...)
			} else if r.Overflow {
				c.Undecided(construct, p.InstrPos(ci), "path search exceeded its state budget")
			} else {
				c.OK(construct, p.InstrPos(ci), "every failing path passes AddError(err) (or propagates the error)")
			}
		}
	}
	c.Notes = append(c.Notes, fmt.Sprintf("LDR-3 analysed %d error-producing call sites in the listener package and the builder", n))
}

// derivesFromAlias: v is the designated error, or an error/string built from it (fmt.Errorf operand, err.Error()).
func derivesFromAlias(v ssa.Value, st *AState) bool {
	found := false
	backSliceKeys(v, func(x ssa.Value) bool {
		if found {
			return false
		}
		if st.IsAlias(x) {
			found = true
			return false
		}
		return true
	})
	return found
}

// ---------- LDR-4 ----------

func ruleLDR4(c *Ctx) {
	p := c.P
	fn := p.Method("ast", "Salience", "AcceptIntegerLiteral")
	acc := p.Method("ast", "RuleEntry", "AcceptSalience")
	if fn == nil || acc == nil {
		c.AnchorLost("Salience.AcceptIntegerLiteral / RuleEntry.AcceptSalience")
		return
	}
	sv := p.Field("ast", "Salience", "SalienceValue")
	// (a) the store to SalienceValue is dominated by both int32 bounds on the literal
	okStore := false
	var storeIn ssa.Instruction
	for _, b := range fn.Blocks {
		for _, in := range b.Instrs {
			f, _, _ := fieldStore(in)
			if f == sv && f != nil {
				storeIn = in
			}
		}
	}
	boundEdge := func(lo bool) func(b *ssa.BasicBlock, si int) bool {
		return func(b *ssa.BasicBlock, si int) bool {
			iff, isIf := b.Instrs[len(b.Instrs)-1].(*ssa.If)
			if !isIf {
				return false
			}
			bo, isBo := iff.Cond.(*ssa.BinOp)
			if !isBo {
				return false
			}
			k, isK := constInt(bo.Y)
			if !isK {
				return false
			}
			if f, _ := fieldLoad(bo.X); f == nil || f.Name() != "Integer" {
				return false
			}
			if lo {
				// x >= MinInt32 (true edge) / x < MinInt32 (false edge)
				return (bo.Op == token.GEQ && k == -2147483648 && si == 0) || (bo.Op == token.LSS && k == -2147483648 && si == 1) || (bo.Op == token.GTR && k == -2147483649 && si == 0)
			}
			return (bo.Op == token.LEQ && k == 2147483647 && si == 0) || (bo.Op == token.GTR && k == 2147483647 && si == 1) || (bo.Op == token.LSS && k == 2147483648 && si == 0)
		}
	}
	if storeIn != nil {
		okStore = edgesDominate(fn, storeIn, boundEdge(true)) && edgesDominate(fn, storeIn, boundEdge(false))
	}
	c.Check(okStore, "Salience.AcceptIntegerLiteral / value stored only within the int32 range", p.Pos(fn.Pos()), "store dominated by >= MinInt32 and <= MaxInt32", "a salience outside the 32-bit range is stored (truncated on 32-bit platforms, or unchecked)")
	// (b) out of range is recorded as an error on the node (no panic: LDR-6) and (c) RuleEntry.AcceptSalience returns it before storing
	errF := p.Field("ast", "Salience", "Err")
	okRec := false
	if errF != nil {
		q := &AQuery{Fn: fn, Assume: AssumeNil}
		st := &AState{q: q, alias: map[ssa.Value]bool{}, holds: map[*ssa.Alloc]ssa.Value{}, taint: map[ssa.Value]bool{}}
		for _, b := range fn.Blocks {
			for _, in := range b.Instrs {
				f, _, val := fieldStore(in)
				if f == errF && st.Tri(val) == TriNonNil {
					// every path that does not store the value stores the error
					t, _ := reach(fn, nil, func(x ssa.Instruction) bool { _, r := x.(*ssa.Return); return r }, func(x ssa.Instruction) bool { return x == in || x == storeIn }, nil)
					okRec = t == nil
				}
			}
		}
	}
	c.Check(okRec, "Salience.AcceptIntegerLiteral / out-of-range literal is recorded as an error", p.Pos(fn.Pos()), "every path stores either the value or a non-nil Err", "an out-of-range salience is neither stored nor recorded: the rule silently gets salience 0")
	okAcc := false
	if errF != nil {
		salF := p.Field("ast", "RuleEntry", "Salience")
		for _, b := range acc.Blocks {
			for _, in := range b.Instrs {
				f, _, _ := fieldStore(in)
				if f != salF || f == nil {
					continue
				}
				okAcc = edgesDominate(acc, in, func(bb *ssa.BasicBlock, si int) bool {
					iff, isIf := bb.Instrs[len(bb.Instrs)-1].(*ssa.If)
					if !isIf {
						return false
					}
					kind, sNil, okc := condOn(iff.Cond, func(v ssa.Value) bool {
						lf, _ := fieldLoad(v)
						return lf == errF
					})
					if !okc || kind != "nil" || si != sNil {
						return false
					}
					return onlyErrorReturnsLoose(bb.Succs[1-sNil])
				})
			}
		}
	}
	c.Check(okAcc, "RuleEntry.AcceptSalience / a recorded salience error is returned, not applied", p.Pos(acc.Pos()), "Err != nil returns it before the salience is stored (the listener forwards it to the reporter: LDR-3)", "the salience error recorded on the node is ignored when the rule entry accepts it")
}

// onlyErrorReturnsLoose: the block returns a non-nil-tested value (the tested field itself).
func onlyErrorReturnsLoose(b *ssa.BasicBlock) bool {
	ret, ok := b.Instrs[len(b.Instrs)-1].(*ssa.Return)
	if !ok || len(ret.Results) == 0 {
		return false
	}
	v := ret.Results[len(ret.Results)-1]
	if isNilConst(v) {
		return false
	}
	f, _ := fieldLoad(v)
	return f != nil || returnsNonNilError(ret)
}

// ---------- LDR-5 ----------

func ruleLDR5(c *Ctx) {
	p := c.P
	fn := p.Method("builder", "RuleBuilder", "BuildRuleFromResource")
	if fn == nil {
		c.AnchorLost("BuildRuleFromResource")
		return
	}
	snaps := map[*types.Var]bool{}
	for _, n := range []string{"expressionSnapshotMap", "expressionAtomSnapshotMap", "variableSnapshotMap"} {
		if f := p.Field("ast", "WorkingMemory", n); f != nil {
			snaps[f] = true
		}
	}
	// pruners: module functions that delete from / replace the snapshot maps
	var pruners []*ssa.Function
	for _, f := range p.ModuleFuncs() {
		if f.Name() == "NewWorkingMemory" || f.Name() == "Clone" || f.Name() == "BuildKnowledgeBase" {
			continue
		}
		prunes := false
		for _, b := range f.Blocks {
			for _, in := range b.Instrs {
				if ci, ok := in.(ssa.CallInstruction); ok {
					if bi, ok := ci.Common().Value.(*ssa.Builtin); ok && bi.Name() == "delete" {
						if mf, _ := fieldLoad(ci.Common().Args[0]); snaps[mf] {
							prunes = true
						}
					}
				}
				if sf, _, val := fieldStore(in); sf != nil && snaps[sf] {
					if _, ok := val.(*ssa.MakeMap); ok {
						prunes = true
					}
				}
			}
		}
		if prunes {
			pruners = append(pruners, f)
		}
	}
	construct := "BuildRuleFromResource / rejected text leaves no orphan nodes in the working memory"
	if len(pruners) == 0 {
		c.Fail(construct, p.Pos(fn.Pos()), "nodes are inserted into the snapshot maps while the text is parsed (INV-11) and WorkingMemory.Clone fails on any node not reachable from a rule entry (CLN-4), but no function of the module ever removes a node from these maps: after one rejected text every later NewKnowledgeBaseInstance fails with `not on the clone table`")
		return
	}
	isPrune := matchStatic(pruners...)
	hasErr := p.Method("pkg", "GruleErrorReporter", "HasError")
	bad := ""
	for _, ret := range returnsOf(fn) {
		if isNilConst(ret.Results[0]) {
			continue
		}
		// only the returns after the walk matter
		walks := findCalls(fn, func(ci ssa.CallInstruction) bool {
			f, _ := calleeOf(ci)
			return f != nil && f.Name() == "Walk"
		})
		if len(walks) == 0 || !walks[0].Block().Dominates(ret.Block()) {
			continue
		}
		t, _ := reach(fn, walks[0].(ssa.Instruction), func(in ssa.Instruction) bool { return in == ssa.Instruction(ret) }, func(in ssa.Instruction) bool {
			ci, ok := in.(ssa.CallInstruction)
			if !ok {
				return false
			}
			if isPrune(ci) {
				return true
			}
			callee := ci.Common().StaticCallee()
			if callee != nil && fnInModule(callee) && callee != hasErr {
				for f := range c.reachableModuleFuncs([]*ssa.Function{callee}, false) {
					for _, pr := range pruners {
						if f == pr {
							return true
						}
					}
				}
			}
			return false
		}, nil)
		if t != nil {
			bad = p.InstrPos(ret)
		}
	}
	c.Check(bad == "", construct, p.Pos(fn.Pos()), "every error return after the walk passes a pruning call", "the error return at "+bad+" is reachable without pruning the nodes of the rejected text from the working memory")
	// ... and none of its rules in the knowledge base (D40): the rule the parser gave up on is registered half built
	// (`then F.Z = ;` recovers without an error node) and fails every later run, which damages the rules loaded before.
	// Every error return after the walk passes DiscardRuleEntries(the entries of this text), and that before the
	// pruning, which keeps what the remaining rule entries reach.
	discard := p.Method("ast", "KnowledgeBase", "DiscardRuleEntries")
	grlEntries := p.Field("ast", "Grl", "RuleEntries")
	construct2 := "BuildRuleFromResource / rejected text leaves none of its rules in the knowledge base"
	if discard == nil {
		c.Fail(construct2, p.Pos(fn.Pos()), "the rules of a rejected text stay registered: `rule B { when F.X > 1 then F.Z = ; }` is refused with a syntax error and B is in the knowledge base with an empty right-hand side; the next Execute ends in `error while executing rule B` and the rules loaded before no longer run; the complete rules of the text stay as well, so the corrected text is refused as a duplicate")
		return
	}
	bad2 := ""
	for _, ret := range returnsOf(fn) {
		if isNilConst(ret.Results[0]) {
			continue
		}
		walks := findCalls(fn, func(ci ssa.CallInstruction) bool {
			f, _ := calleeOf(ci)
			return f != nil && f.Name() == "Walk"
		})
		if len(walks) == 0 || !walks[0].Block().Dominates(ret.Block()) {
			continue
		}
		isDiscard := func(in ssa.Instruction) bool {
			ci, ok := in.(ssa.CallInstruction)
			if !ok || ci.Common().StaticCallee() != discard || len(ci.Common().Args) < 2 {
				return false
			}
			f, _ := fieldLoad(ci.Common().Args[1])
			return f == grlEntries
		}
		if t, _ := reach(fn, walks[0].(ssa.Instruction), func(in ssa.Instruction) bool { return in == ssa.Instruction(ret) }, isDiscard, nil); t != nil {
			bad2 = "the error return at " + p.InstrPos(ret) + " is reachable without discarding the rule entries of the rejected text"
		}
		// order: no pruning call is reached before the discard
		if t, _ := reach(fn, walks[0].(ssa.Instruction), func(in ssa.Instruction) bool {
			ci, ok := in.(ssa.CallInstruction)
			return ok && isPrune(ci)
		}, isDiscard, nil); t != nil && bad2 == "" {
			bad2 = "the working memory is pruned at " + p.InstrPos(t) + " before the entries are discarded: the nodes of the discarded rules are still reachable then and stay behind"
		}
	}
	c.Check(bad2 == "", construct2, p.Pos(fn.Pos()), "DiscardRuleEntries(entries of this text) before the pruning on every error return after the walk", bad2)
}

var _ = sort.Strings

// allReturnsNonNil: every return reachable from start yields a definitely non-nil error (loops allowed).
func allReturnsNonNil(start *ssa.BasicBlock) bool {
	seen := map[*ssa.BasicBlock]bool{}
	stack := []*ssa.BasicBlock{start}
	n := 0
	for len(stack) > 0 {
		b := stack[len(stack)-1]
		stack = stack[:len(stack)-1]
		if seen[b] {
			continue
		}
		seen[b] = true
		if ret, ok := b.Instrs[len(b.Instrs)-1].(*ssa.Return); ok {
			n++
			v := ret.Results[len(ret.Results)-1]
			if _, isMI := v.(*ssa.MakeInterface); !isMI && !returnsNonNilError(ret) {
				return false
			}
			continue
		}
		stack = append(stack, b.Succs...)
	}
	return n > 0
}
