package main

import (
	"fmt"
	"go/ast"
	"go/token"
	"go/types"
	"sort"
	"strings"

	"golang.org/x/tools/go/ssa"
)

func init() {
	register("OPT-9", "kind tables of the binary pkg.Evaluate* functions: complete width sets, matching accessors, one operator, one conversion scheme", 100, ruleOPT9)
	register("OPT-10", "comparison siblings agree cell by cell, mirror each other, and compare instants for times", 60, ruleOPT10)
	register("OPT-14", "every operand is unwrapped with GetValueElem first", 17, ruleOPT14)
}

var kindClasses = map[string][]string{
	"int":   {"Int", "Int16", "Int32", "Int64", "Int8"},
	"uint":  {"Uint", "Uint16", "Uint32", "Uint64", "Uint8"},
	"float": {"Float32", "Float64"},
}

var classAccessor = map[string]string{"int": "Int", "uint": "Uint", "float": "Float", "string": "String", "bool": "Bool"}

// kindClass maps a case list of reflect.Kind selectors to a class.
func kindClass(list []ast.Expr) string {
	var names []string
	for _, e := range list {
		if se, ok := e.(*ast.SelectorExpr); ok {
			names = append(names, se.Sel.Name)
		} else {
			names = append(names, types.ExprString(e))
		}
	}
	sort.Strings(names)
	if len(names) == 1 {
		switch names[0] {
		case "String":
			return "string"
		case "Bool":
			return "bool"
		}
	}
	for cls, want := range kindClasses {
		if strings.Join(names, ",") == strings.Join(want, ",") {
			return cls
		}
		// partial sets are reported with their content
		all := true
		for _, n := range names {
			if !contains(want, n) {
				all = false
			}
		}
		if all && len(names) > 0 {
			var missing []string
			for _, w := range want {
				if !contains(names, w) {
					missing = append(missing, w)
				}
			}
			return "partial-" + cls + "(missing " + strings.Join(missing, ",") + ")"
		}
	}
	return "other(" + strings.Join(names, ",") + ")"
}

// kcell is one cell of a kind table.
type kcell struct {
	L, R       string
	AccL, AccR string
	Expr       ast.Expr // argument of reflect.ValueOf in the value return; nil for error cells
	IsErr      bool
	Raw        string // canonical rendering of Expr with operands named L and R
	Op         token.Token
	ConvL      string
	ConvR      string
	Simple     bool // Expr is `conv?(L) op conv?(R)`
	Extra      int  // statements of the cell other than the operand accessor assignment and the single return
	Pos        token.Pos
}

func (k kcell) key() string { return k.L + "·" + k.R }

type ktable struct {
	Fn       string
	Cells    map[string]kcell
	Order    []string
	Problems []string
	Pos      token.Pos
}

func isKindCall(e ast.Expr, operand string) bool {
	call, ok := e.(*ast.CallExpr)
	if !ok {
		return false
	}
	se, ok := call.Fun.(*ast.SelectorExpr)
	if !ok || se.Sel.Name != "Kind" {
		return false
	}
	id, ok := se.X.(*ast.Ident)
	return ok && id.Name == operand
}

// accessorAssign finds `<name> := <operand>.<Acc>()` in stmts and returns (local name, accessor).
func accessorAssign(stmts []ast.Stmt, operand string) (string, string) {
	for _, st := range stmts {
		as, ok := st.(*ast.AssignStmt)
		if !ok || len(as.Lhs) != 1 || len(as.Rhs) != 1 {
			continue
		}
		call, ok := as.Rhs[0].(*ast.CallExpr)
		if !ok {
			continue
		}
		// operand.Acc()  or operand.Interface().(time.Time)
		if se, ok := call.Fun.(*ast.SelectorExpr); ok {
			if id, ok := se.X.(*ast.Ident); ok && id.Name == operand {
				if l, ok := as.Lhs[0].(*ast.Ident); ok {
					return l.Name, se.Sel.Name
				}
			}
		}
	}
	for _, st := range stmts {
		as, ok := st.(*ast.AssignStmt)
		if !ok || len(as.Lhs) != 1 || len(as.Rhs) != 1 {
			continue
		}
		if ta, ok := as.Rhs[0].(*ast.TypeAssertExpr); ok {
			if strings.HasPrefix(types.ExprString(ta.X), operand+".Interface()") {
				if l, ok := as.Lhs[0].(*ast.Ident); ok {
					return l.Name, "Interface().(" + types.ExprString(ta.Type) + ")"
				}
			}
		}
	}
	return "", ""
}

// valueReturn finds the first `return reflect.ValueOf(X), nil|err` in stmts (not descending into nested switch/if).
func valueReturn(stmts []ast.Stmt) (ast.Expr, bool, bool) {
	for _, st := range stmts {
		rs, ok := st.(*ast.ReturnStmt)
		if !ok || len(rs.Results) != 2 {
			continue
		}
		isErr := types.ExprString(rs.Results[1]) != "nil"
		if call, ok := rs.Results[0].(*ast.CallExpr); ok && types.ExprString(call.Fun) == "reflect.ValueOf" && len(call.Args) == 1 {
			return call.Args[0], isErr, true
		}
		return rs.Results[0], isErr, true
	}
	return nil, false, false
}

// extraStmts counts statements that are neither a simple `x := operand.Acc()` assignment nor the final return.
func extraStmts(stmts []ast.Stmt) int {
	n := 0
	rets := 0
	for _, st := range stmts {
		switch x := st.(type) {
		case *ast.AssignStmt:
			if len(x.Lhs) == 1 && len(x.Rhs) == 1 {
				continue
			}
			n++
		case *ast.ReturnStmt:
			rets++
			if rets > 1 {
				n++
			}
		default:
			n++
		}
	}
	return n
}

func renameExpr(e ast.Expr, lname, rname string) string {
	s := types.ExprString(e)
	repl := func(s, from, to string) string {
		if from == "" {
			return s
		}
		var sb strings.Builder
		for i := 0; i < len(s); {
			if strings.HasPrefix(s[i:], from) {
				before := i == 0 || !isIdentChar(s[i-1])
				after := i+len(from) >= len(s) || !isIdentChar(s[i+len(from)])
				if before && after {
					sb.WriteString(to)
					i += len(from)
					continue
				}
			}
			sb.WriteByte(s[i])
			i++
		}
		return sb.String()
	}
	return repl(repl(s, lname, "L"), rname, "R")
}

func isIdentChar(b byte) bool {
	return b == '_' || (b >= '0' && b <= '9') || (b >= 'a' && b <= 'z') || (b >= 'A' && b <= 'Z')
}

func analyseCell(c *kcell, lname, rname string) {
	if c.Expr == nil {
		return
	}
	c.Raw = renameExpr(c.Expr, lname, rname)
	be, ok := c.Expr.(*ast.BinaryExpr)
	if !ok {
		return
	}
	side := func(e ast.Expr, name string) (string, bool) {
		if id, ok := e.(*ast.Ident); ok && id.Name == name {
			return "", true
		}
		if call, ok := e.(*ast.CallExpr); ok && len(call.Args) == 1 {
			if id, ok := call.Args[0].(*ast.Ident); ok && id.Name == name {
				if f, ok := call.Fun.(*ast.Ident); ok {
					return f.Name, true
				}
			}
		}
		return "", false
	}
	cl, okl := side(be.X, lname)
	cr, okr := side(be.Y, rname)
	if okl && okr {
		c.Simple, c.Op, c.ConvL, c.ConvR = true, be.Op, cl, cr
	}
}

// extractKindTable extracts the cell table of one pkg.Evaluate* function.
func extractKindTable(fd *ast.FuncDecl) *ktable {
	t := &ktable{Fn: fd.Name.Name, Cells: map[string]kcell{}, Pos: fd.Pos()}
	if len(fd.Type.Params.List) == 0 {
		return t
	}
	var params []string
	for _, f := range fd.Type.Params.List {
		for _, n := range f.Names {
			params = append(params, n.Name)
		}
	}
	if len(params) != 2 {
		return t
	}
	lp, rp := params[0], params[1]
	add := func(c kcell) {
		if _, dup := t.Cells[c.key()]; dup {
			t.Problems = append(t.Problems, "duplicate cell "+c.key())
		}
		t.Cells[c.key()] = c
		t.Order = append(t.Order, c.key())
	}
	var outer *ast.SwitchStmt
	for _, st := range fd.Body.List {
		if sw, ok := st.(*ast.SwitchStmt); ok && sw.Tag != nil && isKindCall(sw.Tag, lp) {
			outer = sw
		}
	}
	if outer == nil {
		t.Problems = append(t.Problems, "no switch on "+lp+".Kind()")
		return t
	}
	for _, st := range outer.Body.List {
		cc := st.(*ast.CaseClause)
		if cc.List == nil {
			// default: time handling `if left.Type().String() == "time.Time" && right... { ... }`
			for _, s := range cc.Body {
				is, ok := s.(*ast.IfStmt)
				if !ok {
					continue
				}
				cond := types.ExprString(is.Cond)
				if strings.Contains(cond, `"time.Time"`) {
					lname, lacc := accessorAssign(is.Body.List, lp)
					rname, racc := accessorAssign(is.Body.List, rp)
					e, isErr, found := valueReturn(is.Body.List)
					c := kcell{L: "time", R: "time", AccL: lacc, AccR: racc, Pos: is.Pos(), Extra: extraStmts(is.Body.List)}
					if strings.Count(cond, `"time.Time"`) != 2 || !strings.Contains(cond, "&&") {
						t.Problems = append(t.Problems, "time cell does not test both operands")
					}
					if found {
						c.Expr, c.IsErr = e, isErr
					}
					analyseCell(&c, lname, rname)
					add(c)
				}
			}
			continue
		}
		L := kindClass(cc.List)
		lname, lacc := accessorAssign(cc.Body, lp)
		handled := false
		for _, s := range cc.Body {
			switch x := s.(type) {
			case *ast.SwitchStmt:
				if x.Tag == nil || !isKindCall(x.Tag, rp) {
					continue
				}
				handled = true
				for _, ist := range x.Body.List {
					icc := ist.(*ast.CaseClause)
					if icc.List == nil {
						// default of inner switch: maybe a time cell (string + time) or error
						for _, ds := range icc.Body {
							if is, ok := ds.(*ast.IfStmt); ok && strings.Contains(types.ExprString(is.Cond), `"time.Time"`) {
								rname, racc := accessorAssign(is.Body.List, rp)
								e, isErr, found := valueReturn(is.Body.List)
								c := kcell{L: L, R: "time", AccL: lacc, AccR: racc, Pos: is.Pos()}
								if found {
									c.Expr, c.IsErr = e, isErr
								}
								analyseCell(&c, lname, rname)
								add(c)
							}
						}
						continue
					}
					R := kindClass(icc.List)
					rname, racc := accessorAssign(icc.Body, rp)
					e, isErr, found := valueReturn(icc.Body)
					c := kcell{L: L, R: R, AccL: lacc, AccR: racc, Pos: icc.Pos(), Extra: extraStmts(icc.Body)}
					if found {
						c.Expr, c.IsErr = e, isErr
					} else {
						t.Problems = append(t.Problems, "cell "+c.key()+" has no direct return")
					}
					if isErr {
						c.Expr = nil
					}
					analyseCell(&c, lname, rname)
					add(c)
				}
			case *ast.IfStmt:
				// `if right.Kind() == reflect.X { ... }`
				be, ok := x.Cond.(*ast.BinaryExpr)
				if !ok || be.Op != token.EQL || !isKindCall(be.X, rp) {
					continue
				}
				handled = true
				R := kindClass([]ast.Expr{be.Y})
				rname, racc := accessorAssign(x.Body.List, rp)
				e, isErr, found := valueReturn(x.Body.List)
				c := kcell{L: L, R: R, AccL: lacc, AccR: racc, Pos: x.Pos(), Extra: extraStmts(x.Body.List)}
				if found && !isErr {
					c.Expr = e
				}
				c.IsErr = isErr
				analyseCell(&c, lname, rname)
				add(c)
				// the fall-through return of the clause: cross-family result
				if fe, fErr, ok := valueReturn(cc.Body); ok {
					oc := kcell{L: L, R: "other", AccL: lacc, Pos: cc.Pos(), IsErr: fErr}
					if !fErr {
						oc.Expr = fe
						oc.Raw = types.ExprString(fe)
					}
					add(oc)
				}
			}
		}
		if !handled {
			t.Problems = append(t.Problems, "left class "+L+" has no dispatch on "+rp+".Kind()")
		}
	}
	return t
}

func (c *Ctx) pkgFuncDecl(short, name string) (*ast.FuncDecl, *types.Info) {
	pk := c.P.Pkg(short)
	if pk == nil {
		return nil, nil
	}
	for _, f := range pk.Syntax {
		for _, d := range f.Decls {
			if fd, ok := d.(*ast.FuncDecl); ok && fd.Recv == nil && fd.Name.Name == name {
				return fd, pk.TypesInfo
			}
		}
	}
	return nil, nil
}

var binaryEvalOps = map[string]token.Token{
	"EvaluateMultiplication": token.MUL, "EvaluateDivision": token.QUO, "EvaluateModulo": token.REM, "EvaluateAddition": token.ADD,
	"EvaluateSubtraction": token.SUB, "EvaluateBitAnd": token.AND, "EvaluateBitOr": token.OR,
	"EvaluateGreaterThan": token.GTR, "EvaluateLesserThan": token.LSS, "EvaluateGreaterThanEqual": token.GEQ, "EvaluateLesserThanEqual": token.LEQ,
	"EvaluateEqual": token.EQL, "EvaluateNotEqual": token.NEQ,
}

// convScheme: the repository's majority conversion scheme for numeric cells (confirmed on the pinned tree):
// int·uint and uint·int meet in int64, anything·float in float64, same classes need no conversion.
var convScheme = map[string][2]string{
	"int·int": {"", ""}, "int·uint": {"", "int64"}, "int·float": {"float64", ""},
	"uint·int": {"int64", ""}, "uint·uint": {"", ""}, "uint·float": {"float64", ""},
	"float·int": {"", "float64"}, "float·uint": {"", "float64"}, "float·float": {"", ""},
}

// convExceptions: frozen per-function exceptions, one reason each.
var convExceptions = map[string]map[string][2]string{
	"EvaluateDivision": { // `/` always yields the real quotient: every non-float operand is widened
		"int·int": {"float64", "float64"}, "int·uint": {"float64", "float64"}, "uint·int": {"float64", "float64"}, "uint·uint": {"float64", "float64"},
	},
	"EvaluateModulo": { // uint % uint is computed in int64 (confirmed by reading; values >= 2^63 are outside the stated domain)
		"uint·uint": {"int64", "int64"},
	},
}

func isNumClass(s string) bool { return s == "int" || s == "uint" || s == "float" }

func ruleOPT9(c *Ctx) {
	p := c.P
	var names []string
	for n := range binaryEvalOps {
		names = append(names, n)
	}
	sort.Strings(names)
	ncells := 0
	for _, fnName := range names {
		fd, _ := c.pkgFuncDecl("pkg", fnName)
		if fd == nil {
			c.AnchorLost("pkg." + fnName)
			continue
		}
		t := extractKindTable(fd)
		for _, pr := range t.Problems {
			c.Fail(fnName+" / table shape", p.Pos(fd.Pos()), pr)
		}
		wantOp := binaryEvalOps[fnName]
		keys := append([]string{}, t.Order...)
		for _, k := range keys {
			cell := t.Cells[k]
			ncells++
			construct := fmt.Sprintf("%s / cell %s", fnName, k)
			pos := p.Pos(cell.Pos)
			// width sets
			if strings.HasPrefix(cell.L, "partial") || strings.HasPrefix(cell.R, "partial") || strings.HasPrefix(cell.L, "other") || strings.HasPrefix(cell.R, "other(") {
				c.Fail(construct, pos, "the case list is not a complete width set: operands of the missing widths are rejected or fall into another cell, so the result depends on the operand's width")
				continue
			}
			// accessors
			if a, ok := classAccessor[cell.L]; ok && cell.AccL != "" && cell.AccL != a {
				c.Fail(construct, pos, "left operand of class "+cell.L+" is read with "+cell.AccL+"() (panics or misreads): expected "+a+"()")
				continue
			}
			if a, ok := classAccessor[cell.R]; ok && cell.AccR != "" && cell.AccR != a {
				c.Fail(construct, pos, "right operand of class "+cell.R+" is read with "+cell.AccR+"() (panics or misreads): expected "+a+"()")
				continue
			}
			if cell.IsErr || cell.Expr == nil {
				c.OK(construct, pos, "rejected with an error")
				continue
			}
			if isNumClass(cell.L) && isNumClass(cell.R) {
				if cell.Extra > 0 {
					c.Fail(construct, pos, "numeric cell contains additional statements (a second return or a special case): its result no longer follows from the single operation `"+cell.Raw+"`")
					continue
				}
				if !cell.Simple {
					c.Fail(construct, pos, "numeric cell is not a single Go binary operation on the two converted operands: "+cell.Raw)
					continue
				}
				if cell.Op != wantOp {
					c.Fail(construct, pos, fmt.Sprintf("cell applies `%s`, the function implements `%s`", cell.Op, wantOp))
					continue
				}
				want := convScheme[k]
				if ex, ok := convExceptions[fnName][k]; ok {
					want = ex
				}
				if cell.ConvL != want[0] || cell.ConvR != want[1] {
					c.Fail(construct, pos, fmt.Sprintf("operands are converted (%q,%q) but the repository's scheme for %s is (%q,%q): this cell computes in another type than its siblings (%s)", cell.ConvL, cell.ConvR, k, want[0], want[1], cell.Raw))
					continue
				}
				c.OK(construct, pos, cell.Raw)
				continue
			}
			// same-family non numeric cells of comparison / logic functions must use the function's operator too
			if cell.Simple && (cell.L == "string" || cell.L == "bool") && cell.L == cell.R {
				if cell.Op != wantOp {
					c.Fail(construct, pos, fmt.Sprintf("cell applies `%s`, the function implements `%s`", cell.Op, wantOp))
					continue
				}
			}
			c.OK(construct, pos, cell.Raw)
		}
		// numeric domain complete (functions without float cells listed)
		noFloat := map[string]bool{"EvaluateModulo": true, "EvaluateBitAnd": true, "EvaluateBitOr": true}
		var missing []string
		for _, l := range []string{"int", "uint", "float"} {
			for _, r := range []string{"int", "uint", "float"} {
				if noFloat[fnName] && (l == "float" || r == "float") {
					continue
				}
				if _, ok := t.Cells[l+"·"+r]; !ok {
					missing = append(missing, l+"·"+r)
				}
			}
		}
		c.Check(len(missing) == 0, fnName+" / numeric cell domain complete", p.Pos(fd.Pos()), fmt.Sprintf("%d cells", len(t.Cells)), fmt.Sprintf("numeric cells %v are missing", missing))
	}
	c.Notes = append(c.Notes, fmt.Sprintf("OPT-9 extracted %d cells from %d functions", ncells, len(names)))
}

var cmpFuncs = []string{"EvaluateGreaterThan", "EvaluateLesserThan", "EvaluateGreaterThanEqual", "EvaluateLesserThanEqual", "EvaluateEqual", "EvaluateNotEqual"}

var timeForm = map[string][]string{
	"EvaluateGreaterThan":      {"L.After(R)"},
	"EvaluateLesserThan":       {"L.Before(R)"},
	"EvaluateGreaterThanEqual": {"L.After(R) || L.Equal(R)", "!L.Before(R)", "L.Compare(R) >= 0"},
	"EvaluateLesserThanEqual":  {"L.Before(R) || L.Equal(R)", "!L.After(R)", "L.Compare(R) <= 0"},
	"EvaluateEqual":            {"L.Equal(R)", "L.Compare(R) == 0"},
	"EvaluateNotEqual":         {"!L.Equal(R)", "L.Compare(R) != 0"},
}

func ruleOPT10(c *Ctx) {
	p := c.P
	tabs := map[string]*ktable{}
	for _, n := range cmpFuncs {
		fd, _ := c.pkgFuncDecl("pkg", n)
		if fd == nil {
			c.AnchorLost("pkg." + n)
			return
		}
		tabs[n] = extractKindTable(fd)
	}
	ref := tabs["EvaluateGreaterThan"]
	// (1) same cell domain among the ordered four and among the equality two; same conversions per cell everywhere
	ordered := []string{"EvaluateGreaterThan", "EvaluateLesserThan", "EvaluateGreaterThanEqual", "EvaluateLesserThanEqual"}
	eq := []string{"EvaluateEqual", "EvaluateNotEqual"}
	domain := func(t *ktable) string {
		ks := []string{}
		for k := range t.Cells {
			ks = append(ks, k)
		}
		sort.Strings(ks)
		return strings.Join(ks, " ")
	}
	for _, grp := range [][]string{ordered, eq} {
		for _, n := range grp[1:] {
			c.Check(domain(tabs[n]) == domain(tabs[grp[0]]), n+" / same cell domain as "+grp[0], p.Pos(tabs[n].Pos), domain(tabs[n]), "cell domains differ: "+grp[0]+" has ["+domain(tabs[grp[0]])+"], "+n+" has ["+domain(tabs[n])+"]")
		}
	}
	for _, n := range cmpFuncs {
		t := tabs[n]
		want := binaryEvalOps[n]
		for _, k := range t.Order {
			cell := t.Cells[k]
			construct := fmt.Sprintf("%s / cell %s agrees with its siblings", n, k)
			pos := p.Pos(cell.Pos)
			if cell.L == "time" {
				ok := contains(timeForm[n], cell.Raw) && cell.Extra == 0
				c.Check(ok, construct, pos, cell.Raw, "time cell is `"+cell.Raw+"`; accepted forms for this operator compare instants: "+strings.Join(timeForm[n], " | ")+" (struct ==/!= also compares location and monotonic reading)")
				continue
			}
			rc, inRef := ref.Cells[k]
			if !inRef {
				// cells only in the equality pair (bool, cross-family): compare with EvaluateEqual
				rc, inRef = tabs["EvaluateEqual"].Cells[k]
			}
			if cell.IsErr || cell.Expr == nil {
				c.Check(!inRef || rc.IsErr || rc.Expr == nil || n == "EvaluateEqual" || n == "EvaluateNotEqual", construct, pos, "rejected", "this cell is rejected here but computed in a sibling")
				continue
			}
			if cell.R == "other" {
				// cross-family operands are outside C19's domain ("two operands of the same family"): recorded, not judged
				c.OK(construct, pos, "cross-family result `"+cell.Raw+"` (outside the property's domain, not judged)")
				continue
			}
			if !cell.Simple || cell.Extra > 0 {
				c.Fail(construct, pos, fmt.Sprintf("cell is not a single comparison of the two (converted) operands (`%s`, %d additional statements); its siblings compare directly, so the six operators no longer agree on this kind pair", cell.Raw, cell.Extra))
				continue
			}
			if cell.Op != want {
				c.Fail(construct, pos, fmt.Sprintf("cell applies `%s` in the function implementing `%s`", cell.Op, want))
				continue
			}
			if inRef && rc.Simple && (rc.ConvL != cell.ConvL || rc.ConvR != cell.ConvR) {
				c.Fail(construct, pos, fmt.Sprintf("conversions (%q,%q) differ from the sibling's (%q,%q): the operators compare in different types", cell.ConvL, cell.ConvR, rc.ConvL, rc.ConvR))
				continue
			}
			// mirror: conversions of (L,R) are the swapped conversions of (R,L)
			if mc, ok := t.Cells[cell.R+"·"+cell.L]; ok && mc.Simple {
				if mc.ConvL != cell.ConvR || mc.ConvR != cell.ConvL {
					c.Fail(construct, pos, fmt.Sprintf("cell %s converts (%q,%q) but its mirror %s converts (%q,%q): swapping the operands does not mirror the outcome", k, cell.ConvL, cell.ConvR, mc.key(), mc.ConvL, mc.ConvR))
					continue
				}
			} else if isNumClass(cell.L) && isNumClass(cell.R) {
				c.Fail(construct, pos, "mirror cell "+cell.R+"·"+cell.L+" is missing or not a simple comparison")
				continue
			}
			c.OK(construct, pos, cell.Raw)
		}
	}
	// (2) no ==/!= on a time.Time operand anywhere in the six functions
	for _, n := range cmpFuncs {
		fn := p.Func("pkg", n)
		if fn == nil {
			continue
		}
		bad := ""
		for _, b := range fn.Blocks {
			for _, in := range b.Instrs {
				if bo, ok := in.(*ssa.BinOp); ok && (bo.Op == token.EQL || bo.Op == token.NEQ) && isNamed(bo.X.Type(), "time", "Time") {
					bad = p.InstrPos(in)
				}
			}
		}
		c.Check(bad == "", n+" / no struct comparison of time.Time", p.Pos(fn.Pos()), "none", "time.Time values are compared with ==/!= at "+bad+": equal instants in different locations compare unequal")
	}
}

func ruleOPT14(c *Ctx) {
	p := c.P
	gve := p.Func("pkg", "GetValueElem")
	if gve == nil {
		c.AnchorLost("pkg.GetValueElem")
		return
	}
	names := []string{"EvaluateLogicAnd", "EvaluateLogicOr", "EvaluateLogicSingle"}
	for n := range binaryEvalOps {
		names = append(names, n)
	}
	sort.Strings(names)
	for _, n := range names {
		fn := p.Func("pkg", n)
		if fn == nil {
			c.AnchorLost("pkg." + n)
			continue
		}
		// every use of a raw parameter is as the argument of GetValueElem (so nothing else ever sees the wrapped operand)
		bad := ""
		for _, prm := range fn.Params {
			for _, r := range *prm.Referrers() {
				call, ok := r.(*ssa.Call)
				if ok && matchStatic(gve)(call) {
					continue
				}
				if _, isDbg := r.(*ssa.DebugRef); isDbg {
					continue
				}
				bad = "parameter " + prm.Name() + " is used without GetValueElem at " + p.InstrPos(r)
			}
			if len(*prm.Referrers()) == 0 {
				bad = "parameter " + prm.Name() + " is unused"
			}
		}
		c.Check(bad == "", n+" / operands unwrapped first", p.Pos(fn.Pos()), "the raw operands are used by GetValueElem only", bad+": a pointer or interface operand would be dispatched on Ptr/Interface kind instead of its element's")
	}
	// GetValueElem recurses (or loops) while the kind is Ptr or Interface
	kinds := map[int64]bool{}
	recurses, elem := false, false
	for _, b := range gve.Blocks {
		for _, in := range b.Instrs {
			switch x := in.(type) {
			case *ssa.BinOp:
				if x.Op == token.EQL || x.Op == token.NEQ {
					if k, ok := constInt(x.Y); ok {
						kinds[k] = true
					}
				}
			case *ssa.Call:
				if matchStatic(gve)(x) {
					recurses = true
				}
				if calleeNameIs(x, "Elem") {
					elem = true
				}
			}
		}
	}
	if len(naturalLoops(gve)) > 0 {
		recurses = true
	}
	// reflect.Interface == 20, reflect.Pointer == 22
	ok := kinds[20] && kinds[22] && recurses && elem
	c.Check(ok, "GetValueElem / unwraps pointers and interfaces repeatedly", p.Pos(gve.Pos()), "recursion/loop over Ptr and Interface with Elem()", "GetValueElem no longer unwraps nested pointers/interfaces")
	// ... and hands back nothing but what it was given, unwrapped: a value made up inside (reflect.Zero of the pointee type
	// for a nil pointer, say) turns an operand that cannot be evaluated into an ordinary zero, and the failure C14 wants
	// reported is gone (round-5 seed C14/b: `F.Amount > F.Limit` with a nil *int64 makes the rule fire)
	made := ""
	for _, ci := range callsIn(gve) {
		callee := ci.Common().StaticCallee()
		if callee == nil || callee.Pkg == nil || callee.Pkg.Pkg.Path() != "reflect" {
			continue
		}
		switch publicName(callee) {
		case "Zero", "New", "ValueOf", "NewAt", "MakeSlice", "MakeMap", "Indirect":
			if publicName(callee) == "Indirect" {
				continue // Indirect(v) is v.Elem() for a pointer
			}
			made = "reflect." + publicName(callee) + " at " + p.InstrPos(ci.(ssa.Instruction))
		}
	}
	c.Check(made == "", "GetValueElem / returns only what it was given, unwrapped", p.Pos(gve.Pos()), "no value is manufactured inside (reflect.Zero, New, ValueOf, ...)", "GetValueElem makes a value of its own ("+made+"): a nil pointer or an empty interface operand becomes an ordinary zero value, every operator then computes with it, and the evaluation that should fail and be reported succeeds")
}

func nodeString(n ast.Node) string {
	var sb strings.Builder
	ast.Inspect(n, func(x ast.Node) bool {
		switch y := x.(type) {
		case *ast.Ident:
			sb.WriteString(y.Name + " ")
		case *ast.SelectorExpr:
			sb.WriteString(types.ExprString(y) + " ")
		case *ast.CallExpr:
			sb.WriteString(types.ExprString(y.Fun) + "( ")
		case *ast.ForStmt:
			sb.WriteString("for  ")
		case *ast.RangeStmt:
			sb.WriteString("for  ")
		}
		return true
	})
	return sb.String()
}
