package main

import (
	"go/types"

	"golang.org/x/tools/go/ssa"
)

func init() {
	register("LCK-1", "a mutex locked in a function is released on every way out of it (deferred or explicit unlock)", 1, ruleLCK1)
}

// LCK-1 (seed C20/n): every call of (*sync.Mutex).Lock / (*sync.RWMutex).Lock / RLock in a module function is followed,
// on every path to a return, by the matching Unlock / RUnlock of the same mutex field (or global), called directly, deferred,
// or deferred inside a closure. A way out with the mutex held makes every later caller of any function that takes the
// same mutex wait forever: the loaders of C20 "never return", the instances of C09 stop. The mutex is identified by
// the struct field (or package variable) it lives in, not by the object, which is coarser than it could be and exact
// for the code at hand (no function locks two objects of one type). Not accepted (a limit, see DESIGN): a function that
// is meant to return with the mutex held (a `lock()` helper); there is none.
func ruleLCK1(c *Ctx) {
	p := c.P
	type lockOp struct {
		acquire bool
		read    bool
	}
	classify := func(ci ssa.CallInstruction) (lockOp, bool) {
		callee, _ := calleeOf(ci)
		if callee == nil || callee.Pkg == nil || callee.Pkg.Pkg.Path() != "sync" || callee.Signature.Recv() == nil {
			return lockOp{}, false
		}
		rt := callee.Signature.Recv().Type()
		if pt, ok := rt.(*types.Pointer); ok {
			rt = pt.Elem()
		}
		n, ok := rt.(*types.Named)
		if !ok || (n.Obj().Name() != "Mutex" && n.Obj().Name() != "RWMutex") {
			return lockOp{}, false
		}
		switch callee.Name() {
		case "Lock":
			return lockOp{acquire: true}, true
		case "RLock":
			return lockOp{acquire: true, read: true}, true
		case "Unlock":
			return lockOp{}, true
		case "RUnlock":
			return lockOp{read: true}, true
		}
		return lockOp{}, false
	}
	// the place the mutex lives in
	keyOf := func(v ssa.Value) interface{} {
		switch x := v.(type) {
		case *ssa.FieldAddr:
			return fieldOfAddr(x)
		case *ssa.Global:
			return x
		case *ssa.UnOp: // *(&x.mu) for a *sync.Mutex field
			if fa, ok := x.X.(*ssa.FieldAddr); ok {
				return fieldOfAddr(fa)
			}
			if g, ok := x.X.(*ssa.Global); ok {
				return g
			}
		}
		return nil
	}
	releases := func(in ssa.Instruction, key interface{}, read bool) bool {
		ci, ok := in.(ssa.CallInstruction)
		if !ok {
			return false
		}
		if op, ok := classify(ci); ok {
			return !op.acquire && op.read == read && len(ci.Common().Args) > 0 && keyOf(ci.Common().Args[0]) == key
		}
		// defer func() { …Unlock() }()
		if d, ok := in.(*ssa.Defer); ok {
			if mc, ok := d.Call.Value.(*ssa.MakeClosure); ok {
				if f, ok := mc.Fn.(*ssa.Function); ok {
					for _, inner := range callsIn(f) {
						if op, ok := classify(inner); ok && !op.acquire && op.read == read && len(inner.Common().Args) > 0 && keyOf(inner.Common().Args[0]) == key {
							return true
						}
					}
				}
			}
		}
		return false
	}
	for _, fn := range p.ModuleFuncs() {
		for _, ci := range callsIn(fn) {
			op, ok := classify(ci)
			if !ok || !op.acquire {
				continue
			}
			in := ci.(ssa.Instruction)
			if _, isDefer := in.(*ssa.Defer); isDefer {
				continue
			}
			name := fnName(fn) + " / " + calleeName(ci) + " at " + p.InstrPos(in) + " is released on every way out"
			if len(ci.Common().Args) == 0 {
				continue
			}
			key := keyOf(ci.Common().Args[0])
			if key == nil {
				c.Undecided(fnName(fn)+" / "+calleeName(ci)+" is released on every way out", p.InstrPos(in), "the mutex is neither a struct field nor a package variable: its unlock cannot be matched")
				continue
			}
			name = fnName(fn) + " / " + calleeName(ci) + " is released on every way out"
			t, _ := reach(fn, in, func(x ssa.Instruction) bool { _, isRet := x.(*ssa.Return); return isRet }, func(x ssa.Instruction) bool { return releases(x, key, op.read) }, nil)
			if t != nil {
				c.Fail(name, p.InstrPos(in), "the function can return at "+p.InstrPos(t)+" with the mutex still held (no unlock, deferred or explicit, between the lock and that return): every later call that takes the same mutex waits forever")
			} else {
				c.OK(name, p.InstrPos(in), "every path from the lock to a return passes the matching unlock (or its defer)")
			}
		}
	}
}
