package main

import (
	"fmt"
	"go/constant"
	"go/token"
	"go/types"
	"sort"
	"strings"

	"golang.org/x/tools/go/ssa"
)

// ---------- callee resolution ----------

// calleeOf resolves a call site: static callee (function, method, closure literal) or interface method.
func calleeOf(ci ssa.CallInstruction) (*ssa.Function, *types.Func) {
	cc := ci.Common()
	if cc.IsInvoke() {
		return nil, cc.Method
	}
	if f := cc.StaticCallee(); f != nil {
		return f, nil
	}
	return nil, nil
}

// calleeName gives a printable name for diagnostics.
func calleeName(ci ssa.CallInstruction) string {
	f, m := calleeOf(ci)
	if f != nil {
		return fnName(f)
	}
	if m != nil {
		return strings.ReplaceAll(m.FullName(), modPath+"/", "")
	}
	if b, ok := ci.Common().Value.(*ssa.Builtin); ok {
		return "builtin " + b.Name()
	}
	return "dynamic call " + ci.Common().Value.String()
}

func sameMethod(a, b *types.Func) bool {
	if a == nil || b == nil {
		return false
	}
	return a == b || a.FullName() == b.FullName()
}

// Matcher decides whether a call instruction is "interesting".
type Matcher func(ci ssa.CallInstruction) bool

func matchStatic(fns ...*ssa.Function) Matcher {
	return func(ci ssa.CallInstruction) bool {
		f, _ := calleeOf(ci)
		if f == nil {
			return false
		}
		for _, g := range fns {
			if g != nil && (f == g || f.Origin() == g) {
				return true
			}
		}
		return false
	}
}

func matchInvoke(ms ...*types.Func) Matcher {
	return func(ci ssa.CallInstruction) bool {
		_, m := calleeOf(ci)
		if m == nil {
			return false
		}
		for _, g := range ms {
			if sameMethod(m, g) {
				return true
			}
		}
		return false
	}
}

// matchNamedMethod matches a call (static or invoke) of a method with this name whose receiver's named type is pkgPath.typeName
// (pointer or value receiver, or the interface of that name).
func matchNamedMethod(pkgPath, typeName, method string) Matcher {
	return func(ci ssa.CallInstruction) bool {
		f, m := calleeOf(ci)
		var fn *types.Func
		if f != nil {
			if o, ok := f.Object().(*types.Func); ok {
				fn = o
			}
		} else {
			fn = m
		}
		if fn == nil {
			return false
		}
		name := fn.Name()
		if f != nil {
			name = publicName(f)
		}
		if name != method {
			return false
		}
		sig, _ := fn.Type().(*types.Signature)
		if sig == nil || sig.Recv() == nil {
			return false
		}
		return isNamed(sig.Recv().Type(), pkgPath, typeName)
	}
}

// matchPkgFunc matches a static call of package-level function pkgPath.name (any package, e.g. "fmt".Errorf).
func matchPkgFunc(pkgPath, name string) Matcher {
	return func(ci ssa.CallInstruction) bool {
		f, _ := calleeOf(ci)
		if f == nil || f.Signature.Recv() != nil {
			return false
		}
		o := f.Object()
		if o == nil || o.Pkg() == nil {
			return false
		}
		return o.Pkg().Path() == pkgPath && o.Name() == name
	}
}

func matchAny(ms ...Matcher) Matcher {
	return func(ci ssa.CallInstruction) bool {
		for _, m := range ms {
			if m(ci) {
				return true
			}
		}
		return false
	}
}

func isNamed(t types.Type, pkgPath, name string) bool {
	if p, ok := t.(*types.Pointer); ok {
		t = p.Elem()
	}
	n, ok := t.(*types.Named)
	if !ok {
		return false
	}
	o := n.Obj()
	if o.Name() != name {
		return false
	}
	if o.Pkg() == nil {
		return pkgPath == ""
	}
	return o.Pkg().Path() == pkgPath
}

// callsIn lists call instructions (Call, Defer, Go) of fn in block order.
func callsIn(fn *ssa.Function) []ssa.CallInstruction {
	var out []ssa.CallInstruction
	for _, b := range fn.Blocks {
		for _, in := range b.Instrs {
			if ci, ok := in.(ssa.CallInstruction); ok {
				out = append(out, ci)
			}
		}
	}
	return out
}

func findCalls(fn *ssa.Function, m Matcher) []ssa.CallInstruction {
	var out []ssa.CallInstruction
	for _, ci := range callsIn(fn) {
		if m(ci) {
			out = append(out, ci)
		}
	}
	return out
}

// ---------- value helpers ----------

func isNilConst(v ssa.Value) bool {
	c, ok := v.(*ssa.Const)
	return ok && c.Value == nil && !isBasicKind(c.Type())
}

func isBasicKind(t types.Type) bool {
	_, ok := t.Underlying().(*types.Basic)
	return ok
}

func constBool(v ssa.Value) (bool, bool) {
	c, ok := v.(*ssa.Const)
	if !ok || c.Value == nil || c.Value.Kind() != constant.Bool {
		return false, false
	}
	return constant.BoolVal(c.Value), true
}

func constInt(v ssa.Value) (int64, bool) {
	c, ok := v.(*ssa.Const)
	if !ok || c.Value == nil || c.Value.Kind() != constant.Int {
		return 0, false
	}
	i, exact := constant.Int64Val(c.Value)
	return i, exact
}

func constString(v ssa.Value) (string, bool) {
	c, ok := v.(*ssa.Const)
	if !ok || c.Value == nil || c.Value.Kind() != constant.String {
		return "", false
	}
	return constant.StringVal(c.Value), true
}

// stripConv removes value-preserving wrappers.
func stripConv(v ssa.Value) ssa.Value {
	for {
		switch x := v.(type) {
		case *ssa.Convert:
			v = x.X
		case *ssa.ChangeType:
			v = x.X
		case *ssa.ChangeInterface:
			v = x.X
		case *ssa.MakeInterface:
			v = x.X
		default:
			return v
		}
	}
}

// unspill sees through parameters/locals spilled to an Alloc because a closure captures them: a load of an
// Alloc that has exactly one store in the function (and none in closures) is replaced by the stored value.
func unspill(v ssa.Value) ssa.Value {
	for i := 0; i < 4; i++ {
		u, ok := v.(*ssa.UnOp)
		if !ok || u.Op != token.MUL {
			return v
		}
		a, ok := u.X.(*ssa.Alloc)
		if !ok {
			return v
		}
		var stored ssa.Value
		n := 0
		escapesWrite := false
		for _, r := range *a.Referrers() {
			switch x := r.(type) {
			case *ssa.Store:
				if x.Addr == ssa.Value(a) {
					n++
					stored = x.Val
				}
			case *ssa.MakeClosure:
				// a closure may write through its free variable
				if fn, ok := x.Fn.(*ssa.Function); ok {
					for fi, b := range x.Bindings {
						if b == ssa.Value(a) && fi < len(fn.FreeVars) {
							for _, fr := range *fn.FreeVars[fi].Referrers() {
								if st, ok := fr.(*ssa.Store); ok && st.Addr == ssa.Value(fn.FreeVars[fi]) {
									escapesWrite = true
								}
							}
						}
					}
				}
			}
		}
		if n != 1 || escapesWrite || stored == nil {
			return v
		}
		v = stored
	}
	return v
}

// fieldLoad recognises `*(&base.f)` or `base.f` and returns the field and the (unspilled) base value.
func fieldLoad(v ssa.Value) (*types.Var, ssa.Value) {
	switch x := v.(type) {
	case *ssa.UnOp:
		if x.Op == token.MUL {
			if fa, ok := x.X.(*ssa.FieldAddr); ok {
				return fieldOfAddr(fa), unspill(fa.X)
			}
		}
	case *ssa.Field:
		st, ok := x.X.Type().Underlying().(*types.Struct)
		if ok {
			return st.Field(x.Field), unspill(x.X)
		}
	}
	return nil, nil
}

func fieldOfAddr(fa *ssa.FieldAddr) *types.Var {
	pt, ok := fa.X.Type().Underlying().(*types.Pointer)
	if !ok {
		return nil
	}
	st, ok := pt.Elem().Underlying().(*types.Struct)
	if !ok {
		return nil
	}
	return st.Field(fa.Field)
}

// fieldStore recognises a store to base.f and returns the field, base, and stored value.
func fieldStore(in ssa.Instruction) (*types.Var, ssa.Value, ssa.Value) {
	st, ok := in.(*ssa.Store)
	if !ok {
		return nil, nil, nil
	}
	fa, ok := st.Addr.(*ssa.FieldAddr)
	if !ok {
		return nil, nil, nil
	}
	return fieldOfAddr(fa), unspill(fa.X), st.Val
}

// ownerOf returns "Type.field" for a struct field var by searching named struct types of module packages.
func (p *Prog) fieldOwner(f *types.Var) string {
	if f == nil {
		return "?"
	}
	for _, pk := range p.Roots {
		sc := pk.Types.Scope()
		for _, n := range sc.Names() {
			tn, ok := sc.Lookup(n).(*types.TypeName)
			if !ok {
				continue
			}
			st, ok := tn.Type().Underlying().(*types.Struct)
			if !ok {
				continue
			}
			for i := 0; i < st.NumFields(); i++ {
				if st.Field(i) == f {
					return tn.Name() + "." + f.Name()
				}
			}
		}
	}
	return "?." + f.Name()
}

// backSlice visits every value v (transitively) derives from, through the "is the same datum / derived by
// selection" relation: Phi, Extract, conversions, loads, field/index selection, slicing, type assertion.
// visit returns false to stop descending below that value.
func backSlice(v ssa.Value, visit func(ssa.Value) bool) {
	seen := map[ssa.Value]bool{}
	var rec func(v ssa.Value)
	rec = func(v ssa.Value) {
		if v == nil || seen[v] {
			return
		}
		seen[v] = true
		if !visit(v) {
			return
		}
		switch x := v.(type) {
		case *ssa.Phi:
			for _, e := range x.Edges {
				rec(e)
			}
		case *ssa.Extract:
			rec(x.Tuple)
		case *ssa.Convert:
			rec(x.X)
		case *ssa.ChangeType:
			rec(x.X)
		case *ssa.ChangeInterface:
			rec(x.X)
		case *ssa.MakeInterface:
			rec(x.X)
		case *ssa.TypeAssert:
			rec(x.X)
		case *ssa.UnOp:
			rec(x.X)
		case *ssa.FieldAddr:
			rec(x.X)
		case *ssa.Field:
			rec(x.X)
		case *ssa.IndexAddr:
			rec(x.X)
		case *ssa.Index:
			rec(x.X)
		case *ssa.Lookup:
			rec(x.X)
		case *ssa.Slice:
			rec(x.X)
		case *ssa.Next:
			rec(x.Iter)
		case *ssa.Range:
			rec(x.X)
		case *ssa.Alloc:
			// follow stores into a local alloc (spilled variables)
			for _, r := range *x.Referrers() {
				if st, ok := r.(*ssa.Store); ok && st.Addr == x {
					rec(st.Val)
				}
			}
		}
	}
	rec(v)
}

// derivesFrom reports whether v derives (backSlice) from a value satisfying pred.
func derivesFrom(v ssa.Value, pred func(ssa.Value) bool) bool {
	found := false
	backSlice(v, func(x ssa.Value) bool {
		if found {
			return false
		}
		if pred(x) {
			found = true
			return false
		}
		return true
	})
	return found
}

// derivesFromValue: v derives from the specific value w.
func derivesFromValue(v, w ssa.Value) bool {
	return derivesFrom(v, func(x ssa.Value) bool { return x == w })
}

// receiver returns the receiver parameter of a method, or nil.
func receiver(fn *ssa.Function) *ssa.Parameter {
	if fn.Signature.Recv() == nil || len(fn.Params) == 0 {
		return nil
	}
	return fn.Params[0]
}

// ---------- control-flow helpers ----------

// succIndex returns the index of s among b.Succs, or -1.
func succIndex(b, s *ssa.BasicBlock) int {
	for i, x := range b.Succs {
		if x == s {
			return i
		}
	}
	return -1
}

func instrIndex(in ssa.Instruction) int {
	for i, x := range in.Block().Instrs {
		if x == in {
			return i
		}
	}
	return -1
}

// EdgeFilter says whether the edge from block b to its succIdx-th successor may be followed.
type EdgeFilter func(b *ssa.BasicBlock, succIdx int) bool

// reach performs a search from just after instruction `from` (or from the function entry when from == nil)
// for an instruction satisfying isTarget, not passing instructions satisfying isBlocker, and only following
// edges allowed by ef (nil: all). It returns the target found (or nil) and the block path.
func reach(fn *ssa.Function, from ssa.Instruction, isTarget, isBlocker func(ssa.Instruction) bool, ef EdgeFilter) (ssa.Instruction, []*ssa.BasicBlock) {
	type item struct {
		b    *ssa.BasicBlock
		idx  int
		prev *item
	}
	if len(fn.Blocks) == 0 {
		return nil, nil
	}
	var start *item
	if from == nil {
		start = &item{b: fn.Blocks[0], idx: 0}
	} else {
		start = &item{b: from.Block(), idx: instrIndex(from) + 1}
	}
	visited := map[*ssa.BasicBlock]bool{} // visited from index 0
	queue := []*item{start}
	for len(queue) > 0 {
		it := queue[0]
		queue = queue[1:]
		blocked := false
		for i := it.idx; i < len(it.b.Instrs); i++ {
			in := it.b.Instrs[i]
			if isTarget != nil && isTarget(in) {
				var path []*ssa.BasicBlock
				for x := it; x != nil; x = x.prev {
					path = append([]*ssa.BasicBlock{x.b}, path...)
				}
				return in, path
			}
			if isBlocker != nil && isBlocker(in) {
				blocked = true
				break
			}
		}
		if blocked {
			continue
		}
		for si, s := range it.b.Succs {
			if ef != nil && !ef(it.b, si) {
				continue
			}
			if visited[s] {
				continue
			}
			visited[s] = true
			queue = append(queue, &item{b: s, idx: 0, prev: it})
		}
	}
	return nil, nil
}

func pathString(p *Prog, path []*ssa.BasicBlock) []string {
	var out []string
	for _, b := range path {
		pos := "-"
		for _, in := range b.Instrs {
			if in.Pos().IsValid() {
				pos = p.Pos(in.Pos())
				break
			}
		}
		out = append(out, fmt.Sprintf("b%d(%s)@%s", b.Index, b.Comment, pos))
	}
	return out
}

// condOn analyses an If condition with respect to a predicate on values: it returns, when the condition is a
// nil-comparison / boolean test of a value satisfying isV, which successor index corresponds to "v is nil" (for
// nil comparisons) or "v is true" (for booleans). kind: "nil" or "bool"; ok=false when not such a test.
func condOn(cond ssa.Value, isV func(ssa.Value) bool) (kind string, succWhenNilOrTrue int, ok bool) {
	switch c := cond.(type) {
	case *ssa.BinOp:
		if c.Op == token.EQL || c.Op == token.NEQ {
			var other ssa.Value
			if isV(c.X) {
				other = c.Y
			} else if isV(c.Y) {
				other = c.X
			} else {
				// (cond-on-v) == true/false
				for _, pr := range [][2]ssa.Value{{c.X, c.Y}, {c.Y, c.X}} {
					if b, isb := constBool(pr[1]); isb {
						if k, s, ok := condOn(pr[0], isV); ok {
							if (c.Op == token.EQL) == b {
								return k, s, true
							}
							return k, 1 - s, true
						}
					}
				}
				return "", 0, false
			}
			if isNilConst(other) {
				if c.Op == token.EQL {
					return "nil", 0, true
				}
				return "nil", 1, true
			}
			if b, isb := constBool(other); isb {
				// v == true -> succ0 when true ; v == false -> succ1 when true
				if (c.Op == token.EQL) == b {
					return "bool", 0, true
				}
				return "bool", 1, true
			}
		}
	case *ssa.UnOp:
		if c.Op == token.NOT {
			k, s, ok := condOn(c.X, isV)
			if ok {
				return k, 1 - s, true
			}
		}
	default:
		if isV(cond) {
			return "bool", 0, true
		}
	}
	if isV(cond) {
		return "bool", 0, true
	}
	return "", 0, false
}

// edgeDominates: every path from entry to target instruction passes one of the allowed edges, i.e. with those
// edges blocked the target is unreachable from entry.
func edgesDominate(fn *ssa.Function, target ssa.Instruction, isGuardEdge func(b *ssa.BasicBlock, succIdx int) bool) bool {
	t, _ := reach(fn, nil, func(in ssa.Instruction) bool { return in == target }, nil, func(b *ssa.BasicBlock, si int) bool {
		return !isGuardEdge(b, si)
	})
	return t == nil
}

// ---------- natural loops ----------

type Loop struct {
	Header *ssa.BasicBlock
	Blocks map[*ssa.BasicBlock]bool
	Backs  []*ssa.BasicBlock // sources of back edges
}

func (l *Loop) Contains(b *ssa.BasicBlock) bool { return l.Blocks[b] }

// Exits returns (from, succIdx) pairs leaving the loop.
func (l *Loop) Exits() [][2]interface{} {
	var out [][2]interface{}
	var bs []*ssa.BasicBlock
	for b := range l.Blocks {
		bs = append(bs, b)
	}
	sort.Slice(bs, func(i, j int) bool { return bs[i].Index < bs[j].Index })
	for _, b := range bs {
		for si, s := range b.Succs {
			if !l.Blocks[s] {
				out = append(out, [2]interface{}{b, si})
			}
		}
	}
	return out
}

func naturalLoops(fn *ssa.Function) []*Loop {
	byHeader := map[*ssa.BasicBlock]*Loop{}
	for _, b := range fn.Blocks {
		for _, s := range b.Succs {
			if s.Dominates(b) {
				l := byHeader[s]
				if l == nil {
					l = &Loop{Header: s, Blocks: map[*ssa.BasicBlock]bool{s: true}}
					byHeader[s] = l
				}
				l.Backs = append(l.Backs, b)
				// collect body: nodes reaching b without passing s
				stack := []*ssa.BasicBlock{b}
				for len(stack) > 0 {
					x := stack[len(stack)-1]
					stack = stack[:len(stack)-1]
					if l.Blocks[x] {
						continue
					}
					l.Blocks[x] = true
					stack = append(stack, x.Preds...)
				}
			}
		}
	}
	var out []*Loop
	for _, l := range byHeader {
		out = append(out, l)
	}
	sort.Slice(out, func(i, j int) bool { return out[i].Header.Index < out[j].Header.Index })
	return out
}

// innermostLoopOf returns the smallest loop containing block b, or nil.
func innermostLoopOf(loops []*Loop, b *ssa.BasicBlock) *Loop {
	var best *Loop
	for _, l := range loops {
		if l.Blocks[b] && (best == nil || len(l.Blocks) < len(best.Blocks)) {
			best = l
		}
	}
	return best
}

// rangeOperand: if loop l is a `for range X` over a map/slice, returns X (the ranged value); otherwise nil.
func rangeOperand(l *Loop) ssa.Value {
	for b := range l.Blocks {
		for _, in := range b.Instrs {
			if nx, ok := in.(*ssa.Next); ok {
				if r, ok := nx.Iter.(*ssa.Range); ok {
					if nx.Block() == l.Header {
						return r.X
					}
				}
			}
		}
	}
	// slice range: header has phi idx, cond idx < len(X)
	for _, in := range l.Header.Instrs {
		if bo, ok := in.(*ssa.BinOp); ok && bo.Op == token.LSS {
			if c, ok := bo.Y.(*ssa.Call); ok {
				if bi, ok := c.Call.Value.(*ssa.Builtin); ok && bi.Name() == "len" {
					return c.Call.Args[0]
				}
			}
		}
	}
	return nil
}

// ---------- misc ----------

func returnsOf(fn *ssa.Function) []*ssa.Return {
	var out []*ssa.Return
	for _, b := range fn.Blocks {
		if len(b.Instrs) == 0 {
			continue
		}
		if deadRecoverBlock(fn, b) {
			continue
		}
		if r, ok := b.Instrs[len(b.Instrs)-1].(*ssa.Return); ok {
			out = append(out, r)
		}
	}
	return out
}

func isErrorType(t types.Type) bool {
	n, ok := t.(*types.Named)
	return ok && n.Obj().Pkg() == nil && n.Obj().Name() == "error"
}

// errResultIndex returns the index of the (last) error result of a signature, or -1.
func errResultIndex(sig *types.Signature) int {
	r := sig.Results()
	for i := r.Len() - 1; i >= 0; i-- {
		if isErrorType(r.At(i).Type()) {
			return i
		}
	}
	return -1
}

// resultValue returns the SSA value carrying result #idx of a call: the call itself for single results,
// or the Extract instruction(s) for tuples (nil when never extracted).
func resultValues(call ssa.CallInstruction, idx int) []ssa.Value {
	v := call.Value()
	if v == nil {
		return nil
	}
	res := call.Common().Signature().Results()
	if res.Len() == 1 {
		return []ssa.Value{v}
	}
	var out []ssa.Value
	for _, r := range *v.Referrers() {
		if ex, ok := r.(*ssa.Extract); ok && ex.Index == idx {
			out = append(out, ex)
		}
	}
	return out
}

// deadRecoverBlock: go/ssa gives every function that defers anything a recover block (the place execution resumes
// after a deferred call recovered from a panic). Unless some deferred closure of the function calls recover(), that
// block never runs; its return is not a way out of the function.
func deadRecoverBlock(fn *ssa.Function, b *ssa.BasicBlock) bool {
	if fn.Recover == nil || b != fn.Recover {
		return false
	}
	for _, bb := range fn.Blocks {
		for _, in := range bb.Instrs {
			d, ok := in.(*ssa.Defer)
			if !ok {
				continue
			}
			var target *ssa.Function
			switch v := d.Call.Value.(type) {
			case *ssa.Function:
				target = v
			case *ssa.MakeClosure:
				target, _ = v.Fn.(*ssa.Function)
			}
			if target == nil {
				if d.Call.IsInvoke() {
					continue // a method of an interface value: cannot be recover itself; conservatively not a recoverer
				}
				if bi, isB := d.Call.Value.(*ssa.Builtin); isB && bi.Name() == "recover" {
					return false
				}
				continue
			}
			if callsRecover(target, 0) {
				return false
			}
		}
	}
	return true
}

func callsRecover(f *ssa.Function, depth int) bool {
	if f == nil || f.Blocks == nil || depth > 2 {
		return false
	}
	for _, b := range f.Blocks {
		for _, in := range b.Instrs {
			ci, ok := in.(ssa.CallInstruction)
			if !ok {
				continue
			}
			if bi, isB := ci.Common().Value.(*ssa.Builtin); isB && bi.Name() == "recover" {
				return true
			}
			if callee := ci.Common().StaticCallee(); callee != nil && fnInModule(callee) && callsRecover(callee, depth+1) {
				return true
			}
		}
	}
	return false
}

// localTemp: addr is (an element or field of) a local allocation of this function: a local variable, or the argument
// array go/ssa builds for a variadic call.
func localTemp(addr ssa.Value) bool {
	for i := 0; i < 6; i++ {
		switch x := addr.(type) {
		case *ssa.Alloc:
			return true
		case *ssa.IndexAddr:
			addr = x.X
		case *ssa.FieldAddr:
			addr = x.X
		default:
			return false
		}
	}
	return false
}
