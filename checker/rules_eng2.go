package main

import (
	"fmt"
	"go/token"
	"go/types"
	"sort"
	"strings"

	"golang.org/x/tools/go/ssa"
)

func init() {
	register("ENG-5", "selection is arg-max salience over the conflict set", 1, ruleENG5)
	register("ENG-6", "one firing per cycle, synchronous, after the whole conflict set is known", 3, ruleENG6)
	register("ENG-7", "budget guard and ranking function", 4, ruleENG7)
	register("ENG-8", "cycle numbering of notifications", 4, ruleENG8)
	register("ENG-9", "notification protocol", 6, ruleENG9)
}

// elemOfSlice: v is `*(&s[i])` / s[i]; returns the slice value and the index value.
func elemOfSlice(v ssa.Value) (ssa.Value, ssa.Value) {
	v = unspill(v)
	if u, ok := v.(*ssa.UnOp); ok && u.Op == token.MUL {
		if ia, ok := u.X.(*ssa.IndexAddr); ok {
			return ia.X, ia.Index
		}
	}
	if ix, ok := v.(*ssa.Index); ok {
		return ix.X, ix.Index
	}
	return nil, nil
}

// salienceOf: v is a load of RuleEntry.Salience; returns the entry value.
func salienceOf(p *Prog, v ssa.Value) ssa.Value {
	f, base := fieldLoad(v)
	if f != nil && f == p.Field("ast", "RuleEntry", "Salience") {
		return base
	}
	return nil
}

// sameSlice compares slice values modulo Phi-free identity.
func sameSlice(a, b ssa.Value) bool { return a != nil && a == b }

// comparatorDescending: closure func(i, j int) bool over slice `s` (a free variable) ordering Salience descending.
func comparatorDescending(p *Prog, fn *ssa.Function) (bool, string) {
	if fn == nil || len(fn.Params) != 2 {
		return false, "comparator is not a func(i, j int) bool literal"
	}
	rets := returnsOf(fn)
	if len(rets) != 1 || len(rets[0].Results) != 1 {
		return false, "comparator has more than one return"
	}
	bo, ok := rets[0].Results[0].(*ssa.BinOp)
	if !ok {
		return false, "comparator does not return a comparison"
	}
	side := func(v ssa.Value) int { // 1: element i, 2: element j
		e := salienceOf(p, v)
		if e == nil {
			return 0
		}
		_, idx := elemOfSlice(e)
		switch idx {
		case ssa.Value(fn.Params[0]):
			return 1
		case ssa.Value(fn.Params[1]):
			return 2
		}
		return 0
	}
	l, r := side(bo.X), side(bo.Y)
	switch {
	case l == 1 && r == 2 && (bo.Op == token.GTR || bo.Op == token.GEQ):
		return true, ""
	case l == 2 && r == 1 && (bo.Op == token.LSS || bo.Op == token.LEQ):
		return true, ""
	case l == 0 || r == 0:
		return false, "comparator does not compare the Salience of elements i and j"
	}
	return false, "comparator orders Salience ascending (" + bo.Op.String() + ")"
}

// sortCallOn finds sort.Slice/SliceStable(s, less) calls in fn and returns slice value and the comparator closure.
func sortCalls(fn *ssa.Function) []struct {
	call  *ssa.Call
	slice ssa.Value
	less  *ssa.Function
} {
	var out []struct {
		call  *ssa.Call
		slice ssa.Value
		less  *ssa.Function
	}
	for _, ci := range callsIn(fn) {
		call, ok := ci.(*ssa.Call)
		if !ok {
			continue
		}
		if !(matchPkgFunc("sort", "Slice")(call) || matchPkgFunc("sort", "SliceStable")(call)) {
			continue
		}
		var less *ssa.Function
		if mc, ok := call.Call.Args[1].(*ssa.MakeClosure); ok {
			less, _ = mc.Fn.(*ssa.Function)
		} else if f, ok := call.Call.Args[1].(*ssa.Function); ok {
			less = f
		}
		out = append(out, struct {
			call  *ssa.Call
			slice ssa.Value
			less  *ssa.Function
		}{call, stripConv(call.Call.Args[0]), less})
	}
	return out
}

func ruleENG5(c *Ctx) {
	p := c.P
	a := c.eng()
	fn := a.exec
	if fn == nil {
		c.AnchorLost("ExecuteWithContext")
		return
	}
	execs := findCalls(fn, a.isExec)
	if len(execs) != 1 {
		c.Fail("ExecuteWithContext / firing site", p.Pos(fn.Pos()), fmt.Sprintf("expected exactly one RuleEntry.Execute call, found %d", len(execs)))
		return
	}
	runner := unspill(execs[0].Common().Args[0])
	construct := "ExecuteWithContext / fired rule is arg-max Salience of the candidate slice"
	ok, why := argMaxOfCandidates(c, fn, runner, 0)
	if ok {
		c.OK(construct, p.InstrPos(execs[0]), why)
	} else if strings.HasPrefix(why, "undecided") {
		c.Undecided(construct, p.InstrPos(execs[0]), strings.TrimPrefix(why, "undecided: "))
	} else {
		c.Fail(construct, p.InstrPos(execs[0]), why)
	}
}

// candidateSliceOK: slice value s derives (through Phi) from the append of ENG-2 / the make of the candidate list.
func isCandidateSlice(s ssa.Value) bool {
	return derivesFrom(s, func(v ssa.Value) bool {
		call, ok := v.(*ssa.Call)
		return ok && appendedElems(call) != nil
	})
}

func argMaxOfCandidates(c *Ctx, fn *ssa.Function, runner ssa.Value, depth int) (bool, string) {
	p := c.P
	if depth > 3 {
		return false, "undecided: selection too deeply nested"
	}
	// idiom (ii): c[0] after a descending sort
	if s, idx := elemOfSlice(runner); s != nil {
		if k, ok := constInt(idx); ok && k == 0 && isCandidateSlice(s) {
			for _, sc := range sortCalls(fn) {
				if derivesFromValue(sc.slice, s) || sc.slice == s || sameUnderlyingSlice(sc.slice, s) {
					if good, why := comparatorDescending(p, sc.less); good {
						if sc.call.Block().Dominates(runner.(ssa.Instruction).Block()) {
							return true, "first element after a sort by Salience descending"
						}
					} else {
						return false, "candidates are sorted but " + why
					}
				}
			}
			return false, "the fired rule is the first candidate in map-iteration order: no selection by Salience"
		}
	}
	// idiom (iii): slices.MaxFunc(candidates, cmp) with a comparator ordering Salience ascending
	if call, ok := runner.(*ssa.Call); ok {
		if f := call.Call.StaticCallee(); f != nil && strings.HasPrefix(f.String(), "slices.MaxFunc") && len(call.Call.Args) == 2 {
			if !isCandidateSlice(call.Call.Args[0]) {
				return false, "slices.MaxFunc is applied to something other than the candidate slice"
			}
			var cmpFn *ssa.Function
			switch x := call.Call.Args[1].(type) {
			case *ssa.MakeClosure:
				cmpFn, _ = x.Fn.(*ssa.Function)
			case *ssa.Function:
				cmpFn = x
			}
			if good, why := comparatorAscending3(p, cmpFn); good {
				return true, "slices.MaxFunc over the candidates with a comparator on Salience"
			} else {
				return false, "slices.MaxFunc is used but " + why
			}
		}
	}
	phi, ok := runner.(*ssa.Phi)
	if !ok {
		return false, "undecided: the fired rule is not selected by a recognised idiom (linear scan for the maximum, sort descending then first, or slices.MaxFunc)"
	}
	loops := naturalLoops(fn)
	// is phi the header phi of a scan loop?
	for _, l := range loops {
		if phi.Block() != l.Header {
			continue
		}
		return scanLoopArgMax(c, fn, l, phi)
	}
	// merge phi: every edge must itself be an arg-max (or c[0] guarded by a length test)
	sawScan := false
	for i, e := range phi.Edges {
		e = unspill(e)
		if s, idx := elemOfSlice(e); s != nil {
			if k, ok := constInt(idx); ok && k == 0 && isCandidateSlice(s) {
				// accepted only when the edge comes from a length test of that slice (the single-candidate shortcut)
				pb := phi.Block().Preds[i]
				if iff, ok := pb.Instrs[len(pb.Instrs)-1].(*ssa.If); ok && isLenTest(iff.Cond, s) {
					continue
				}
				return false, "one path fires the first candidate without comparing saliences"
			}
		}
		ok, why := argMaxOfCandidates(c, fn, e, depth+1)
		if !ok {
			return false, why
		}
		sawScan = true
	}
	if !sawScan {
		return false, "no selection by Salience on any path"
	}
	return true, "linear scan keeping the entry with the greater Salience (single-candidate shortcut accepted)"
}

func sameUnderlyingSlice(a, b ssa.Value) bool {
	// both are phis/values reaching the same candidate variable: compare by their "append" roots
	ra, rb := map[ssa.Value]bool{}, map[ssa.Value]bool{}
	backSlice(a, func(v ssa.Value) bool { ra[v] = true; return true })
	backSlice(b, func(v ssa.Value) bool { rb[v] = true; return true })
	for v := range ra {
		if call, ok := v.(*ssa.Call); ok && appendedElems(call) != nil && rb[v] {
			return true
		}
	}
	return false
}

func isLenTest(cond ssa.Value, s ssa.Value) bool {
	bo, ok := cond.(*ssa.BinOp)
	if !ok {
		return false
	}
	for _, v := range []ssa.Value{bo.X, bo.Y} {
		if call, ok := v.(*ssa.Call); ok {
			if bi, ok := call.Call.Value.(*ssa.Builtin); ok && bi.Name() == "len" && call.Call.Args[0] == s {
				return true
			}
		}
	}
	return false
}

// scanLoopArgMax checks `best` phi of loop l: init c[0] (or any element), updates only to the loop element x on an
// edge implying x.Salience > best.Salience (or >=).
func scanLoopArgMax(c *Ctx, fn *ssa.Function, l *Loop, best *ssa.Phi) (bool, string) {
	p := c.P
	var slice ssa.Value
	for i, e := range best.Edges {
		pred := best.Block().Preds[i]
		e = unspill(e)
		if e == ssa.Value(best) {
			continue
		}
		s, _ := elemOfSlice(e)
		if s == nil || !isCandidateSlice(s) {
			return false, "the scan's running best is initialised/updated from something that is not an element of the candidate slice"
		}
		if slice == nil {
			slice = s
		} else if slice != s {
			return false, "the scan mixes two different slices"
		}
		if !l.Blocks[pred] {
			continue // initial value
		}
		// update edge: pred must be dominated by an edge implying x.Sal > best.Sal
		x := e
		implied := edgesDominate(fn, pred.Instrs[len(pred.Instrs)-1], func(b *ssa.BasicBlock, si int) bool {
			iff, ok := b.Instrs[len(b.Instrs)-1].(*ssa.If)
			if !ok || !l.Blocks[b] {
				return false
			}
			bo, ok := iff.Cond.(*ssa.BinOp)
			if !ok {
				return false
			}
			lhs, rhs := salienceOf(p, bo.X), salienceOf(p, bo.Y)
			if lhs == nil || rhs == nil {
				return false
			}
			var op token.Token
			switch {
			case lhs == ssa.Value(best) && rhs == x:
				op = bo.Op
			case lhs == x && rhs == ssa.Value(best):
				op = mirrorOp(bo.Op)
			default:
				return false
			}
			// now cond is: best.Sal op x.Sal ; update allowed when best < x or best <= x
			switch op {
			case token.LSS, token.LEQ:
				return si == 0
			case token.GEQ, token.GTR:
				return si == 1
			}
			return false
		})
		if !implied {
			return false, "the running best is replaced by a candidate without that candidate's Salience being greater (comparison flipped, missing, or against a value other than the running best's own Salience)"
		}
	}
	// the loop must range over the whole slice: range index from 0/1.. len(slice)
	x := rangeOperand(l)
	if x == nil || !(x == slice || derivesFromValue(x, slice) || sameLenOf(l, slice)) {
		return false, "the scan does not range over the whole candidate slice"
	}
	for _, ex := range l.Exits() {
		if ex[0].(*ssa.BasicBlock) != l.Header {
			return false, "the scan over the candidates has an early exit"
		}
	}
	return true, "linear scan keeping the entry with the greater Salience"
}

func sameLenOf(l *Loop, slice ssa.Value) bool {
	for _, in := range l.Header.Instrs {
		if bo, ok := in.(*ssa.BinOp); ok && bo.Op == token.LSS {
			if call, ok := bo.Y.(*ssa.Call); ok {
				if bi, ok := call.Call.Value.(*ssa.Builtin); ok && bi.Name() == "len" && call.Call.Args[0] == slice {
					return true
				}
			}
		}
	}
	return false
}

func mirrorOp(op token.Token) token.Token {
	switch op {
	case token.LSS:
		return token.GTR
	case token.GTR:
		return token.LSS
	case token.LEQ:
		return token.GEQ
	case token.GEQ:
		return token.LEQ
	}
	return op
}

// ---------- ENG-6 ----------

func ruleENG6(c *Ctx) {
	p := c.P
	a := c.eng()
	fn, outer, inner, _ := c.engineCycleLoop()
	if fn == nil || outer == nil || inner == nil {
		c.AnchorLost("cycle loop of ExecuteWithContext")
		return
	}
	// exactly one Execute call site reachable from the entry points (module-wide)
	funcs := c.reachableModuleFuncs([]*ssa.Function{a.exec, p.Method("engine", "GruleEngine", "Execute")}, true)
	n := 0
	var site ssa.CallInstruction
	for f := range funcs {
		for _, ci := range findCalls(f, a.isExec) {
			n++
			site = ci
		}
	}
	if !c.Check(n == 1, "Execute entry / exactly one firing site", p.Pos(fn.Pos()), "one call of RuleEntry.Execute", fmt.Sprintf("%d call sites of RuleEntry.Execute reachable from Execute: more than one rule could fire per cycle", n)) {
		return
	}
	inOuter := site.Parent() == fn && outer.Blocks[site.Block()] && !inner.Blocks[site.Block()]
	// the inner loop's exhaustion edge dominates the firing
	var done *ssa.BasicBlock
	for _, s := range inner.Header.Succs {
		if !inner.Blocks[s] {
			done = s
		}
	}
	after := done != nil && done.Dominates(site.Block())
	c.Check(inOuter && after, "ExecuteWithContext / firing after the whole conflict set is known", p.InstrPos(site), "in the cycle loop, outside the rule loop, dominated by the rule loop's exhaustion edge", "a rule is fired inside the evaluation loop or before all rules of the cycle were evaluated")
	// no go statements / channel operations in engine, ast, model, pkg on the call tree
	bad := []string{}
	nf := 0
	for f := range funcs {
		switch fnPkgShort(f) {
		case "engine", "ast", "model", "pkg":
		default:
			continue
		}
		nf++
		for _, b := range f.Blocks {
			for _, in := range b.Instrs {
				switch x := in.(type) {
				case *ssa.Go:
					bad = append(bad, "go statement in "+fnName(f)+" at "+p.InstrPos(in))
				case *ssa.Send:
					bad = append(bad, "channel send in "+fnName(f)+" at "+p.InstrPos(in))
				case *ssa.Select:
					// waiting on the context's Done channel is cancellation plumbing, not asynchrony of the engine
					onlyDone := len(x.States) > 0
					for _, st := range x.States {
						if !isDoneChan(st.Chan) {
							onlyDone = false
						}
					}
					if !onlyDone {
						bad = append(bad, "select in "+fnName(f)+" at "+p.InstrPos(in))
					}
				case *ssa.UnOp:
					if x.Op == token.ARROW && !isDoneChan(x.X) {
						bad = append(bad, "channel receive in "+fnName(f)+" at "+p.InstrPos(in))
					}
				}
			}
		}
	}
	sort.Strings(bad)
	c.Check(len(bad) == 0, "Execute call tree / synchronous (no go statement, no channel operation)", p.Pos(fn.Pos()), fmt.Sprintf("%d functions scanned", nf), "asynchrony on the execution path: "+strings.Join(bad, "; "))
	// positive control: the scanner sees go statements elsewhere in the program (dependencies)
	sawGo := false
	for f := range p.CallGraph().Nodes {
		if f == nil || f.Blocks == nil {
			continue
		}
		for _, b := range f.Blocks {
			for _, in := range b.Instrs {
				if _, ok := in.(*ssa.Go); ok {
					sawGo = true
				}
			}
		}
		if sawGo {
			break
		}
	}
	c.Control(sawGo, "go-statement scanner finds go statements in the loaded program (dependencies)")
}

// ---------- ENG-7 / ENG-8 ----------

// cyclePhi finds the firing counter: a header phi of the cycle loop of integer type with initial constant 0.
func cyclePhi(outer *Loop) *ssa.Phi {
	for _, in := range outer.Header.Instrs {
		phi, ok := in.(*ssa.Phi)
		if !ok {
			break
		}
		if b, ok := phi.Type().Underlying().(*types.Basic); !ok || b.Info()&types.IsInteger == 0 {
			continue
		}
		for i, e := range phi.Edges {
			if !outer.Blocks[outer.Header.Preds[i]] {
				if k, ok := constInt(e); ok && k == 0 {
					return phi
				}
			}
		}
	}
	return nil
}

// phiPlus: v == phi + k for k in {0,1}; returns k or -1.
func phiPlus(v ssa.Value, phi *ssa.Phi) int {
	v = stripConv(v)
	if v == ssa.Value(phi) {
		return 0
	}
	if bo, ok := v.(*ssa.BinOp); ok && bo.Op == token.ADD {
		if bo.X == ssa.Value(phi) {
			if k, ok := constInt(bo.Y); ok && k == 1 {
				return 1
			}
		}
		if bo.Y == ssa.Value(phi) {
			if k, ok := constInt(bo.X); ok && k == 1 {
				return 1
			}
		}
	}
	return -1
}

func ruleENG7(c *Ctx) {
	p := c.P
	a := c.eng()
	fn, outer, _, _ := c.engineCycleLoop()
	if fn == nil || outer == nil {
		c.AnchorLost("cycle loop of ExecuteWithContext")
		return
	}
	phi := cyclePhi(outer)
	if phi == nil {
		c.Fail("ExecuteWithContext / firing counter", p.Pos(fn.Pos()), "no loop-carried integer counter initialised to 0 in the cycle loop")
		return
	}
	execs := findCalls(fn, a.isExec)
	if len(execs) != 1 {
		c.Fail("ExecuteWithContext / firing site", p.Pos(fn.Pos()), "expected one firing site")
		return
	}
	maxF := p.Field("engine", "GruleEngine", "MaxCycle")
	// find every comparison of the counter with g.MaxCycle in the cycle loop
	type budgetGuard struct {
		iff     *ssa.If
		errEdge int
	}
	var guards []budgetGuard
	var lb []*ssa.BasicBlock
	for b := range outer.Blocks {
		lb = append(lb, b)
	}
	sort.Slice(lb, func(i, j int) bool { return lb[i].Index < lb[j].Index })
	for _, b := range lb {
		iff, ok := b.Instrs[len(b.Instrs)-1].(*ssa.If)
		if !ok {
			continue
		}
		bo, ok := iff.Cond.(*ssa.BinOp)
		if !ok {
			continue
		}
		isMax := func(v ssa.Value) bool {
			f, base := fieldLoad(stripConv(v))
			return f != nil && f == maxF && base == ssa.Value(receiver(fn))
		}
		var k int
		var op token.Token
		switch {
		case isMax(bo.Y) && phiPlus(bo.X, phi) >= 0:
			k, op = phiPlus(bo.X, phi), bo.Op
		case isMax(bo.X) && phiPlus(bo.Y, phi) >= 0:
			k, op = phiPlus(bo.Y, phi), mirrorOp(bo.Op)
		default:
			continue
		}
		// now: (phi + k) op Max
		switch {
		case k == 1 && op == token.GTR, k == 0 && op == token.GEQ:
			guards = append(guards, budgetGuard{iff, 0})
		case k == 1 && op == token.LEQ, k == 0 && op == token.LSS:
			guards = append(guards, budgetGuard{iff, 1})
		default:
			c.Fail("ExecuteWithContext / budget guard form", p.InstrPos(iff), fmt.Sprintf("the budget test `counter+%d %s MaxCycle` is off by one (accepted: fired+1 > Max, fired >= Max and mirrored spellings)", k, op))
			return
		}
	}
	if len(guards) == 0 {
		c.Fail("ExecuteWithContext / budget guard form", p.Pos(fn.Pos()), "no comparison of the firing counter with g.MaxCycle itself found in the cycle loop (a derived or defaulted limit is not the configured budget)")
		return
	}
	c.OK("ExecuteWithContext / budget guard form", p.InstrPos(guards[0].iff), "fired+1 > MaxCycle (or equivalent)")
	// firing dominated by the pass edge of some guard
	domOK := false
	for _, g := range guards {
		pass := g.iff.Block().Succs[1-g.errEdge]
		if pass.Dominates(execs[0].Block()) && len(pass.Preds) == 1 {
			domOK = true
		}
	}
	c.Check(domOK, "ExecuteWithContext / firing dominated by the budget guard", p.InstrPos(execs[0]), "dominated by the within-budget edge", "a rule can fire without passing the budget test")
	for _, g := range guards {
		gb := g.iff.Block()
		// error edge returns non-nil error
		c.Check(onlyErrorReturns(gb.Succs[g.errEdge], naturalLoops(fn)), "ExecuteWithContext / over-budget edge returns an error", p.InstrPos(g.iff), "only non-nil error returns", "the over-budget edge does not end in an error return")
		// raised only when the conflict set is non-empty
		okNonEmpty := edgesDominate(fn, g.iff, func(b *ssa.BasicBlock, si int) bool {
			iff, ok := b.Instrs[len(b.Instrs)-1].(*ssa.If)
			return ok && isLenGTZero(iff.Cond) && si == 0
		})
		c.Check(okNonEmpty, "ExecuteWithContext / limit error only when a firing is due", p.InstrPos(g.iff), "dominated by len(candidates) > 0", "the cycle-limit error can be raised at quiescence (no candidate)")
	}
	// every back edge carries phi+1 and is dominated by the firing
	okBack := true
	why := ""
	for i, e := range phi.Edges {
		pred := outer.Header.Preds[i]
		if !outer.Blocks[pred] {
			continue
		}
		if phiPlus(e, phi) != 1 {
			okBack = false
			why = "a back edge does not carry counter+1"
		}
		if !execs[0].Block().Dominates(pred) {
			okBack = false
			why = "a back edge of the cycle loop is not preceded by a firing (the loop can iterate without consuming budget)"
		}
	}
	c.Check(okBack, "ExecuteWithContext / every iteration consumes budget", p.Pos(phi.Pos()), "each back edge is dominated by the firing and carries counter+1 (ranking function MaxCycle - counter)", why)
}

// notifySite describes a listener notification reachable in fn: directly or through a forwarding helper.
type notifySite struct {
	instr  ssa.CallInstruction
	args   []ssa.Value     // arguments in the order of the listener method (without receiver)
	anchor ssa.Instruction // the instruction standing for "the notification happens here": the helper call, or the first instruction of an inlined fan-out loop's header
}

// listenerNotifies returns the sites in fn that notify listener method `method`, and the helper used (if any).
func (c *Ctx) listenerNotifies(fn *ssa.Function, method string) ([]notifySite, []*ssa.Function) {
	p := c.P
	m := p.IfaceMethod("engine", "GruleEngineListener", method)
	if m == nil {
		return nil, nil
	}
	var sites []notifySite
	for _, ci := range findCalls(fn, matchInvoke(m)) {
		anchor := ci.(ssa.Instruction)
		lf := p.Field("engine", "GruleEngine", "Listeners")
		for _, l := range naturalLoops(fn) {
			if !l.Blocks[ci.Block()] {
				continue
			}
			if x := rangeOperand(l); x != nil {
				if f, base := fieldLoad(x); f == lf && base == ssa.Value(receiver(fn)) && passesOnEveryIteration(l, ci.(ssa.Instruction)) {
					early := false
					for _, ex := range l.Exits() {
						if ex[0].(*ssa.BasicBlock) != l.Header {
							early = true
						}
					}
					if !early {
						anchor = l.Header.Instrs[0]
					}
				}
			}
		}
		sites = append(sites, notifySite{ci, ci.Common().Args, anchor})
	}
	var helpers []*ssa.Function
	for _, h := range p.ModuleFuncs() {
		if fnPkgShort(h) != "engine" || h == fn {
			continue
		}
		inv := findCalls(h, matchInvoke(m))
		if len(inv) == 0 {
			continue
		}
		// parameter forwarding map
		idx := make([]int, len(inv[0].Common().Args))
		ok := true
		for i, arg := range inv[0].Common().Args {
			idx[i] = -1
			for pi, prm := range h.Params {
				if arg == ssa.Value(prm) {
					idx[i] = pi
				}
			}
			if idx[i] < 0 {
				ok = false
			}
		}
		if !ok {
			continue
		}
		helpers = append(helpers, h)
		for _, ci := range findCalls(fn, matchStatic(h)) {
			args := make([]ssa.Value, len(idx))
			for i, pi := range idx {
				args[i] = ci.Common().Args[pi]
			}
			sites = append(sites, notifySite{ci, args, ci.(ssa.Instruction)})
		}
	}
	return sites, helpers
}

func ruleENG8(c *Ctx) {
	p := c.P
	a := c.eng()
	fn, outer, _, _ := c.engineCycleLoop()
	if fn == nil || outer == nil {
		c.AnchorLost("cycle loop of ExecuteWithContext")
		return
	}
	phi := cyclePhi(outer)
	if phi == nil {
		c.Fail("ExecuteWithContext / firing counter", p.Pos(fn.Pos()), "no loop-carried counter")
		return
	}
	for _, m := range []string{"BeginCycle", "EvaluateRuleEntry", "ExecuteRuleEntry"} {
		sites, _ := c.listenerNotifies(fn, m)
		if len(sites) == 0 {
			c.Fail("ExecuteWithContext / "+m+" notification", p.Pos(fn.Pos()), "no notification site found")
			continue
		}
		for _, s := range sites {
			ok := len(s.args) >= 2 && phiPlus(s.args[1], phi) == 1 && outer.Blocks[s.instr.Block()]
			c.Check(ok, "ExecuteWithContext / "+m+" reports cycle = fired+1", p.InstrPos(s.instr), "cycle argument is counter+1 inside the cycle loop", "the cycle number reported by "+m+" is not `firings so far + 1`: cycles would not be numbered consecutively from 1 or differ between the callbacks of one cycle")
		}
	}
	// the counter advances only on the firing path
	execs := findCalls(fn, a.isExec)
	okAdv := len(execs) == 1
	for i := range phi.Edges {
		pred := outer.Header.Preds[i]
		if outer.Blocks[pred] && okAdv && !execs[0].Block().Dominates(pred) {
			okAdv = false
		}
	}
	c.Check(okAdv, "ExecuteWithContext / counter advances only with a firing", p.Pos(phi.Pos()), "all back edges dominated by the firing", "the cycle counter can advance without a firing")
}

// ---------- ENG-9 ----------

func ruleENG9(c *Ctx) {
	p := c.P
	a := c.eng()
	fn, outer, inner, _ := c.engineCycleLoop()
	if fn == nil || outer == nil || inner == nil {
		c.AnchorLost("cycle loop of ExecuteWithContext")
		return
	}
	evals := findCalls(fn, a.isEval)
	execs := findCalls(fn, a.isExec)
	if len(evals) != 1 || len(execs) != 1 {
		c.Fail("ExecuteWithContext / one Evaluate and one Execute site", p.Pos(fn.Pos()), "expected exactly one of each")
		return
	}
	ev, ex := evals[0], execs[0]
	// helpers fan out to all listeners
	helperSeen := map[*ssa.Function]bool{}
	for _, m := range []string{"BeginCycle", "EvaluateRuleEntry", "ExecuteRuleEntry"} {
		_, helpers := c.listenerNotifies(fn, m)
		for _, h := range helpers {
			if helperSeen[h] {
				continue
			}
			helperSeen[h] = true
			c.Check(fansOutToAll(p, h, m), fnName(h)+" / notifies every listener", p.Pos(h.Pos()), "range over g.Listeners, invoke on every iteration, no early exit", "the helper does not call "+m+" on every registered listener")
		}
	}
	// EvaluateRuleEntry: exactly one site in the rule loop; same entry, same bool; on every continuing path
	sites, _ := c.listenerNotifies(fn, "EvaluateRuleEntry")
	var inLoop []notifySite
	for _, s := range sites {
		if inner.Blocks[s.anchor.Block()] {
			inLoop = append(inLoop, s)
		}
	}
	if c.Check(len(inLoop) == 1 && len(sites) == 1, "ExecuteWithContext / exactly one EvaluateRuleEntry site, in the rule loop", p.InstrPos(ev), "one site", fmt.Sprintf("%d EvaluateRuleEntry sites (%d in the rule loop): an evaluation would be reported twice or never", len(sites), len(inLoop))) {
		s := inLoop[0]
		can := resultValues(ev, 0)
		sameEntry := len(s.args) == 4 && unspill(s.args[2]) == unspill(ev.Common().Args[0])
		sameFlag := false
		for _, cv := range can {
			if len(s.args) == 4 && s.args[3] == cv {
				sameFlag = true
			}
		}
		c.Check(sameEntry && sameFlag, "ExecuteWithContext / EvaluateRuleEntry carries the evaluated entry and its real flag", p.InstrPos(s.instr), "same entry value, flag is Evaluate's own result", fmt.Sprintf("the notification does not report the evaluated rule with its real candidate status (sameEntry=%v realFlag=%v)", sameEntry, sameFlag))
		// from Evaluate, every path back to the rule loop header (or out by exhaustion) passes the notification
		t, path := reach(fn, ev.(ssa.Instruction), func(in ssa.Instruction) bool {
			return in.Block() == inner.Header && in == inner.Header.Instrs[0]
		}, func(in ssa.Instruction) bool { return in == s.anchor }, nil)
		if t != nil {
			c.Fail("ExecuteWithContext / every evaluation is reported", p.InstrPos(ev), "after an evaluation the loop can continue with the next rule without notifying EvaluateRuleEntry (e.g. on the failed-evaluation path)", pathString(p, path)...)
		} else {
			c.OK("ExecuteWithContext / every evaluation is reported", p.InstrPos(ev), "every continuing path passes the notification")
		}
		// and notification only after an evaluation: dominated by Evaluate
		c.Check(ev.Block().Dominates(s.anchor.Block()), "ExecuteWithContext / EvaluateRuleEntry only for evaluated rules", p.InstrPos(s.instr), "dominated by the Evaluate call", "EvaluateRuleEntry can be notified for a rule that was not evaluated (retracted/removed)")
	}
	// ExecuteRuleEntry dominates Execute, same runner
	es, _ := c.listenerNotifies(fn, "ExecuteRuleEntry")
	if c.Check(len(es) == 1, "ExecuteWithContext / exactly one ExecuteRuleEntry site", p.InstrPos(ex), "one site", fmt.Sprintf("%d sites", len(es))) {
		s := es[0]
		same := len(s.args) == 3 && unspill(s.args[2]) == unspill(ex.Common().Args[0])
		dom := s.anchor.Block().Dominates(ex.Block()) && (s.anchor.Block() != ex.Block() || instrIndex(s.anchor) < instrIndex(ex.(ssa.Instruction)))
		// nothing but the firing between: no path from notify to loop header avoiding Execute
		t, _ := reach(fn, s.anchor, func(in ssa.Instruction) bool {
			if in == outer.Header.Instrs[0] {
				return true
			}
			_, r := in.(*ssa.Return)
			return r
		}, func(in ssa.Instruction) bool { return in == ex.(ssa.Instruction) }, nil)
		c.Check(same && dom && t == nil, "ExecuteWithContext / ExecuteRuleEntry immediately precedes the firing of the same rule", p.InstrPos(s.instr), "same runner, dominates Execute, every path from it passes Execute", fmt.Sprintf("execution is reported for another rule or without the execution following (sameRule=%v dominates=%v alwaysFollowed=%v)", same, dom, t == nil))
	}
	// BeginCycle dominates the rule loop and sits in the cycle loop
	bs, _ := c.listenerNotifies(fn, "BeginCycle")
	if c.Check(len(bs) == 1, "ExecuteWithContext / exactly one BeginCycle site", p.Pos(fn.Pos()), "one site", fmt.Sprintf("%d sites", len(bs))) {
		s := bs[0]
		ok := outer.Blocks[s.anchor.Block()] && !inner.Blocks[s.anchor.Block()] && s.anchor.Block().Dominates(inner.Header)
		c.Check(ok, "ExecuteWithContext / BeginCycle precedes the evaluations of its cycle", p.InstrPos(s.instr), "in the cycle loop, dominates the rule loop", "BeginCycle is not notified once per cycle before the evaluations")
	}
}

func fansOutToAll(p *Prog, h *ssa.Function, method string) bool {
	m := p.IfaceMethod("engine", "GruleEngineListener", method)
	lf := p.Field("engine", "GruleEngine", "Listeners")
	for _, l := range naturalLoops(h) {
		x := rangeOperand(l)
		if x == nil {
			continue
		}
		f, base := fieldLoad(x)
		if f != lf || base != ssa.Value(receiver(h)) {
			continue
		}
		for _, ex := range l.Exits() {
			if ex[0].(*ssa.BasicBlock) != l.Header {
				return false
			}
		}
		for b := range l.Blocks {
			for _, in := range b.Instrs {
				if ci, ok := in.(ssa.CallInstruction); ok && matchInvoke(m)(ci) {
					if passesOnEveryIteration(l, in) && elemOfRanged(ci.Common().Value, x) {
						return true
					}
				}
			}
		}
	}
	return false
}

func elemOfRanged(v ssa.Value, ranged ssa.Value) bool {
	s, _ := elemOfSlice(v)
	return s == ranged
}

// comparatorAscending3: func(a, b *RuleEntry) int returning cmp.Compare(a.Salience, b.Salience) or a.Salience - b.Salience.
func comparatorAscending3(p *Prog, fn *ssa.Function) (bool, string) {
	if fn == nil || len(fn.Params) != 2 {
		return false, "its comparator is not a func(a, b) int literal"
	}
	rets := returnsOf(fn)
	if len(rets) != 1 || len(rets[0].Results) != 1 {
		return false, "its comparator has more than one return"
	}
	side := func(v ssa.Value) int {
		e := salienceOf(p, stripConv(v))
		switch e {
		case ssa.Value(fn.Params[0]):
			return 1
		case ssa.Value(fn.Params[1]):
			return 2
		}
		return 0
	}
	var x, y ssa.Value
	switch r := rets[0].Results[0].(type) {
	case *ssa.BinOp:
		if r.Op == token.SUB {
			x, y = r.X, r.Y
		}
	case *ssa.Call:
		if f := r.Call.StaticCallee(); f != nil && strings.HasPrefix(f.String(), "cmp.Compare") && len(r.Call.Args) == 2 {
			x, y = r.Call.Args[0], r.Call.Args[1]
		}
	}
	if x == nil {
		return false, "its comparator is neither cmp.Compare(a.Salience, b.Salience) nor a.Salience - b.Salience"
	}
	switch {
	case side(x) == 1 && side(y) == 2:
		return true, ""
	case side(x) == 2 && side(y) == 1:
		return false, "its comparator orders Salience descending, so MaxFunc selects the lowest salience"
	}
	return false, "its comparator does not compare the Salience of its two arguments"
}

// isDoneChan: v is the result of a Done() call on a context.
func isDoneChan(v ssa.Value) bool {
	call, ok := v.(*ssa.Call)
	return ok && call.Call.IsInvoke() && call.Call.Method.Name() == "Done" && isNamed(call.Call.Value.Type(), "context", "Context")
}
