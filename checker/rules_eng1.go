package main

import (
	"fmt"
	"go/token"
	"go/types"
	"sort"
	"strings"

	"golang.org/x/tools/go/ssa"
)

func init() {
	register("ENG-1", "per-call state reset: every entry point resets each non-exempt run-state field before the first evaluation", 6, ruleENG1)
	register("ENG-2", "evaluation guard and candidate flag", 8, ruleENG2)
	register("ENG-3", "loop exits: nil is returned only at quiescence or after Complete", 5, ruleENG3)
	register("ENG-4", "every active rule is evaluated in every cycle", 2, ruleENG4)
}

type engAnchors struct {
	exec, fetch        *ssa.Function
	reEval, reExec     *ssa.Function
	isEval, isExec     Matcher
	retracted, deleted *types.Var
}

func (c *Ctx) eng() *engAnchors {
	p := c.P
	a := &engAnchors{}
	a.exec = p.Method("engine", "GruleEngine", "ExecuteWithContext")
	a.fetch = p.Method("engine", "GruleEngine", "FetchMatchingRules")
	a.reEval = p.Method("ast", "RuleEntry", "Evaluate")
	a.reExec = p.Method("ast", "RuleEntry", "Execute")
	a.isEval = matchStatic(a.reEval)
	a.isExec = matchStatic(a.reExec)
	a.retracted = p.Field("ast", "RuleEntry", "Retracted")
	a.deleted = p.Field("ast", "RuleEntry", "Deleted")
	return a
}

// entryPoints: exported methods of *engine.GruleEngine that (directly) call RuleEntry.Evaluate.
func (c *Ctx) entryPoints(a *engAnchors) []*ssa.Function {
	var out []*ssa.Function
	for _, fn := range c.P.ModuleFuncs() {
		if fnPkgShort(fn) != "engine" || fn.Signature.Recv() == nil {
			continue
		}
		if len(findCalls(fn, a.isEval)) > 0 {
			out = append(out, fn)
		}
	}
	return out
}

// runStateExempt: value caches that need no reset, one symbol and one reason each (confirmed by reading).
var runStateExempt = map[string]string{
	"Expression.Value":         "read only under Expression.Evaluated (INV-3)",
	"ExpressionAtom.Value":     "read only under ExpressionAtom.Evaluated (INV-3)",
	"ExpressionAtom.ValueNode": "read by the parent atom only after the child's Evaluate call of the same evaluation",
	"Variable.Value":           "rewritten by Variable.Evaluate before every read",
	"Variable.ValueNode":       "rewritten by Variable.Evaluate before every read",
	"ArrayMapSelector.Value":   "rewritten by ArrayMapSelector.Evaluate before every read",
}

// derivedRunState: fields of knowledge-base resident types stored to by functions reachable from
// RuleEntry.Evaluate / Execute (incl. modelled built-ins), excluding initialisation of fresh objects.
func (c *Ctx) derivedRunState(a *engAnchors) map[string]string {
	p := c.P
	resident := map[*types.Named]bool{}
	for _, n := range []string{"RuleEntry", "WhenScope", "ThenScope", "ThenExpressionList", "ThenExpression", "Assignment", "Expression", "ExpressionAtom", "Variable", "Constant", "FunctionCall", "ArgumentList", "ArrayMapSelector", "KnowledgeBase", "WorkingMemory", "KnowledgeLibrary"} {
		if t := p.Named("ast", n); t != nil {
			resident[t] = true
		}
	}
	out := map[string]string{}
	funcs := c.reachableModuleFuncs([]*ssa.Function{a.reEval, a.reExec}, true)
	for fn := range funcs {
		for _, b := range fn.Blocks {
			for _, in := range b.Instrs {
				f, base, _ := fieldStore(in)
				if f == nil || base == nil {
					continue
				}
				pt, ok := base.Type().Underlying().(*types.Pointer)
				if !ok {
					continue
				}
				n, ok := pt.Elem().(*types.Named)
				if !ok || !resident[n] {
					continue
				}
				if _, fresh := base.(*ssa.Alloc); fresh {
					continue
				}
				key := n.Obj().Name() + "." + f.Name()
				if _, ok := out[key]; !ok {
					out[key] = fnName(fn) + " at " + p.InstrPos(in)
				}
			}
		}
	}
	return out
}

func ruleENG1(c *Ctx) {
	p := c.P
	a := c.eng()
	m := c.memo()
	if a.exec == nil || a.fetch == nil || a.reEval == nil || a.reExec == nil {
		c.AnchorLost("engine entry points / RuleEntry.Evaluate / Execute")
		return
	}
	eng1NoRefusalByState(c, a)
	rs := c.derivedRunState(a)
	var keys []string
	for k := range rs {
		keys = append(keys, k)
	}
	sort.Strings(keys)
	c.Notes = append(c.Notes, "ENG-1 derived run state: "+strings.Join(keys, ", "))
	needReset := map[string]bool{}
	for _, k := range keys {
		if _, ex := runStateExempt[k]; ex {
			continue
		}
		switch k {
		case "Expression.Evaluated", "ExpressionAtom.Evaluated", "RuleEntry.Retracted":
			needReset[k] = true
		default:
			c.Fail("run state "+k+" has a reset", rs[k], "field "+k+" is written during a run ("+rs[k]+") but is neither reset by the entry points nor in the table of value caches: state would leak into the next call on the same instance")
		}
	}
	for _, must := range []string{"Expression.Evaluated", "ExpressionAtom.Evaluated", "RuleEntry.Retracted"} {
		if !needReset[must] {
			c.Fail("derived run state contains "+must, "-", "run-state derivation lost "+must+" (anchor lost)")
		}
	}
	bulks := c.bulkInvalidators(m)
	isBulk := matchStatic(bulks...)
	// Retracted resetters: functions storing false to Retracted inside a range over RuleEntries without an exit
	var retReset []*ssa.Function
	reField := p.Field("ast", "KnowledgeBase", "RuleEntries")
	for _, fn := range p.ModuleFuncs() {
		for _, l := range naturalLoops(fn) {
			x := rangeOperand(l)
			if x == nil {
				continue
			}
			if f, _ := fieldLoad(x); f != reField || f == nil {
				continue
			}
			early := false
			for _, ex := range l.Exits() {
				if ex[0].(*ssa.BasicBlock) != l.Header {
					early = true
				}
			}
			for b := range l.Blocks {
				for _, in := range b.Instrs {
					sf, base, val := fieldStore(in)
					if sf != a.retracted || sf == nil {
						continue
					}
					if bv, isb := constBool(val); !isb || bv {
						continue
					}
					if !isRangeValueOf(base, l) {
						continue
					}
					// the store may only be conditional on the flag itself
					if !early && storeUnconditionalOrSelfGuarded(l, in, a.retracted) {
						retReset = append(retReset, fn)
					}
				}
			}
		}
	}
	isRetReset := matchStatic(retReset...)
	initCtx := p.Method("ast", "KnowledgeBase", "InitializeContext")
	for _, ep := range c.entryPoints(a) {
		var kb, dc *ssa.Parameter
		for _, prm := range ep.Params {
			if isNamed(prm.Type(), fullPkg("ast"), "KnowledgeBase") {
				kb = prm
			}
			if isNamed(prm.Type(), fullPkg("ast"), "IDataContext") {
				dc = prm
			}
		}
		evals := findCalls(ep, a.isEval)
		isE := func(in ssa.Instruction) bool {
			for _, e := range evals {
				if in == e.(ssa.Instruction) {
					return true
				}
			}
			return false
		}
		wmOfKB := p.Field("ast", "KnowledgeBase", "WorkingMemory")
		type resetSpec struct {
			name string
			is   func(ci ssa.CallInstruction, kb, dc ssa.Value) bool
		}
		resets := []resetSpec{
			{"Evaluated (whole memo cleared on knowledge.WorkingMemory)", func(ci ssa.CallInstruction, kb, dc ssa.Value) bool {
				if !isBulk(ci) || len(bulks) == 0 {
					return false
				}
				f, base := fieldLoad(ci.Common().Args[0])
				return f == wmOfKB && base == kb
			}},
			{"Retracted (all rules un-retracted on the call's knowledge base)", func(ci ssa.CallInstruction, kb, dc ssa.Value) bool {
				return len(retReset) > 0 && isRetReset(ci) && unspill(ci.Common().Args[0]) == kb
			}},
			{"DataContext (InitializeContext with the call's data context)", func(ci ssa.CallInstruction, kb, dc ssa.Value) bool {
				if initCtx == nil || !matchStatic(initCtx)(ci) {
					return false
				}
				args := ci.Common().Args
				return len(args) == 2 && unspill(args[0]) == kb && unspill(args[1]) == dc
			}},
		}
		// passes: the call performs the reset itself, or is a module helper (depth <= 2) that performs it on every path
		// for the knowledge base / data context handed to it (P9: wrapper summary, so that extracting the shared
		// prologue of the two entry points into a helper does not alarm).
		var passes func(ci ssa.CallInstruction, r resetSpec, kbv, dcv ssa.Value, depth int) bool
		passes = func(ci ssa.CallInstruction, r resetSpec, kbv, dcv ssa.Value, depth int) bool {
			if r.is(ci, kbv, dcv) {
				return true
			}
			callee := ci.Common().StaticCallee()
			if depth >= 2 || callee == nil || !fnInModule(callee) || callee.Blocks == nil || callee == a.reEval || callee == a.reExec {
				return false
			}
			var kb2, dc2 ssa.Value
			for i, arg := range ci.Common().Args {
				if i >= len(callee.Params) {
					break
				}
				if unspill(arg) == kbv {
					kb2 = callee.Params[i]
				}
				if unspill(arg) == dcv {
					dc2 = callee.Params[i]
				}
			}
			if kb2 == nil {
				return false
			}
			return mustPass(callee, func(in ssa.Instruction) bool {
				c2, ok := in.(ssa.CallInstruction)
				return ok && passes(c2, r, kb2, dc2, depth+1)
			})
		}
		for _, r := range resets {
			construct := fmt.Sprintf("%s / resets %s", fnName(ep), r.name)
			t, path := reach(ep, nil, isE, func(in ssa.Instruction) bool {
				ci, ok := in.(ssa.CallInstruction)
				return ok && passes(ci, r, kb, dc, 0)
			}, nil)
			if t != nil {
				c.Fail(construct, p.InstrPos(t), "the first rule evaluation can be reached without this reset: state of an earlier call on the same instance leaks into this one", pathString(p, path)...)
			} else {
				c.OK(construct, p.Pos(ep.Pos()), "every path from entry to an evaluation passes the reset")
			}
		}
	}
	c.Notes = append(c.Notes, fmt.Sprintf("ENG-1 derived %d bulk invalidator(s), %d Retracted resetter(s)", len(bulks), len(retReset)))
}

// storeUnconditionalOrSelfGuarded: in loop l, instruction in is executed on every iteration, or is skipped only
// when the field itself is already false (`if re.Retracted { re.Retracted = false }`).
func storeUnconditionalOrSelfGuarded(l *Loop, in ssa.Instruction, field *types.Var) bool {
	if passesOnEveryIteration(l, in) {
		return true
	}
	// find the If that guards it
	b := in.Block()
	if len(b.Preds) != 1 {
		return false
	}
	pb := b.Preds[0]
	iff, ok := pb.Instrs[len(pb.Instrs)-1].(*ssa.If)
	if !ok {
		return false
	}
	kind, sTrue, ok := condOn(iff.Cond, func(v ssa.Value) bool {
		f, base := fieldLoad(v)
		return f == field && isRangeValueOf(base, l)
	})
	return ok && kind == "bool" && pb.Succs[sTrue] == b
}

// appendedElems returns the element values of an `append(s, e...)` builtin call built from a slice literal.
func appendedElems(call *ssa.Call) []ssa.Value {
	bi, ok := call.Call.Value.(*ssa.Builtin)
	if !ok || bi.Name() != "append" || len(call.Call.Args) != 2 {
		return nil
	}
	var out []ssa.Value
	sl, ok := call.Call.Args[1].(*ssa.Slice)
	if !ok {
		return nil
	}
	al, ok := sl.X.(*ssa.Alloc)
	if !ok {
		return nil
	}
	for _, r := range *al.Referrers() {
		if ia, ok := r.(*ssa.IndexAddr); ok {
			for _, rr := range *ia.Referrers() {
				if st, ok := rr.(*ssa.Store); ok {
					out = append(out, st.Val)
				}
			}
		}
	}
	return out
}

func ruleENG2(c *Ctx) {
	p := c.P
	a := c.eng()
	if a.exec == nil || a.fetch == nil || a.reEval == nil {
		c.AnchorLost("engine entry points / RuleEntry.Evaluate")
		return
	}
	for _, ep := range []*ssa.Function{a.exec, a.fetch} {
		evals := findCalls(ep, a.isEval)
		if len(evals) == 0 {
			c.Fail(fnName(ep)+" / Evaluate call", p.Pos(ep.Pos()), "no call of RuleEntry.Evaluate (anchor lost)")
			continue
		}
		for _, ev := range evals {
			entry := unspill(ev.Common().Args[0])
			flags := []*types.Var{a.deleted}
			if ep == a.exec {
				flags = []*types.Var{a.retracted, a.deleted}
			}
			for _, fl := range flags {
				ok := edgesDominate(ep, ev.(ssa.Instruction), func(b *ssa.BasicBlock, si int) bool {
					iff, isIf := b.Instrs[len(b.Instrs)-1].(*ssa.If)
					if !isIf {
						return false
					}
					kind, sTrue, okc := condOn(iff.Cond, func(v ssa.Value) bool {
						f, base := fieldLoad(v)
						return f == fl && base == entry
					})
					return okc && kind == "bool" && si == 1-sTrue
				})
				c.Check(ok, fmt.Sprintf("%s / Evaluate guarded by !%s", fnName(ep), fl.Name()), p.InstrPos(ev), "dominated by the flag's false edge on the same entry", "a rule whose "+fl.Name()+" flag is set can still be evaluated (and become a candidate)")
			}
			// (b) appends
			can := resultValues(ev, 0)
			nApp := 0
			for _, b := range ep.Blocks {
				for _, in := range b.Instrs {
					call, ok := in.(*ssa.Call)
					if !ok {
						continue
					}
					elems := appendedElems(call)
					if elems == nil || !isNamed(sliceElem(call.Type()), fullPkg("ast"), "RuleEntry") {
						continue
					}
					nApp++
					same := len(elems) == 1 && unspill(elems[0]) == entry
					dom := edgesDominate(ep, call, func(bb *ssa.BasicBlock, si int) bool {
						iff, isIf := bb.Instrs[len(bb.Instrs)-1].(*ssa.If)
						if !isIf {
							return false
						}
						kind, sTrue, okc := condOn(iff.Cond, func(v ssa.Value) bool {
							for _, cv := range can {
								if v == cv {
									return true
								}
							}
							return false
						})
						return okc && kind == "bool" && si == sTrue
					})
					c.Check(same && dom, fmt.Sprintf("%s / candidate append", fnName(ep)), p.InstrPos(call), "appends the evaluated entry under the true edge of its own Evaluate result", fmt.Sprintf("candidate list is appended to without the evaluated entry's own `true` result (sameEntry=%v guardedByCan=%v)", same, dom))
				}
			}
			if nApp != 1 {
				c.Fail(fnName(ep)+" / exactly one candidate append", p.Pos(ep.Pos()), fmt.Sprintf("%d append sites to a []*RuleEntry, expected exactly 1", nApp))
			}
			// (b') completeness: once Evaluate said true, nothing but an error return lies between it and the append
			var appendCall ssa.Instruction
			for _, b := range ep.Blocks {
				for _, in := range b.Instrs {
					if call, ok := in.(*ssa.Call); ok && appendedElems(call) != nil && isNamed(sliceElem(call.Type()), fullPkg("ast"), "RuleEntry") {
						appendCall = call
					}
				}
			}
			loop := innermostLoopOf(naturalLoops(ep), ev.(ssa.Instruction).Block())
			if appendCall != nil && loop != nil {
				isCan := func(v ssa.Value) bool {
					for _, cv := range can {
						if v == cv {
							return true
						}
					}
					return false
				}
				t, path := reach(ep, ev.(ssa.Instruction), func(in ssa.Instruction) bool {
					if in.Block() == loop.Header && instrIndex(in) == 0 {
						return true
					}
					if r, ok := in.(*ssa.Return); ok {
						return !returnsNonNilError(r)
					}
					return false
				}, func(in ssa.Instruction) bool { return in == appendCall }, func(b *ssa.BasicBlock, si int) bool {
					iff, isIf := b.Instrs[len(b.Instrs)-1].(*ssa.If)
					if !isIf {
						return true
					}
					if kind, sTrue, okc := condOn(iff.Cond, isCan); okc && kind == "bool" {
						return si == sTrue
					}
					return true
				})
				construct := fmt.Sprintf("%s / every satisfied entry becomes a candidate", fnName(ep))
				if t == nil {
					c.OK(construct, p.InstrPos(ev), "with Evaluate's result true, every path to the next iteration or a success return passes the append")
				} else {
					c.Fail(construct, p.InstrPos(ev), fmt.Sprintf("an entry whose condition evaluated to true can be left out of the candidate list: the next iteration / a success return at %s is reachable without the append (an extra filter on the satisfied entry)", p.InstrPos(t)), pathString(p, path)...)
				}
			}
		}
	}
	// (a') the evaluation and the firing run against the call's own data context and the knowledge base's own working
	// memory (an assignment invalidates through the memory it is handed: another memory would leave the memo stale)
	wmOfKB := p.Field("ast", "KnowledgeBase", "WorkingMemory")
	for _, ep := range []*ssa.Function{a.exec, a.fetch} {
		var kb, dc *ssa.Parameter
		for _, prm := range ep.Params {
			if isNamed(prm.Type(), fullPkg("ast"), "KnowledgeBase") {
				kb = prm
			}
			if isNamed(prm.Type(), fullPkg("ast"), "IDataContext") {
				dc = prm
			}
		}
		for _, ci := range findCalls(ep, matchAny(a.isEval, a.isExec)) {
			args := ci.Common().Args
			okArgs := len(args) == 4 && unspill(args[2]) == ssa.Value(dc)
			if okArgs {
				f, base := fieldLoad(args[3])
				okArgs = f == wmOfKB && base == ssa.Value(kb)
			}
			c.Check(okArgs, fmt.Sprintf("%s / %s runs on the call's data context and the knowledge base's working memory", fnName(ep), calleeName(ci)), p.InstrPos(ci), "(ctx, dataCtx, knowledge.WorkingMemory)", "the rule is evaluated/fired against another data context or working memory than the call's: invalidations and built-ins would act on different state than the conditions read")
		}
	}
	// (c) RuleEntry.Evaluate result discipline
	fn := a.reEval
	whenEval := findCalls(fn, matchNamedMethod(fullPkg("ast"), "WhenScope", "Evaluate"))
	if len(whenEval) != 1 {
		c.Fail("RuleEntry.Evaluate / WhenScope.Evaluate call", p.Pos(fn.Pos()), "expected exactly one call of WhenScope.Evaluate")
		return
	}
	we := whenEval[0]
	// Retracted receiver returns false without evaluating
	okRet := edgesDominate(fn, we.(ssa.Instruction), func(b *ssa.BasicBlock, si int) bool {
		iff, isIf := b.Instrs[len(b.Instrs)-1].(*ssa.If)
		if !isIf {
			return false
		}
		kind, sTrue, okc := condOn(iff.Cond, func(v ssa.Value) bool {
			f, base := fieldLoad(v)
			return f == a.retracted && base == ssa.Value(receiver(fn))
		})
		return okc && kind == "bool" && si == 1-sTrue
	})
	c.Check(okRet, "RuleEntry.Evaluate / retracted receiver is not evaluated", p.InstrPos(we), "when-scope evaluation dominated by !Retracted", "a retracted rule's condition is still evaluated by RuleEntry.Evaluate")
	// every return: classify
	for _, ret := range returnsOf(fn) {
		if ret.Block().Comment == "recover" {
			continue
		}
		first, errv := returnOperandsThroughAllocs(ret)
		construct := "RuleEntry.Evaluate / return at " + shortRetLabel(p, ret)
		if first == nil || errv == nil {
			c.Undecided(construct, p.InstrPos(ret), "cannot resolve the returned values")
			continue
		}
		if bv, isb := constBool(first); isb && !bv {
			c.OK(construct, p.InstrPos(ret), "returns false")
			continue
		}
		// non-constant (or true) first result: must be val.Bool() of the when value, with nil error, and unreachable when the when-scope failed
		call, isCall := first.(*ssa.Call)
		isBoolOfWhen := isCall && calleeNameIs(call, "Bool") && len(call.Call.Args) == 1 && derivesFromValue(call.Call.Args[0], we.Value())
		q := &AQuery{Fn: fn, From: we.(ssa.Instruction), Designated: resultValues(we, 1), Assume: AssumeNonNil,
			IsTarget: func(in ssa.Instruction, st *AState) bool { return in == ssa.Instruction(ret) }}
		r := q.Run()
		kindOK := edgesDominate(fn, ret, func(b *ssa.BasicBlock, si int) bool {
			iff, isIf := b.Instrs[len(b.Instrs)-1].(*ssa.If)
			if !isIf {
				return false
			}
			bo, isBo := iff.Cond.(*ssa.BinOp)
			if !isBo || (bo.Op != token.EQL && bo.Op != token.NEQ) {
				return false
			}
			kc, isK := bo.X.(*ssa.Call)
			if !isK || !calleeNameIs(kc, "Kind") {
				return false
			}
			if k, ok := constInt(bo.Y); !ok || k != 1 { // reflect.Bool == 1
				return false
			}
			if bo.Op == token.EQL {
				return si == 0
			}
			return si == 1
		})
		ok := isBoolOfWhen && isNilConst(errv) && r.Found == nil && kindOK
		c.Check(ok, construct, p.InstrPos(ret), "returns when-value.Bool() only with nil error, after err==nil and Kind()==Bool", fmt.Sprintf("a non-false candidate flag is returned outside the accepted form (isBoolOfWhen=%v nilErr=%v unreachableOnError=%v kindChecked=%v)", isBoolOfWhen, isNilConst(errv), r.Found == nil, kindOK))
	}
}

func sliceElem(t types.Type) types.Type {
	if s, ok := t.Underlying().(*types.Slice); ok {
		return s.Elem()
	}
	return types.Typ[types.Invalid]
}

func shortRetLabel(p *Prog, ret *ssa.Return) string {
	return fmt.Sprintf("block %s#%d", ret.Block().Comment, countRetOrdinal(ret))
}

func countRetOrdinal(ret *ssa.Return) int {
	n := 0
	for _, r := range returnsOf(ret.Parent()) {
		n++
		if r == ret {
			return n
		}
	}
	return n
}

// returnOperandsThroughAllocs resolves the operands of a 2-result return, looking through named results
// spilled to allocs (last store in the same block).
func returnOperandsThroughAllocs(ret *ssa.Return) (ssa.Value, ssa.Value) {
	if len(ret.Results) != 2 {
		return nil, nil
	}
	res := make([]ssa.Value, 2)
	for i, v := range ret.Results {
		res[i] = v
		if u, ok := v.(*ssa.UnOp); ok && u.Op == token.MUL {
			if a, ok := u.X.(*ssa.Alloc); ok {
				res[i] = nil
				for _, in := range ret.Block().Instrs {
					if st, ok := in.(*ssa.Store); ok && st.Addr == ssa.Value(a) {
						res[i] = st.Val
					}
				}
			}
		}
	}
	return res[0], res[1]
}

// ---------- ENG-3 ----------

func ruleENG3(c *Ctx) {
	p := c.P
	a := c.eng()
	fn, outer, inner, _ := c.engineCycleLoop()
	if fn == nil || outer == nil || inner == nil || outer == inner {
		c.AnchorLost("cycle loop / rule loop of ExecuteWithContext")
		return
	}
	var dc *ssa.Parameter
	for _, prm := range fn.Params {
		if isNamed(prm.Type(), fullPkg("ast"), "IDataContext") {
			dc = prm
		}
	}
	execs := findCalls(fn, a.isExec)
	// classify exits: an exit edge leads either to a block that returns a non-nil error (allowed), or towards the
	// nil return; the nil-returning exits must be exactly: false edge of len(candidates) > 0 ; true edge of IsComplete() after the firing
	n := 0
	for _, ex := range outer.Exits() {
		b := ex[0].(*ssa.BasicBlock)
		si := ex[1].(int)
		n++
		target := b.Succs[si]
		construct := fmt.Sprintf("cycle loop exit %s->%s", b.Comment, target.Comment)
		// does the exit lead to a nil return?
		leadsNil, leadsErr := exitKinds(target, outer)
		iff, _ := b.Instrs[len(b.Instrs)-1].(*ssa.If)
		switch {
		case leadsNil && iff != nil && isLenGTZero(iff.Cond) && si == 1:
			// the slice measured must be the candidate slice (receives the ENG-2 append)
			c.OK(construct+" [no candidate]", p.InstrPos(iff), "false edge of len(candidates) > 0")
		case leadsNil && iff != nil && isCallOn(iff.Cond, "IsComplete", dc) && si == 0:
			after := len(execs) == 1 && execs[0].Block().Dominates(b)
			c.Check(after, construct+" [Complete]", p.InstrPos(iff), "true edge of dataCtx.IsComplete() after the firing", "the completion exit is not evaluated after the firing of this cycle")
		case leadsNil:
			c.Fail(construct, p.InstrPos(b.Instrs[len(b.Instrs)-1]), "the run can end with a nil error through an exit that is neither `no candidate` nor `Complete`: satisfied rules would be overlooked")
		case leadsErr:
			c.OK(construct+" [error]", p.InstrPos(b.Instrs[len(b.Instrs)-1]), "leads only to non-nil error returns")
		default:
			c.Undecided(construct, p.InstrPos(b.Instrs[len(b.Instrs)-1]), "cannot classify this exit")
		}
	}
	// returns inside the loop body count as exits too
	for b := range outer.Blocks {
		if ret, ok := b.Instrs[len(b.Instrs)-1].(*ssa.Return); ok {
			n++
			construct := fmt.Sprintf("cycle loop return in %s #%d", b.Comment, countRetOrdinal(ret))
			c.Check(returnsNonNilError(ret), construct, p.InstrPos(ret), "returns a non-nil error", "a return inside the cycle loop may yield a nil error")
		}
	}
	_ = n
}

// exitKinds follows blocks outside the loop from `start` and reports whether a nil-error return / a non-nil error
// return is reachable.
func exitKinds(start *ssa.BasicBlock, l *Loop) (leadsNil, leadsErr bool) {
	seen := map[*ssa.BasicBlock]bool{}
	stack := []*ssa.BasicBlock{start}
	for len(stack) > 0 {
		b := stack[len(stack)-1]
		stack = stack[:len(stack)-1]
		if seen[b] || l.Blocks[b] {
			continue
		}
		seen[b] = true
		if ret, ok := b.Instrs[len(b.Instrs)-1].(*ssa.Return); ok {
			if returnsNonNilError(ret) {
				leadsErr = true
			} else {
				leadsNil = true
			}
		}
		stack = append(stack, b.Succs...)
	}
	return
}

// returnsNonNilError: the (last) error operand of ret is definitely non-nil: it is dominated by a non-nil test of
// itself, is a fresh error (fmt.Errorf/errors.New), or a ctx.Err() re-read on the non-nil edge of a ctx.Err() test.
func returnsNonNilError(ret *ssa.Return) bool {
	if len(ret.Results) == 0 {
		return false
	}
	v := ret.Results[len(ret.Results)-1]
	if !isErrorType(v.Type()) {
		return false
	}
	// results spilled to a local because of a defer: take the last store in the returning block
	if u, ok := v.(*ssa.UnOp); ok && u.Op == token.MUL {
		if a, ok := u.X.(*ssa.Alloc); ok {
			for _, in := range ret.Block().Instrs {
				if st, ok := in.(*ssa.Store); ok && st.Addr == ssa.Value(a) {
					v = st.Val
				}
			}
		}
	}
	if isNilConst(v) {
		return false
	}
	if _, ok := v.(*ssa.MakeInterface); ok {
		return true
	}
	if call, ok := v.(*ssa.Call); ok {
		if f := call.Call.StaticCallee(); f != nil && alwaysNonNilError(f, 0) {
			return true
		}
		// ctx.Err() returned on the non-nil edge of an earlier ctx.Err() test on the same context
		if call.Call.IsInvoke() && call.Call.Method.Name() == "Err" {
			return dominatedByNonNilTestOfSameCall(ret.Block(), call) || dominatedByCancelledEdge(ret.Block(), unspill(call.Call.Value))
		}
	}
	return dominatedByNonNilTest(ret.Block(), v)
}

func dominatedByNonNilTestOfSameCall(b *ssa.BasicBlock, call *ssa.Call) bool {
	fn := b.Parent()
	for _, bb := range fn.Blocks {
		iff, ok := bb.Instrs[len(bb.Instrs)-1].(*ssa.If)
		if !ok {
			continue
		}
		kind, sNil, ok := condOn(iff.Cond, func(v ssa.Value) bool {
			c2, ok := v.(*ssa.Call)
			return ok && c2.Call.IsInvoke() && c2.Call.Method.Name() == "Err" && c2.Call.Value == call.Call.Value
		})
		if !ok || kind != "nil" {
			continue
		}
		nn := bb.Succs[1-sNil]
		if nn.Dominates(b) && len(nn.Preds) == 1 {
			return true
		}
	}
	return false
}

func isLenGTZero(cond ssa.Value) bool {
	bo, ok := cond.(*ssa.BinOp)
	if !ok {
		return false
	}
	isLen := func(v ssa.Value) bool {
		call, ok := v.(*ssa.Call)
		if !ok {
			return false
		}
		bi, ok := call.Call.Value.(*ssa.Builtin)
		return ok && bi.Name() == "len"
	}
	if k, ok := constInt(bo.Y); ok && isLen(bo.X) {
		return (bo.Op == token.GTR && k == 0) || (bo.Op == token.GEQ && k == 1) || (bo.Op == token.NEQ && k == 0)
	}
	return false
}

func isCallOn(cond ssa.Value, method string, recv ssa.Value) bool {
	call, ok := cond.(*ssa.Call)
	if !ok {
		return false
	}
	if !calleeNameIs(call, method) {
		return false
	}
	if call.Call.IsInvoke() {
		return unspill(call.Call.Value) == recv
	}
	return len(call.Call.Args) > 0 && unspill(call.Call.Args[0]) == recv
}

// ---------- ENG-4 ----------

func ruleENG4(c *Ctx) {
	p := c.P
	a := c.eng()
	reField := p.Field("ast", "KnowledgeBase", "RuleEntries")
	for _, ep := range []*ssa.Function{a.exec, a.fetch} {
		if ep == nil {
			c.AnchorLost("engine entry point")
			continue
		}
		evals := findCalls(ep, a.isEval)
		if len(evals) != 1 {
			c.Fail(fnName(ep)+" / rule loop", p.Pos(ep.Pos()), fmt.Sprintf("expected exactly one Evaluate call site, found %d", len(evals)))
			continue
		}
		ev := evals[0]
		loops := naturalLoops(ep)
		l := innermostLoopOf(loops, ev.Block())
		construct := fnName(ep) + " / rule loop ranges over all entries without early exit"
		if l == nil {
			c.Fail(construct, p.InstrPos(ev), "Evaluate is not called in a loop")
			continue
		}
		var kb *ssa.Parameter
		for _, prm := range ep.Params {
			if isNamed(prm.Type(), fullPkg("ast"), "KnowledgeBase") {
				kb = prm
			}
		}
		x := rangeOperand(l)
		f, base := fieldLoad(x)
		okRange := x != nil && f == reField && base == ssa.Value(kb) && isRangeValueOf(unspill(ev.Common().Args[0]), l)
		// exits other than exhaustion must be error returns
		okExits := true
		why := ""
		for _, ex := range l.Exits() {
			b := ex[0].(*ssa.BasicBlock)
			if b == l.Header {
				continue
			}
			if onlyErrorReturns(b.Succs[ex[1].(int)], loops) {
				continue
			}
			okExits = false
			why = "early exit from block " + b.Comment
		}
		for b := range l.Blocks {
			if ret, ok := b.Instrs[len(b.Instrs)-1].(*ssa.Return); ok {
				if !returnsNonNilError(ret) {
					okExits = false
					why = "a return inside the rule loop may yield nil"
				}
			}
		}
		// Evaluate control-dependent only on ctx check and the ENG-2 flags: every If in the loop that dominates... approximate:
		// blocking the flag edges and ctx edges, the call must be reached on every iteration: i.e. every If between header and call
		// tests ctx.Err(), Retracted or Deleted.
		okCtl := true
		for b := range l.Blocks {
			iff, ok := b.Instrs[len(b.Instrs)-1].(*ssa.If)
			if !ok || b == l.Header || !b.Dominates(ev.Block()) || b == ev.Block() {
				continue
			}
			if !condIsFlagOrCtx(iff.Cond, a) {
				okCtl = false
				why = "Evaluate is additionally conditional on " + iff.Cond.String() + " at " + p.InstrPos(iff)
			}
		}
		c.Check(okRange && okExits && okCtl, construct, p.InstrPos(ev), "range over knowledge.RuleEntries; exits only by exhaustion or error return", fmt.Sprintf("rule loop broken (rangesOverRuleEntries=%v exitsOK=%v controlOK=%v %s): some active rule may not be evaluated in a cycle", okRange, okExits, okCtl, why))
	}
}

func condIsFlagOrCtx(cond ssa.Value, a *engAnchors) bool {
	// non-blocking select on ctx.Done()
	if bo, ok := cond.(*ssa.BinOp); ok {
		if ex, ok := bo.X.(*ssa.Extract); ok {
			if _, ok := ex.Tuple.(*ssa.Select); ok {
				return true
			}
		}
	}
	if _, _, ok := condOn(cond, func(v ssa.Value) bool {
		f, _ := fieldLoad(v)
		return f != nil && (f == a.retracted || f == a.deleted)
	}); ok {
		return true
	}
	if _, _, ok := condOn(cond, func(v ssa.Value) bool {
		call, ok := v.(*ssa.Call)
		return ok && call.Call.IsInvoke() && call.Call.Method.Name() == "Err"
	}); ok {
		return true
	}
	return false
}

// onlyErrorReturns: every path from start ends in a return of a definitely non-nil error without entering a loop.
func onlyErrorReturns(start *ssa.BasicBlock, loops []*Loop) bool {
	seen := map[*ssa.BasicBlock]bool{}
	stack := []*ssa.BasicBlock{start}
	for len(stack) > 0 {
		b := stack[len(stack)-1]
		stack = stack[:len(stack)-1]
		if seen[b] {
			continue
		}
		seen[b] = true
		for _, l := range loops {
			if l.Blocks[b] {
				return false
			}
		}
		if ret, ok := b.Instrs[len(b.Instrs)-1].(*ssa.Return); ok {
			if !returnsNonNilError(ret) {
				return false
			}
			continue
		}
		if len(b.Succs) == 0 {
			continue // panic
		}
		stack = append(stack, b.Succs...)
	}
	return true
}

// dominatedByCancelledEdge: block b is dominated by the `cancelled` edge of a cancellation test of ctx.
func dominatedByCancelledEdge(b *ssa.BasicBlock, ctx ssa.Value) bool {
	for _, bb := range b.Parent().Blocks {
		if ok, sNot := ctxTest(bb, ctx); ok {
			cb := bb.Succs[1-sNot]
			if cb.Dominates(b) && len(cb.Preds) == 1 {
				return true
			}
		}
	}
	return false
}

// eng1NoRefusalByState: a fresh instance is never refused, so a reused one must not be either. Before the first
// evaluation an entry point may turn a call down only for its arguments (nil knowledge base or data context, a context
// that is over) or for a failure of the data context; a refusal whose condition reads the knowledge base (a claim flag
// that an earlier call failed to give back on one of its ways out, a `dirty` mark) makes the outcome of a call depend on
// the history of the instance (round-5 seed C08/b).
func eng1NoRefusalByState(c *Ctx, a *engAnchors) {
	p := c.P
	for _, e := range []struct {
		name string
		fn   *ssa.Function
	}{{"ExecuteWithContext", a.exec}, {"FetchMatchingRules", a.fetch}} {
		fn := e.fn
		var kb *ssa.Parameter
		for _, prm := range fn.Params {
			if isNamed(prm.Type(), fullPkg("ast"), "KnowledgeBase") {
				kb = prm
			}
		}
		var firstEval ssa.Instruction
		for _, ci := range findCalls(fn, matchStatic(a.reEval)) {
			firstEval = ci.(ssa.Instruction)
			break
		}
		if kb == nil || firstEval == nil {
			c.AnchorLost(e.name + " / knowledge base parameter, first evaluation")
			continue
		}
		loops := naturalLoops(fn)
		bad := ""
		nGuards := 0
		for _, b := range fn.Blocks {
			iff, ok := b.Instrs[len(b.Instrs)-1].(*ssa.If)
			if !ok || !b.Dominates(firstEval.Block()) || innermostLoopOf(loops, b) != nil {
				continue
			}
			refuses := false
			for si := range b.Succs {
				if onlyErrorReturns(b.Succs[si], loops) {
					refuses = true
				}
				// ... or ends the call without doing the work: the evaluation cannot be reached from that side
				if t, _ := reach(fn, b.Succs[si].Instrs[0], func(in ssa.Instruction) bool { return in == firstEval }, nil, nil); t == nil && b.Succs[si].Instrs[0] != firstEval {
					onlyReturns := true
					if t2, _ := reach(fn, b.Succs[si].Instrs[0], func(in ssa.Instruction) bool { _, isRet := in.(*ssa.Return); return isRet }, nil, nil); t2 == nil {
						if _, isRet := b.Succs[si].Instrs[0].(*ssa.Return); !isRet {
							onlyReturns = false
						}
					}
					if onlyReturns {
						refuses = true
					}
				}
			}
			if !refuses {
				continue
			}
			nGuards++
			readsKB := false
			seen := map[ssa.Value]bool{}
			var walk func(v ssa.Value, depth int)
			walk = func(v ssa.Value, depth int) {
				if v == nil || seen[v] || depth > 12 || readsKB {
					return
				}
				seen[v] = true
				switch x := v.(type) {
				case *ssa.BinOp:
					// the nil test of the parameter itself is an argument check
					if (isNilConst(x.X) && unspill(x.Y) == ssa.Value(kb)) || (isNilConst(x.Y) && unspill(x.X) == ssa.Value(kb)) {
						return
					}
					walk(x.X, depth+1)
					walk(x.Y, depth+1)
				case *ssa.UnOp:
					if f, base := fieldLoad(v); f != nil && derivesFromValue(base, kb) {
						readsKB = true
						return
					}
					walk(x.X, depth+1)
				case *ssa.Phi:
					for _, e := range x.Edges {
						walk(e, depth+1)
					}
				case *ssa.Extract:
					walk(x.Tuple, depth+1)
				case *ssa.Call:
					for _, arg := range x.Call.Args {
						if derivesFromValue(arg, kb) {
							readsKB = true
						}
					}
					if x.Call.IsInvoke() && derivesFromValue(x.Call.Value, kb) {
						readsKB = true
					}
				case *ssa.Field, *ssa.FieldAddr:
					if f, base := fieldLoad(v); f != nil && derivesFromValue(base, kb) {
						readsKB = true
					}
				case *ssa.ChangeType:
					walk(x.X, depth+1)
				case *ssa.Convert:
					walk(x.X, depth+1)
				case *ssa.MakeInterface:
					walk(x.X, depth+1)
				case *ssa.TypeAssert:
					walk(x.X, depth+1)
				}
			}
			walk(iff.Cond, 0)
			if readsKB {
				bad = "the refusal at " + p.InstrPos(iff) + " depends on something read from the knowledge base"
			}
		}
		c.Check(bad == "", e.name+" / a call is refused only for its arguments or a failing data context, never for the state of the instance", p.Pos(fn.Pos()), fmt.Sprintf("%d ways out before the first evaluation, none depends on something read from the knowledge base", nGuards), bad+": whether a call on a reused instance runs at all then depends on how an earlier call ended (a claim that one way out forgot to give back refuses every later call), which a fresh instance never shows")
	}
}
