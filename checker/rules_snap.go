package main

import (
	"fmt"
	"go/ast"
	"go/constant"
	"go/token"
	"go/types"
	"os"
	"path/filepath"
	"regexp"
	"sort"
	"strconv"
	"strings"

	"golang.org/x/tools/go/ssa"
)

func init() {
	register("SNAP-1", "snapshot field coverage: every semantic field of a node is rendered by its GetSnapshot", 13, ruleSNAP1)
	register("SNAP-2", "lossless scalars: floats round-trip, free strings are quoted, identifiers cannot contain snapshot delimiters", 6, ruleSNAP2)
	register("SNAP-3", "operator, assignment-form and negation rendering is injective", 4, ruleSNAP3)
	register("SNAP-4", "each child's snapshot is rendered in its own fixed slot (no order normalisation)", 13, ruleSNAP4)
	register("INV-12", "no write to a node after it was canonicalised by WorkingMemory.Add*", 3, ruleINV12)
}

var snapExempt = map[string]string{
	"Constant.IsNil": "implied by Value.Kind()==Invalid (rendered as kind `invalid`): the listener never sets Value for the nil literal",
}

// diagnostic/identity fields every node exposes through GetAstID/GetGrlText; read by evaluation only to label messages.
var snapIgnore = map[string]bool{"AstID": true, "GrlText": true}

func snapshotCallsOn(fn *ssa.Function) []ssa.CallInstruction {
	return findCalls(fn, func(ci ssa.CallInstruction) bool { return calleeNameIs(ci, "GetSnapshot") })
}

func ruleSNAP1(c *Ctx) {
	p := c.P
	infos := c.nodeInfos()
	for _, n := range nodeTypeNames {
		ni := infos[n]
		fn := p.Method("ast", n, "GetSnapshot")
		if ni == nil || fn == nil {
			c.AnchorLost("(*ast." + n + ").GetSnapshot")
			continue
		}
		got := recvFieldReads(fn, 2)
		var missing, noChildSnap []string
		var need []string
		for f := range ni.Eval {
			if snapIgnore[f.Name()] {
				continue
			}
			if _, ex := snapExempt[n+"."+f.Name()]; ex {
				continue
			}
			need = append(need, f.Name())
			if !got[f] || (!isNodeTyped(f.Type()) && !fieldRendered(fn, f)) {
				missing = append(missing, f.Name())
				continue
			}
			if isNodeTyped(f.Type()) {
				ok := false
				for _, ci := range snapshotCallsOn(fn) {
					recvV := ci.Common().Args
					var rv ssa.Value
					if ci.Common().IsInvoke() {
						rv = ci.Common().Value
					} else if len(recvV) > 0 {
						rv = recvV[0]
					}
					if rv == nil {
						continue
					}
					if derivesFrom(rv, func(v ssa.Value) bool {
						lf, base := fieldLoad(v)
						return lf == f && base == ssa.Value(receiver(fn))
					}) {
						ok = true
					}
				}
				if !ok {
					noChildSnap = append(noChildSnap, f.Name())
				}
			}
		}
		// A child takes part in the key through its own key only (seed C07/m): the child is tested for nil, asked for its
		// GetSnapshot(), ranged over or measured when it is a slice - nothing else. A GetSnapshot that hands a child to
		// another function or reads the child's fields renders it by a second, private rule, and two children with
		// different keys can give the parent one key (D["Name"] rendered as the member D.Name: the struct member and the
		// map element become one node).
		if bad := snapChildUsedOtherwise(p, fn); bad != "" {
			c.Fail(n+".GetSnapshot / a child takes part through its own snapshot only", bad, "a child node is used by the parent's GetSnapshot in another way than a nil test or its own GetSnapshot(): the parent's key is then not a function of the child's key, and children that differ can be rendered alike (a selector with the literal \"Name\" rendered as the member Name merges D[\"Name\"] with D.Name)")
		} else {
			c.OK(n+".GetSnapshot / a child takes part through its own snapshot only", p.Pos(fn.Pos()), "children are nil-tested, ranged over, or asked for GetSnapshot()")
		}
		sort.Strings(need)
		sort.Strings(missing)
		sort.Strings(noChildSnap)
		c.Check(len(missing) == 0 && len(noChildSnap) == 0, n+".GetSnapshot / renders every semantic field", p.Pos(fn.Pos()), "semantic fields "+strings.Join(need, ",")+" all read; children through their own GetSnapshot",
			fmt.Sprintf("the sharing key omits fields that evaluation depends on: notRead=%v childSnapshotNotIncluded=%v (two nodes differing only there would be merged)", missing, noChildSnap))
	}
}

// fmtSpecs lists the verb specs ("%.3f" -> ".3f") of a format string in order, skipping %%.
func fmtSpecs(format string) []string {
	var out []string
	for i := 0; i < len(format); i++ {
		if format[i] != '%' {
			continue
		}
		j := i + 1
		for j < len(format) && strings.IndexByte("+-# 0123456789.*[]", format[j]) >= 0 {
			j++
		}
		if j < len(format) {
			if format[j] != '%' {
				out = append(out, format[i+1:j+1])
			}
		}
		i = j
	}
	return out
}

func floatSpecOK(spec string) bool {
	verb := spec[len(spec)-1]
	flags := spec[:len(spec)-1]
	prec := -1
	if k := strings.IndexByte(flags, '.'); k >= 0 {
		n, err := strconv.Atoi(flags[k+1:])
		if err != nil {
			return false
		}
		prec = n
	}
	switch verb {
	case 'v', 'g', 'G':
		return prec < 0 || prec >= 17
	case 'b', 'x', 'X':
		return prec < 0
	case 'e', 'E':
		return prec >= 16
	}
	return false
}

func isFloat(t types.Type) bool {
	b, ok := t.Underlying().(*types.Basic)
	return ok && b.Info()&types.IsFloat != 0
}

// freeString: the string value is user literal text (reflect.Value.String() of a constant's value) rather than an
// identifier field, a child's snapshot or a constant.
func freeString(v ssa.Value) bool {
	return derivesFrom(v, func(x ssa.Value) bool {
		call, ok := x.(*ssa.Call)
		if !ok {
			return false
		}
		f := call.Call.StaticCallee()
		return f != nil && f.String() == "(reflect.Value).String"
	})
}

// simpleNameAlphabet parses the SIMPLENAME rule (ISC IC*) of grulev3.g4 and reports whether rune r can occur in it.
func simpleNameAlphabet(repo string) (func(r rune) bool, error) {
	b, err := os.ReadFile(filepath.Join(repo, "antlr", "grulev3.g4"))
	if err != nil {
		return nil, err
	}
	src := string(b)
	if !regexp.MustCompile(`SIMPLENAME\s*:\s*ISC\s+IC\*\s*;`).MatchString(src) {
		return nil, fmt.Errorf("SIMPLENAME is no longer `ISC IC*`")
	}
	type rng struct{ lo, hi rune }
	var ranges []rng
	frag := regexp.MustCompile(`(?s)fragment\s+(ISC|IC)\s*:(.*?);`)
	unq := func(s string) (rune, error) {
		s = strings.Trim(s, "'")
		if strings.HasPrefix(s, `\u`) {
			n, err := strconv.ParseUint(s[2:], 16, 32)
			return rune(n), err
		}
		rs := []rune(s)
		if len(rs) != 1 {
			return 0, fmt.Errorf("bad char %q", s)
		}
		return rs[0], nil
	}
	found := 0
	for _, m := range frag.FindAllStringSubmatch(src, -1) {
		found++
		for _, alt := range strings.Split(m[2], "|") {
			alt = strings.TrimSpace(alt)
			if alt == "" || alt == "ISC" {
				continue
			}
			parts := strings.Split(alt, "..")
			lo, err := unq(strings.TrimSpace(parts[0]))
			if err != nil {
				return nil, err
			}
			hi := lo
			if len(parts) == 2 {
				hi, err = unq(strings.TrimSpace(parts[1]))
				if err != nil {
					return nil, err
				}
			}
			ranges = append(ranges, rng{lo, hi})
		}
	}
	if found != 2 || len(ranges) < 10 {
		return nil, fmt.Errorf("cannot read the ISC/IC fragments")
	}
	return func(r rune) bool {
		for _, x := range ranges {
			if r >= x.lo && r <= x.hi {
				return true
			}
		}
		return false
	}, nil
}

func ruleSNAP2(c *Ctx) {
	p := c.P
	inAlphabet, err := simpleNameAlphabet(p.RepoDir)
	if err != nil {
		c.Fail("grammar / SIMPLENAME alphabet readable", "antlr/grulev3.g4", "cannot read the identifier alphabet: "+err.Error())
		return
	}
	delims := map[rune]bool{}
	rawIdent := 0
	for _, n := range nodeTypeNames {
		fn := p.Method("ast", n, "GetSnapshot")
		if fn == nil {
			c.AnchorLost("(*ast." + n + ").GetSnapshot")
			continue
		}
		stringClause := n != "RuleEntry" // not a sharing key; only compared between a clone and its origin
		for _, ci := range callsIn(fn) {
			call, ok := ci.(*ssa.Call)
			if !ok {
				continue
			}
			callee := call.Call.StaticCallee()
			if callee == nil {
				continue
			}
			name := callee.String()
			switch {
			case name == "fmt.Sprintf":
				format, isConst := constString(call.Call.Args[0])
				ops := varargElems(call.Call.Args[1])
				if !isConst || ops == nil {
					c.Undecided(n+".GetSnapshot / Sprintf with non-constant format", p.InstrPos(call), "cannot decode the format")
					continue
				}
				for _, r := range stripVerbs(format) {
					if !isAlnum(r) && r != ' ' {
						delims[r] = true
					}
				}
				specs := fmtSpecs(format)
				for i, sp := range specs {
					if i >= len(ops) {
						break
					}
					op := stripConv(ops[i])
					construct := fmt.Sprintf("%s.GetSnapshot / operand %d of %q", n, i+1, format)
					switch {
					case isFloat(op.Type()):
						c.Check(floatSpecOK(sp), construct+" [float]", p.InstrPos(call), "round-trip safe verb %"+sp, "a float is rendered with %"+sp+", which loses digits: constants differing beyond the printed precision get the same snapshot and are merged")
					case isString(op.Type()) && stringClause && freeString(op):
						c.Check(sp == "q", construct+" [literal text]", p.InstrPos(call), "quoted with %q", "user literal text is rendered with %"+sp+" (unescaped): a literal containing snapshot syntax can collide with a different tree")
					case isString(op.Type()) && stringClause && isIdentifierField(op):
						rawIdent++
					case isIntegerT(op.Type()):
						v := sp[len(sp)-1]
						c.Check((v == 'd' || v == 'v' || v == 'x' || v == 'X' || v == 'o' || v == 'b') && !strings.Contains(sp, "."), construct+" [integer]", p.InstrPos(call), "injective integer verb %"+sp, "an integer is rendered with %"+sp+", which is not injective")
					case isBoolT(op.Type()):
						v := sp[len(sp)-1]
						c.Check(v == 'v' || v == 't', construct+" [bool]", p.InstrPos(call), "%"+sp, "a bool is rendered with %"+sp)
					}
				}
			case name == "strconv.Quote" || name == "strconv.QuoteToASCII":
				if freeString(call.Call.Args[0]) {
					c.OK(n+".GetSnapshot / literal text quoted", p.InstrPos(call), name)
				}
			case name == "strconv.FormatFloat":
				prec, okp := constInt(call.Call.Args[2])
				bits, okb := constInt(call.Call.Args[3])
				fb, okf := constInt(call.Call.Args[1])
				good := okp && okb && okf && bits == 64 && (prec == -1 || (prec >= 16 && (fb == 'e' || fb == 'g')))
				c.Check(good, n+".GetSnapshot / strconv.FormatFloat [float]", p.InstrPos(call), "shortest round-trip representation (prec -1, 64 bit)", "FormatFloat with a fixed precision / 32 bit loses digits: different constants get the same snapshot")
			case strings.HasSuffix(name, ".WriteString") || strings.HasSuffix(name, ".WriteRune") || strings.HasSuffix(name, ".WriteByte"):
				arg := call.Call.Args[len(call.Call.Args)-1]
				if s, ok := constString(arg); ok {
					for _, r := range s {
						if !isAlnum(r) && r != ' ' {
							delims[r] = true
						}
					}
					continue
				}
				if !isString(arg.Type()) {
					continue
				}
				if stringClause && isDirectFreeString(arg) {
					c.Fail(n+".GetSnapshot / raw literal text", p.InstrPos(call), "user literal text is written unescaped into the snapshot")
				} else if stringClause && isIdentifierField(arg) {
					rawIdent++
				}
			}
		}
	}
	// identifiers are rendered raw: the delimiter set must be disjoint from the SIMPLENAME alphabet
	var clash []string
	var ds []string
	for r := range delims {
		ds = append(ds, string(r))
		if inAlphabet(r) {
			clash = append(clash, string(r))
		}
	}
	sort.Strings(ds)
	sort.Strings(clash)
	c.Check(len(clash) == 0 && len(ds) >= 5, "snapshot delimiters are not identifier characters", "antlr/grulev3.g4", fmt.Sprintf("delimiters %q disjoint from SIMPLENAME (ISC IC*); %d raw identifier renderings rely on it", strings.Join(ds, ""), rawIdent), fmt.Sprintf("identifiers are rendered raw but delimiter(s) %v can occur inside a SIMPLENAME (or the delimiter set could not be derived: %v)", clash, ds))
}

func stripVerbs(format string) string {
	var sb strings.Builder
	for i := 0; i < len(format); i++ {
		if format[i] == '%' {
			j := i + 1
			for j < len(format) && strings.IndexByte("+-# 0123456789.*[]", format[j]) >= 0 {
				j++
			}
			i = j
			continue
		}
		sb.WriteByte(format[i])
	}
	return sb.String()
}

func isAlnum(r rune) bool {
	return (r >= '0' && r <= '9') || (r >= 'a' && r <= 'z') || (r >= 'A' && r <= 'Z')
}

func isIdentifierField(v ssa.Value) bool {
	f, _ := fieldLoad(v)
	if f == nil {
		return false
	}
	switch f.Name() {
	case "Name", "FunctionName", "VariableName", "RuleName":
		return true
	}
	return false
}

func isDirectFreeString(v ssa.Value) bool {
	call, ok := v.(*ssa.Call)
	if !ok {
		return false
	}
	f := call.Call.StaticCallee()
	return f != nil && f.String() == "(reflect.Value).String"
}

// ---------- SNAP-3 ----------

// switchTable extracts `switch <tag> { case C1: ... f("lit") ... }` from a function body: constant value -> first
// string literal argument found in the clause body.
func switchTable(info *types.Info, body *ast.BlockStmt, tagMatches func(ast.Expr) bool) (map[string]string, []string) {
	best := map[string]string{}
	var bestDups []string
	ast.Inspect(body, func(n ast.Node) bool {
		sw, ok := n.(*ast.SwitchStmt)
		if !ok || sw.Tag == nil || !tagMatches(sw.Tag) {
			return true
		}
		table := map[string]string{}
		var dups []string
		defer func() {
			// several switches on the same tag may exist: the table is the one with the most entries
			if len(table) > len(best) {
				best, bestDups = table, dups
			}
		}()
		for _, st := range sw.Body.List {
			cc := st.(*ast.CaseClause)
			lit := firstStringLit(cc)
			for _, e := range cc.List {
				key := types.ExprString(e)
				if tv, ok := info.Types[e]; ok && tv.Value != nil {
					if id, ok := e.(*ast.Ident); ok {
						key = id.Name
					} else if se, ok := e.(*ast.SelectorExpr); ok {
						key = se.Sel.Name
					} else {
						key = tv.Value.ExactString()
					}
				}
				if _, dup := table[key]; dup {
					dups = append(dups, key)
				}
				table[key] = lit
			}
		}
		return true
	})
	return best, bestDups
}

func firstStringLit(n ast.Node) string {
	res := "\x00none"
	ast.Inspect(n, func(x ast.Node) bool {
		if res != "\x00none" {
			return false
		}
		if bl, ok := x.(*ast.BasicLit); ok && bl.Kind == token.STRING {
			if s, err := strconv.Unquote(bl.Value); err == nil {
				res = s
			}
		}
		return true
	})
	return res
}

func isSelectorNamed(e ast.Expr, name string) bool {
	se, ok := e.(*ast.SelectorExpr)
	return ok && se.Sel.Name == name
}

// opConstants lists the Op* operator constants of package ast (name -> value).
func (c *Ctx) opConstants() map[string]int64 {
	out := map[string]int64{}
	pk := c.P.Pkg("ast")
	if pk == nil {
		return out
	}
	sc := pk.Types.Scope()
	for _, n := range sc.Names() {
		k, ok := sc.Lookup(n).(*types.Const)
		if !ok || !strings.HasPrefix(n, "Op") || len(n) < 4 {
			continue
		}
		if b, ok := k.Type().Underlying().(*types.Basic); !ok || b.Kind() != types.Int {
			continue
		}
		if v, ok := constant.Int64Val(k.Val()); ok {
			out[n] = v
		}
	}
	return out
}

func ruleSNAP3(c *Ctx) {
	p := c.P
	ops := c.opConstants()
	fn := p.Method("ast", "Expression", "GetSnapshot")
	fd := p.FuncDecl(fn)
	if fn == nil || fd == nil || len(ops) < 15 {
		c.AnchorLost("(*ast.Expression).GetSnapshot / Op* constants")
		return
	}
	table, dups := switchTable(p.TypesInfo(fn), fd.Body, func(e ast.Expr) bool { return isSelectorNamed(e, "Operator") })
	var missing []string
	seen := map[string][]string{}
	for name := range ops {
		s, ok := table[name]
		if !ok || s == "\x00none" {
			missing = append(missing, name)
			continue
		}
		seen[s] = append(seen[s], name)
	}
	var clash []string
	for s, ns := range seen {
		if len(ns) > 1 {
			sort.Strings(ns)
			clash = append(clash, fmt.Sprintf("%q<-%v", s, ns))
		}
	}
	sort.Strings(missing)
	sort.Strings(clash)
	c.Check(len(missing) == 0 && len(clash) == 0 && len(dups) == 0, "Expression.GetSnapshot / 15 operators rendered pairwise distinct", p.Pos(fn.Pos()), fmt.Sprintf("%d operators -> %d distinct strings", len(ops), len(seen)), fmt.Sprintf("operator rendering is not injective: missing=%v sameText=%v duplicateCases=%v (expressions differing only in the operator would be merged)", missing, clash, dups))
	// assignment forms
	afn := p.Method("ast", "Assignment", "GetSnapshot")
	afd := p.FuncDecl(afn)
	if afn == nil || afd == nil {
		c.AnchorLost("(*ast.Assignment).GetSnapshot")
	} else {
		forms := map[string]string{}
		ast.Inspect(afd.Body, func(n ast.Node) bool {
			is, ok := n.(*ast.IfStmt)
			if !ok {
				return true
			}
			if se, ok := is.Cond.(*ast.SelectorExpr); ok && strings.HasPrefix(se.Sel.Name, "Is") {
				forms[se.Sel.Name] = firstStringLit(is.Body)
			}
			return true
		})
		var flags []string
		if st, ok := p.Named("ast", "Assignment").Underlying().(*types.Struct); ok {
			for i := 0; i < st.NumFields(); i++ {
				if strings.HasPrefix(st.Field(i).Name(), "Is") && strings.HasSuffix(st.Field(i).Name(), "Assign") {
					flags = append(flags, st.Field(i).Name())
				}
			}
		}
		distinct := map[string]bool{}
		var miss []string
		for _, f := range flags {
			s, ok := forms[f]
			if !ok || s == "\x00none" {
				miss = append(miss, f)
			}
			distinct[s] = true
		}
		c.Check(len(flags) == 5 && len(miss) == 0 && len(distinct) == len(flags), "Assignment.GetSnapshot / 5 assignment forms rendered pairwise distinct", p.Pos(afn.Pos()), fmt.Sprintf("%d flags -> %d distinct strings", len(flags), len(distinct)), fmt.Sprintf("assignment-form rendering is not injective (flags=%v missing=%v distinct=%d)", flags, miss, len(distinct)))
	}
	// negation rendered where it is evaluated
	for _, n := range []string{"Expression", "ExpressionAtom"} {
		gfn := p.Method("ast", n, "GetSnapshot")
		neg := p.Field("ast", n, "Negated")
		if gfn == nil || neg == nil {
			c.AnchorLost("(*ast." + n + ").GetSnapshot / Negated")
			continue
		}
		ok := false
		for _, ci := range callsIn(gfn) {
			call, isCall := ci.(*ssa.Call)
			if !isCall || len(call.Call.Args) == 0 {
				continue
			}
			s, isStr := constString(call.Call.Args[len(call.Call.Args)-1])
			if !isStr || !strings.Contains(s, "!") {
				continue
			}
			if edgesDominate(gfn, call, func(b *ssa.BasicBlock, si int) bool {
				iff, isIf := b.Instrs[len(b.Instrs)-1].(*ssa.If)
				if !isIf {
					return false
				}
				kind, sTrue, okc := condOn(iff.Cond, func(v ssa.Value) bool {
					f, base := fieldLoad(v)
					return f == neg && base == ssa.Value(receiver(gfn))
				})
				return okc && kind == "bool" && si == sTrue
			}) {
				ok = true
			}
		}
		c.Check(ok, n+".GetSnapshot / negation rendered", p.Pos(gfn.Pos()), "`!` written under the Negated flag", "a negated and a plain "+n+" get the same snapshot and are merged")
	}
}

// ---------- SNAP-4 ----------

func ruleSNAP4(c *Ctx) {
	p := c.P
	for _, n := range nodeTypeNames {
		fn := p.Method("ast", n, "GetSnapshot")
		if fn == nil {
			c.AnchorLost("(*ast." + n + ").GetSnapshot")
			continue
		}
		isSnap := func(v ssa.Value) bool {
			call, ok := v.(*ssa.Call)
			return ok && calleeNameIs(call, "GetSnapshot")
		}
		bad := ""
		for _, b := range fn.Blocks {
			for _, in := range b.Instrs {
				switch x := in.(type) {
				case *ssa.Phi:
					if !isString(x.Type()) {
						continue
					}
					labels := map[string]bool{}
					for _, e := range x.Edges {
						if isSnap(e) {
							call := e.(*ssa.Call)
							var rv ssa.Value
							if call.Call.IsInvoke() {
								rv = call.Call.Value
							} else {
								rv = call.Call.Args[0]
							}
							labels[childLabel(rv)] = true
						}
					}
					if len(labels) > 1 {
						bad = "a rendered slot is chosen at run time among the snapshots of different children (" + strings.Join(keysOf(labels), ", ") + ") at " + p.InstrPos(in)
					}
				case *ssa.BinOp:
					if derivesFrom(x.X, isSnap) && derivesFrom(x.Y, isSnap) && isString(x.X.Type()) && x.Op != token.ADD {
						bad = "the rendering compares the snapshots of two children (" + x.Op.String() + ") at " + p.InstrPos(in)
					}
				case ssa.CallInstruction:
					f := x.Common().StaticCallee()
					if f != nil && (f.String() == "sort.Strings" || f.String() == "sort.Slice" || f.String() == "sort.SliceStable" || strings.HasPrefix(f.String(), "slices.Sort")) && n != "KnowledgeBase" {
						bad = "the rendering sorts child snapshots at " + p.InstrPos(in)
					}
				}
			}
		}
		c.Check(bad == "", n+".GetSnapshot / children rendered in fixed slots", p.Pos(fn.Pos()), "no run-time reordering of child snapshots", bad+": operand/argument order is lost, so `a op b` and `b op a` (or f(x,y) and f(y,x)) are merged")
		// each child snapshot is taken from one fixed field of the receiver (or the elements of one field slice), once
		recv := ssa.Value(receiver(fn))
		perField := map[string]int{}
		badRecv := ""
		for _, ci := range callsIn(fn) {
			call, ok := ci.(*ssa.Call)
			if !ok || !calleeNameIs(call, "GetSnapshot") {
				continue
			}
			var rv ssa.Value
			if call.Call.IsInvoke() {
				rv = call.Call.Value
			} else if len(call.Call.Args) > 0 {
				rv = call.Call.Args[0]
			}
			rv = unspill(rv)
			f, base := fieldLoad(rv)
			if f == nil {
				// element of a field slice / value of a field map inside a range loop
				var hit *types.Var
				mixed := false
				backSlice(rv, func(w ssa.Value) bool {
					if _, isPhi := w.(*ssa.Phi); isPhi && !isRangeIter(w) {
						mixed = true
					}
					if ff, bb := fieldLoad(w); ff != nil && bb == recv {
						if hit != nil && hit != ff {
							mixed = true
						}
						hit = ff
						return false
					}
					return true
				})
				if hit == nil || mixed {
					badRecv = "the child whose snapshot is rendered at " + p.InstrPos(call) + " is chosen at run time (not one fixed field of the node)"
				}
				continue
			}
			if base != recv {
				badRecv = "snapshot of something that is not a child of the receiver at " + p.InstrPos(call)
				continue
			}
			perField[f.Name()]++
		}
		for fname, k := range perField {
			if k > 1 && (fname == "LeftExpression" || fname == "RightExpression") {
				badRecv = fmt.Sprintf("child %s is rendered at %d places: its slot depends on the path taken", fname, k)
			}
		}
		c.Check(badRecv == "", n+".GetSnapshot / every slot renders one fixed child", p.Pos(fn.Pos()), fmt.Sprintf("%d child fields rendered from the receiver itself; binary operands once each", len(perField)), badRecv+": two nodes that differ in which operand stands where (or under which operator) get the same key")
	}
	// the operator slot is rendered from the node's own Operator field
	if fn := p.Method("ast", "Expression", "GetSnapshot"); fn != nil {
		recv := ssa.Value(receiver(fn))
		opF := p.Field("ast", "Expression", "Operator")
		nCmp, bad := 0, ""
		for _, b := range fn.Blocks {
			for _, in := range b.Instrs {
				bo, ok := in.(*ssa.BinOp)
				if !ok || bo.Op != token.EQL {
					continue
				}
				var other ssa.Value
				if _, isC := bo.Y.(*ssa.Const); isC && isBasicInt(bo.Y.Type()) {
					other = bo.X
				} else if _, isC := bo.X.(*ssa.Const); isC && isBasicInt(bo.X.Type()) {
					other = bo.Y
				} else {
					continue
				}
				nCmp++
				if f, base := fieldLoad(unspill(other)); f != opF || base != recv {
					bad = "the operator rendered is selected by something other than the node's own Operator field at " + p.InstrPos(in)
				}
			}
		}
		c.Check(bad == "" && nCmp >= 15, "Expression.GetSnapshot / operator slot renders the node's own operator", p.Pos(fn.Pos()), fmt.Sprintf("%d operator tests, all on e.Operator", nCmp), bad+fmt.Sprintf(" (%d operator tests found): expressions with different operators can get the same key and share one node", nCmp))
	}
}

func isBasicInt(t types.Type) bool {
	b, ok := t.Underlying().(*types.Basic)
	return ok && b.Info()&types.IsInteger != 0
}

// isRangeIter: a Phi that only carries a loop's iteration state (index / iterator), not a choice between children.
func isRangeIter(v ssa.Value) bool {
	phi, ok := v.(*ssa.Phi)
	if !ok {
		return false
	}
	return isBasicInt(phi.Type())
}

// ---------- INV-12 ----------

func ruleINV12(c *Ctx) {
	p := c.P
	adds := []*ssa.Function{p.Method("ast", "WorkingMemory", "AddExpression"), p.Method("ast", "WorkingMemory", "AddExpressionAtom"), p.Method("ast", "WorkingMemory", "AddVariable")}
	isAdd := matchStatic(adds...)
	n := 0
	for _, fn := range p.ModuleFuncs() {
		if fnPkgShort(fn) != "antlr" && fnPkgShort(fn) != "builder" {
			continue
		}
		for _, ci := range findCalls(fn, isAdd) {
			n++
			arg := unspill(ci.Common().Args[1])
			res := ci.Value()
			var badStore ssa.Instruction
			t, _ := reach(fn, ci.(ssa.Instruction), func(in ssa.Instruction) bool {
				f, base, _ := fieldStore(in)
				if f == nil {
					return false
				}
				if base == arg || (res != nil && (base == res || derivesFromValue(base, res))) {
					badStore = in
					return true
				}
				return false
			}, nil, nil)
			if t != nil {
				f, _, _ := fieldStore(badStore)
				c.Fail(fmt.Sprintf("%s / node is final when handed to %s", fnName(fn), calleeName(ci)), p.InstrPos(badStore), "field "+f.Name()+" is written after the node was canonicalised: the snapshot key was taken before the write, and the write lands on a node that other rules may share")
			} else {
				c.OK(fmt.Sprintf("%s / node is final when handed to %s", fnName(fn), calleeName(ci)), p.InstrPos(ci), "no field store on the node after canonicalisation")
			}
		}
	}
	if n == 0 {
		c.Fail("listener / Add* call sites", "-", "none found (anchor lost)")
	}
}

func isIntegerT(t types.Type) bool {
	b, ok := t.Underlying().(*types.Basic)
	return ok && b.Info()&types.IsInteger != 0
}

func isBoolT(t types.Type) bool {
	b, ok := t.Underlying().(*types.Basic)
	return ok && b.Info()&types.IsBoolean != 0
}

// fieldRendered: the receiver's scalar field f reaches the output: a string/number value flows into an argument of a
// write/format call; a bool or int flag may instead steer which constant is written (if/switch on it).
func fieldRendered(fn *ssa.Function, f *types.Var) bool {
	recv := receiver(fn)
	var loads []ssa.Value
	for _, b := range fn.Blocks {
		for _, in := range b.Instrs {
			if u, ok := in.(*ssa.UnOp); ok {
				if lf, base := fieldLoad(u); lf == f && base == ssa.Value(recv) {
					loads = append(loads, u)
				}
			}
		}
	}
	isLoad := func(v ssa.Value) bool {
		for _, l := range loads {
			if v == l {
				return true
			}
		}
		return false
	}
	for _, ci := range callsIn(fn) {
		if _, isB := ci.Common().Value.(*ssa.Builtin); isB {
			continue
		}
		name := calleeName(ci)
		if !(strings.Contains(name, "Write") || strings.Contains(name, "Sprint") || strings.HasPrefix(name, "strconv.") || strings.Contains(name, "Kind") || strings.Contains(name, ".String")) {
			continue
		}
		for _, arg := range ci.Common().Args {
			if derivesFrom(arg, isLoad) || varargDerives(arg, isLoad) {
				return true
			}
		}
	}
	if isBoolT(f.Type()) || isIntegerT(f.Type()) {
		for _, l := range loads {
			for _, r := range *l.Referrers() {
				switch x := r.(type) {
				case *ssa.If:
					return true
				case *ssa.BinOp:
					for _, rr := range *x.Referrers() {
						if _, ok := rr.(*ssa.If); ok {
							return true
						}
					}
				}
			}
		}
	}
	return false
}

func varargDerives(v ssa.Value, pred func(ssa.Value) bool) bool {
	for _, e := range varargElems(v) {
		if derivesFrom(e, pred) {
			return true
		}
	}
	return false
}

func init() {
	register("SNAP-5", "a constant's snapshot distinguishes the kind of its value (int vs uint vs float vs string vs bool)", 1, ruleSNAP5)
}

// SNAP-5: `2` and `2.0` (or "true" and true) must not share a snapshot: the kind of the value is part of the key.
// Accepted: an operand rendered from reflect.Kind.String() of the value's own Kind(); or a module helper mapping the
// kind through a switch whose integer, unsigned, float, string and bool classes get pairwise distinct texts.
func ruleSNAP5(c *Ctx) {
	p := c.P
	fn := p.Method("ast", "Constant", "GetSnapshot")
	if fn == nil {
		c.AnchorLost("(*ast.Constant).GetSnapshot")
		return
	}
	valF := p.Field("ast", "Constant", "Value")
	isKindOfValue := func(v ssa.Value) bool {
		call, ok := v.(*ssa.Call)
		if !ok || !calleeNameIs(call, "Kind") || len(call.Call.Args) != 1 {
			return false
		}
		f, base := fieldLoad(call.Call.Args[0])
		return f == valF && base == ssa.Value(receiver(fn))
	}
	construct := "Constant.GetSnapshot / kind of the value is part of the snapshot"
	ok, why := false, "no rendering of the value's kind found"
	for _, ci := range callsIn(fn) {
		call, isCall := ci.(*ssa.Call)
		if !isCall {
			continue
		}
		callee := call.Call.StaticCallee()
		if callee == nil {
			continue
		}
		// direct: Value.Kind().String() written out
		if callee.String() == "(reflect.Kind).String" && len(call.Call.Args) == 1 && isKindOfValue(call.Call.Args[0]) {
			if valueWritten(fn, call) {
				ok = true
			}
			continue
		}
		// helper(kind) string
		if fnInModule(callee) && len(call.Call.Args) >= 1 {
			usesKind := false
			for _, a := range call.Call.Args {
				if isKindOfValue(a) {
					usesKind = true
				}
			}
			if !usesKind || !isString(call.Type()) || !valueWritten(fn, call) {
				continue
			}
			fd := p.FuncDecl(callee)
			if fd == nil {
				continue
			}
			classText := map[string]string{}
			ast.Inspect(fd.Body, func(n ast.Node) bool {
				sw, isSw := n.(*ast.SwitchStmt)
				if !isSw {
					return true
				}
				for _, st := range sw.Body.List {
					cc := st.(*ast.CaseClause)
					if cc.List == nil {
						continue
					}
					lit := firstStringLit(cc)
					for _, e := range cc.List {
						name := types.ExprString(e)
						name = strings.TrimPrefix(name, "reflect.")
						classText[name] = lit
					}
				}
				return true
			})
			rep := func(names ...string) string {
				for _, n := range names {
					if t, ok := classText[n]; ok {
						return t
					}
				}
				return "\x00missing"
			}
			texts := map[string]string{"int": rep("Int64", "Int"), "uint": rep("Uint64", "Uint"), "float": rep("Float64", "Float32"), "string": rep("String"), "bool": rep("Bool")}
			seen := map[string]string{}
			good := true
			for cls, t := range texts {
				if t == "\x00missing" {
					continue // falls to a default: judged by the distinctness of the others
				}
				if other, dup := seen[t]; dup {
					good = false
					why = fmt.Sprintf("the kind is rendered through %s, which gives %s and %s the same text %q: constants that differ only in kind (2 vs 2.0) get one snapshot and are merged", fnName(callee), other, cls, t)
				}
				seen[t] = cls
			}
			if good && len(seen) >= 3 {
				ok = true
			}
		}
	}
	c.Check(ok, construct, p.Pos(fn.Pos()), "Value.Kind().String() (or a kind tag distinct per class) is written", why)
}

// valueWritten: string value v flows into an argument of a write/format call of fn.
func valueWritten(fn *ssa.Function, v ssa.Value) bool {
	for _, ci := range callsIn(fn) {
		if ci.Value() == v {
			continue
		}
		name := calleeName(ci)
		if !(strings.Contains(name, "Write") || strings.Contains(name, "Sprint")) {
			continue
		}
		for _, arg := range ci.Common().Args {
			if arg == v || derivesFromValue(arg, v) || varargDerives(arg, func(x ssa.Value) bool { return x == v }) {
				return true
			}
		}
	}
	return false
}

func init() {
	register("SNAP-6", "a child's snapshot is embedded verbatim in its parent's (containment is the dependency relation of the index)", 13, ruleSNAP6)
}

// SNAP-6: IndexVariables (INV-5) links an expression to a variable when the expression's snapshot *contains* the
// variable's snapshot. That is a dependency relation only if every node writes its children's snapshots unmodified
// into its own: a child snapshot that is transformed (case-folded, quoted, hashed, truncated) is no longer found by
// the substring test, and assignments to the variable stop invalidating the expressions above it.
func ruleSNAP6(c *Ctx) {
	p := c.P
	for _, n := range nodeTypeNames {
		fn := p.Method("ast", n, "GetSnapshot")
		if fn == nil {
			c.AnchorLost("(*ast." + n + ").GetSnapshot")
			continue
		}
		bad := ""
		nChild := 0
		var follow func(v ssa.Value, depth int)
		follow = func(v ssa.Value, depth int) {
			refs := v.Referrers()
			if refs == nil || depth > 6 {
				return
			}
			for _, r := range *refs {
				switch x := r.(type) {
				case *ssa.BinOp:
					if x.Op == token.ADD {
						follow(x, depth+1)
						continue
					}
					bad = "a child's snapshot is an operand of " + x.Op.String() + " at " + p.InstrPos(x)
				case *ssa.Phi:
					follow(x, depth+1)
				case *ssa.Store:
					// spilled into a local or stored into a slice element (then joined/sorted: KnowledgeBase only)
					if _, isAlloc := x.Addr.(*ssa.Alloc); isAlloc {
						for _, rr := range *x.Addr.(*ssa.Alloc).Referrers() {
							if ld, ok := rr.(*ssa.UnOp); ok && ld.Op == token.MUL {
								follow(ld, depth+1)
							}
						}
						continue
					}
					bad = "a child's snapshot is stored away at " + p.InstrPos(x) + " instead of being written"
				case *ssa.MakeInterface:
					// fmt verb arguments: accept %s / %v only
					okFmt := true
					for _, rr := range *x.Referrers() {
						if _, isStore := rr.(*ssa.Store); !isStore {
							okFmt = false
						}
					}
					if !okFmt {
						bad = "a child's snapshot is boxed for something other than a format argument at " + p.InstrPos(x)
					}
				case ssa.CallInstruction:
					name := calleeName(x)
					switch name {
					case "(*strings.Builder).WriteString", "(*bytes.Buffer).WriteString":
						continue
					}
					bad = "a child's snapshot is passed through " + name + " at " + p.InstrPos(x.(ssa.Instruction)) + " before it is written"
				case *ssa.Return:
					continue
				default:
					bad = fmt.Sprintf("a child's snapshot is used by %T at %s", r, p.InstrPos(r))
				}
			}
		}
		for _, ci := range callsIn(fn) {
			call, ok := ci.(*ssa.Call)
			if !ok || !calleeNameIs(call, "GetSnapshot") {
				continue
			}
			nChild++
			follow(call, 0)
		}
		c.Check(bad == "", n+".GetSnapshot / children embedded verbatim", p.Pos(fn.Pos()), fmt.Sprintf("%d child snapshots, each written as it is", nChild), bad+": the substring test of IndexVariables no longer finds the variables below this node, so assignments to them stop invalidating it")
	}
}

// snapChildUsedOtherwise returns the position of a use of a child node (a field of the receiver whose type is a pointer
// to, or a slice of pointers to, one of the 13 node kinds) in a GetSnapshot method that is neither a nil test, a call of
// the child's own GetSnapshot, len/range over a slice of children, nor a copy into a local; "" when there is none.
func snapChildUsedOtherwise(p *Prog, fn *ssa.Function) string {
	recv := receiver(fn)
	isKind := func(t types.Type) bool {
		for {
			switch u := t.Underlying().(type) {
			case *types.Slice:
				t = u.Elem()
				continue
			case *types.Pointer:
				if n, ok := u.Elem().(*types.Named); ok && n.Obj().Pkg() != nil && inModule(n.Obj().Pkg().Path()) {
					for _, k := range nodeTypeNames {
						if n.Obj().Name() == k {
							return true
						}
					}
				}
			}
			return false
		}
	}
	bad := ""
	seen := map[ssa.Value]bool{}
	var follow func(v ssa.Value)
	follow = func(v ssa.Value) {
		if seen[v] || v.Referrers() == nil {
			return
		}
		seen[v] = true
		for _, r := range *v.Referrers() {
			switch x := r.(type) {
			case *ssa.BinOp:
				if (x.Op == token.EQL || x.Op == token.NEQ) && (isNilConst(x.X) || isNilConst(x.Y)) {
					continue
				}
				bad = p.InstrPos(x)
			case ssa.CallInstruction:
				cc := x.Common()
				if b, ok := cc.Value.(*ssa.Builtin); ok && (b.Name() == "len" || b.Name() == "cap") {
					continue
				}
				if calleeNameIs(x, "GetSnapshot") {
					if cc.IsInvoke() && cc.Value == v {
						continue
					}
					if !cc.IsInvoke() && len(cc.Args) > 0 && cc.Args[0] == v {
						continue
					}
				}
				bad = p.InstrPos(x.(ssa.Instruction))
			case *ssa.Phi:
				follow(x)
			case *ssa.Store:
				if x.Val == v {
					if a, ok := x.Addr.(*ssa.Alloc); ok {
						// a local: follow its loads
						for _, ar := range *a.Referrers() {
							if ld, ok := ar.(*ssa.UnOp); ok && ld.Op == token.MUL {
								follow(ld)
							}
						}
						continue
					}
					bad = p.InstrPos(x)
				}
			case *ssa.IndexAddr: // element of a slice of children
				for _, ar := range *x.Referrers() {
					if ld, ok := ar.(*ssa.UnOp); ok && ld.Op == token.MUL {
						follow(ld)
					} else {
						bad = p.InstrPos(ar)
					}
				}
			case *ssa.Range:
				bad = p.InstrPos(x) // a map of children: not used by any node kind
			case *ssa.DebugRef:
			default:
				bad = p.InstrPos(r)
			}
		}
	}
	fns := append([]*ssa.Function{fn}, fn.AnonFuncs...)
	for _, f := range fns {
		for _, b := range f.Blocks {
			for _, in := range b.Instrs {
				v, ok := in.(ssa.Value)
				if !ok {
					continue
				}
				fl, base := fieldLoad(v)
				if fl == nil || !isKind(fl.Type()) || !isRecvOrCaptured(base, recv, f) {
					continue
				}
				follow(v)
			}
		}
	}
	return bad
}
