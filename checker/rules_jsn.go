package main

import (
	"fmt"
	"go/ast"
	"go/constant"
	"go/token"
	"go/types"
	"os"
	"path/filepath"
	"regexp"
	"sort"
	"strconv"
	"strings"

	"golang.org/x/tools/go/ssa"
)

func init() {
	register("JSN-1", "JSON operator key table equals the documented table and maps to grammar operators", 19, ruleJSN1)
	register("JSN-2", "nesting is parenthesised on every path", 5, ruleJSN2)
	register("JSN-3", "constants survive: strings quoted, floats formatted losslessly", 3, ruleJSN3)
	register("JSN-4", "malformed rules are rejected", 8, ruleJSN4)
	register("JSN-5", "unary negation only in the unary form of `not`", 1, ruleJSN5)
	register("JSN-6", "the translator keeps no state between calls", 3, ruleJSN6)
	register("JSN-7", "the rule description is decoded by the builder the way the translator encodes it", 1, ruleJSN7)
}

// docOperatorTable reads the operator table of docs/en/GRL_JSON_en.md: key -> GRL operator.
func docOperatorTable(repo string) (map[string]string, error) {
	b, err := os.ReadFile(filepath.Join(repo, "docs", "en", "GRL_JSON_en.md"))
	if err != nil {
		return nil, err
	}
	out := map[string]string{}
	re := regexp.MustCompile("^\\|\\s*`\"([a-z]+)\"`\\s*\\|\\s*GRL\\s+(\\S+)\\s+operator\\s*\\|")
	for _, line := range strings.Split(string(b), "\n") {
		if m := re.FindStringSubmatch(line); m != nil {
			out[m[1]] = strings.ReplaceAll(m[2], `\|`, "|")
		}
	}
	if len(out) == 0 {
		return nil, fmt.Errorf("no operator table found")
	}
	return out, nil
}

// grammarLiterals reads `NAME : 'lit' ;` lexer rules of grulev3.g4: literal -> token name.
func grammarLiterals(repo string) (map[string]string, error) {
	b, err := os.ReadFile(filepath.Join(repo, "antlr", "grulev3.g4"))
	if err != nil {
		return nil, err
	}
	out := map[string]string{}
	re := regexp.MustCompile(`(?m)^([A-Z_]+)\s*:\s*'([^']+)'\s*;`)
	for _, m := range re.FindAllStringSubmatch(string(b), -1) {
		out[m[2]] = m[1]
	}
	return out, nil
}

// grammarClasses reads the operator class rules: class -> token names.
func grammarClasses(repo string) (map[string][]string, error) {
	b, err := os.ReadFile(filepath.Join(repo, "antlr", "grulev3.g4"))
	if err != nil {
		return nil, err
	}
	out := map[string][]string{}
	re := regexp.MustCompile(`(?s)\n(mulDivOperators|addMinusOperators|comparisonOperator|andLogicOperator|orLogicOperator)\s*:\s*(.*?);`)
	for _, m := range re.FindAllStringSubmatch(string(b), -1) {
		var toks []string
		for _, t := range strings.Split(m[2], "|") {
			toks = append(toks, strings.TrimSpace(t))
		}
		out[m[1]] = toks
	}
	return out, nil
}

func ruleJSN1(c *Ctx) {
	p := c.P
	doc, err := docOperatorTable(p.RepoDir)
	if err != nil {
		c.Fail("docs / JSON operator table", "docs/en/GRL_JSON_en.md", "cannot read the documented operator table: "+err.Error())
		return
	}
	lits, err := grammarLiterals(p.RepoDir)
	if err != nil {
		c.Fail("grammar / literals", "antlr/grulev3.g4", err.Error())
		return
	}
	fd, info := c.pkgFuncDecl("pkg", "buildExpressionEx")
	if fd == nil {
		c.AnchorLost("pkg.buildExpressionEx")
		return
	}
	// switch key { case "x": ... call(value, ..., " op ") }
	table := map[string]string{}
	hasDefaultErr := false
	ast.Inspect(fd.Body, func(n ast.Node) bool {
		sw, ok := n.(*ast.SwitchStmt)
		if !ok || sw.Tag == nil {
			return true
		}
		// the key switch: an identifier tag with string-literal cases among which "eq"
		if _, ok := sw.Tag.(*ast.Ident); !ok {
			return true
		}
		hasEq := false
		for _, st := range sw.Body.List {
			for _, e := range st.(*ast.CaseClause).List {
				if bl, ok := e.(*ast.BasicLit); ok && bl.Value == `"eq"` {
					hasEq = true
				}
			}
		}
		if !hasEq {
			return true
		}
		for _, st := range sw.Body.List {
			cc := st.(*ast.CaseClause)
			if cc.List == nil {
				ast.Inspect(cc, func(x ast.Node) bool {
					if rs, ok := x.(*ast.ReturnStmt); ok && len(rs.Results) > 0 {
						if call, ok := rs.Results[len(rs.Results)-1].(*ast.CallExpr); ok && strings.HasSuffix(exprStr(call.Fun), "Errorf") {
							hasDefaultErr = true
						}
					}
					return true
				})
				continue
			}
			for _, e := range cc.List {
				tv := info.Types[e]
				if tv.Value == nil {
					continue
				}
				k, _ := strconv.Unquote(tv.Value.ExactString())
				op := ""
				ast.Inspect(cc, func(x ast.Node) bool {
					call, ok := x.(*ast.CallExpr)
					if !ok || op != "" {
						return true
					}
					fn := exprStr(call.Fun)
					if fn == "joinOperator" || fn == "buildCompoundOperator" || fn == "joinSet" {
						if bl, ok := call.Args[len(call.Args)-1].(*ast.BasicLit); ok && bl.Kind == token.STRING {
							s, _ := strconv.Unquote(bl.Value)
							op = strings.TrimSpace(s)
						}
					}
					return true
				})
				table[k] = op
			}
		}
		return false
	})
	var keys []string
	for k := range doc {
		keys = append(keys, k)
	}
	sort.Strings(keys)
	for _, k := range keys {
		want := doc[k]
		got, ok := table[k]
		construct := "JSON key \"" + k + "\" -> GRL " + want
		_, isLit := lits[got]
		c.Check(ok && got == want && isLit, construct, p.Pos(fd.Pos()), "switch maps the key to the documented operator, which is a lexer literal of the grammar", fmt.Sprintf("translator maps \"%s\" to `%s` (documented: `%s`; grammar literal: %v)", k, got, want, isLit))
	}
	for _, k := range []string{"set", "call", "obj", "const"} {
		_, ok := table[k]
		c.Check(ok, "JSON key \""+k+"\" handled", p.Pos(fd.Pos()), "case present", "the `"+k+"` form is no longer handled")
	}
	var extra []string
	for k := range table {
		if _, ok := doc[k]; !ok && k != "set" && k != "call" && k != "obj" && k != "const" {
			extra = append(extra, k)
		}
	}
	sort.Strings(extra)
	c.Check(hasDefaultErr && len(extra) == 0, "unknown JSON keys are rejected", p.Pos(fd.Pos()), "default returns an error; no undocumented key", fmt.Sprintf("unknown operator keys are not rejected (defaultIsError=%v undocumentedKeys=%v)", hasDefaultErr, extra))
}

func exprStr(e ast.Expr) string {
	switch x := e.(type) {
	case *ast.Ident:
		return x.Name
	case *ast.SelectorExpr:
		return exprStr(x.X) + "." + x.Sel.Name
	}
	return ""
}

// concatParts flattens a string concatenation a + b + c into its operands.
func concatParts(v ssa.Value) []ssa.Value {
	if bo, ok := v.(*ssa.BinOp); ok && bo.Op == token.ADD && isString(bo.Type()) {
		return append(concatParts(bo.X), concatParts(bo.Y)...)
	}
	return []ssa.Value{v}
}

// wrapped: v is "(" + inner + ")" or "!(" + inner + ")" for a value derived from `inner`.
func wrapped(v ssa.Value, isInner func(ssa.Value) bool) bool {
	parts := concatParts(v)
	if len(parts) != 3 {
		return false
	}
	pre, okp := constString(parts[0])
	suf, oks := constString(parts[2])
	return okp && oks && (pre == "(" || pre == "!(") && suf == ")" && isInner(parts[1])
}

func ruleJSN2(c *Ctx) {
	p := c.P
	jsn2TextOperandOfCompound(c)
	po := p.Func("pkg", "parseOperand")
	bex := p.Func("pkg", "buildExpressionEx")
	jo := p.Func("pkg", "joinOperator")
	bco := p.Func("pkg", "buildCompoundOperator")
	be := p.Func("pkg", "buildExpression")
	if po == nil || bex == nil || jo == nil || bco == nil {
		c.AnchorLost("pkg.parseOperand / buildExpressionEx / joinOperator / buildCompoundOperator")
		return
	}
	// (1) parseOperand: a nested operator object is returned raw only under (atomic || noWrap), otherwise wrapped
	calls := findCalls(po, matchStatic(bex))
	if len(calls) != 1 {
		c.Fail("parseOperand / nested object translation", p.Pos(po.Pos()), "expected exactly one call of buildExpressionEx")
	} else {
		call := calls[0]
		exprV := resultValues(call, 0)
		atomic := resultValues(call, 1)
		errV := resultValues(call, 2)
		isExpr := func(v ssa.Value) bool {
			for _, e := range exprV {
				if v == e {
					return true
				}
			}
			return false
		}
		noWrap := ssa.Value(po.Params[1])
		for _, ret := range returnsOf(po) {
			if !call.Block().Dominates(ret.Block()) || call.Block() == ret.Block() {
				continue
			}
			v := ret.Results[0]
			construct := "parseOperand / nested object return " + shortRetLabel(p, ret)
			switch {
			case isExpr(v):
				// raw: allowed on the error path, or under atomic || noWrap
				onErr := len(errV) > 0 && dominatedByNonNilTest(ret.Block(), errV[0])
				okGuard := edgesDominate(po, ret, func(b *ssa.BasicBlock, si int) bool {
					iff, isIf := b.Instrs[len(b.Instrs)-1].(*ssa.If)
					if !isIf {
						return false
					}
					kind, sTrue, okc := condOn(iff.Cond, func(x ssa.Value) bool {
						if x == noWrap {
							return true
						}
						for _, a := range atomic {
							if x == a {
								return true
							}
						}
						return false
					})
					return okc && kind == "bool" && si == sTrue
				})
				c.Check(onErr || okGuard, construct, p.InstrPos(ret), "raw text only for atomic forms or when the caller needs no brackets", "a nested operator expression can be emitted without brackets: grouping of the JSON tree is lost (GRL precedence regroups the operands)")
			case wrapped(v, isExpr):
				c.OK(construct, p.InstrPos(ret), "bracketed")
			default:
				c.Undecided(construct, p.InstrPos(ret), "return value is neither the raw nor the bracketed nested expression")
			}
		}
	}
	// (2) joinOperator hands noWrap=false to every parseOperand call
	n := 0
	for _, ci := range findCalls(jo, matchStatic(po)) {
		n++
		bv, isb := constBool(ci.Common().Args[1])
		c.Check(isb && !bv, "joinOperator / operands may not waive their brackets", p.InstrPos(ci), "noWrap == false", "a binary operator lets a nested operand drop its brackets (e.g. `chained` same-operator operands): \"n=\" + (A + B) and \"n=\" + A + B differ when + concatenates")
	}
	// every operand goes through parseOperand: no other source of operand text
	c.Check(n == 1, "joinOperator / every operand is translated by parseOperand", p.Pos(jo.Pos()), "one call site in the operand loop", fmt.Sprintf("%d parseOperand call sites (operands translated elsewhere bypass the bracket rule)", n))
	// (3) buildCompoundOperator brackets itself when nested (depth > 0) and translates operands one level deeper
	depth := ssa.Value(bco.Params[1])
	okNested, okDepth := false, true
	for _, ret := range returnsOf(bco) {
		v := ret.Results[0]
		if s, ok := constString(v); ok && s == "" {
			continue
		}
		isJoin := func(x ssa.Value) bool {
			call, ok := x.(*ssa.Call)
			return ok && matchPkgFunc("strings", "Join")(call)
		}
		if wrapped(v, isJoin) {
			okNested = true
			continue
		}
		if isJoin(v) {
			// raw join only when depth is not > 0
			raw := edgesDominate(bco, ret, func(b *ssa.BasicBlock, si int) bool {
				iff, isIf := b.Instrs[len(b.Instrs)-1].(*ssa.If)
				if !isIf {
					return false
				}
				bo, isBo := iff.Cond.(*ssa.BinOp)
				if !isBo || bo.X != depth {
					return false
				}
				k, okk := constInt(bo.Y)
				return okk && ((bo.Op == token.GTR && k == 0 && si == 1) || (bo.Op == token.EQL && k == 0 && si == 0) || (bo.Op == token.LEQ && k == 0 && si == 0))
			})
			if !raw {
				okNested = false
				okDepth = false
			}
		}
	}
	for _, ci := range callsIn(bco) {
		callee := ci.Common().StaticCallee()
		if callee != nil && (callee == be || callee == bex) {
			if phiPlusVal(ci.Common().Args[1], depth) != 1 {
				okDepth = false
			}
		}
	}
	c.Check(okNested && okDepth, "buildCompoundOperator / nested and/or is bracketed", p.Pos(bco.Pos()), "depth > 0 returns \"(\"+join+\")\"; operands are translated with depth+1", "a nested and/or can be emitted without brackets (or operands are not translated one level deeper)")
	// (4) precedence obligation: operands of and/or that are non-compound operator objects are emitted unbracketed; this
	// preserves grouping only because every other operator class binds tighter than && and ||, and && tighter than ||
	classes, err := grammarClasses(p.RepoDir)
	order := grammarExpressionOrder(p.RepoDir)
	okPrec := err == nil && len(order) >= 5
	if okPrec {
		idx := map[string]int{}
		for i, cl := range order {
			idx[cl] = i
		}
		ia, oka := idx["andLogicOperator"]
		io, oko := idx["orLogicOperator"]
		okPrec = oka && oko && ia < io
		for _, cl := range []string{"mulDivOperators", "addMinusOperators", "comparisonOperator"} {
			if i, ok := idx[cl]; !ok || i > ia {
				okPrec = false
			}
		}
		_ = classes
	}
	c.Check(okPrec, "grammar / every operator class binds tighter than && which binds tighter than ||", "antlr/grulev3.g4", "alternative order of `expression`: "+strings.Join(order, " > "), "the translator emits non-compound operands of and/or without brackets, which is only correct while && and || are the loosest operators of the grammar")
}

// phiPlusVal: v == base + k for small k; returns k or -1.
func phiPlusVal(v ssa.Value, base ssa.Value) int {
	if v == base {
		return 0
	}
	if bo, ok := v.(*ssa.BinOp); ok && bo.Op == token.ADD && bo.X == base {
		if k, ok := constInt(bo.Y); ok {
			return int(k)
		}
	}
	return -1
}

// grammarExpressionOrder: the operator classes of the binary alternatives of `expression`, in order (tightest first).
func grammarExpressionOrder(repo string) []string {
	b, err := os.ReadFile(filepath.Join(repo, "antlr", "grulev3.g4"))
	if err != nil {
		return nil
	}
	m := regexp.MustCompile(`(?s)\nexpression\s*:\s*(.*?)\n\s*;`).FindStringSubmatch(string(b))
	if m == nil {
		return nil
	}
	var out []string
	for _, alt := range strings.Split(m[1], "|") {
		f := strings.Fields(alt)
		if len(f) == 3 && f[0] == "expression" && f[2] == "expression" {
			out = append(out, f[1])
		}
	}
	return out
}

func ruleJSN3(c *Ctx) {
	p := c.P
	bex := p.Func("pkg", "buildExpressionEx")
	pr := p.Func("pkg", "parseRule")
	if bex == nil || pr == nil {
		c.AnchorLost("pkg.buildExpressionEx / parseRule")
		return
	}
	// const string -> strconv.Quote ; const float -> FormatFloat(..., -1, 64)
	quoted, floatOK, floatBad := false, false, ""
	var numFns []*ssa.Function
	for _, name := range []string{"ParseJSONRule", "ParseJSONRuleset", "ParseRule"} {
		if root := p.Func("pkg", name); root != nil {
			for f := range c.reachableModuleFuncs([]*ssa.Function{root}, false) {
				if fnPkgShort(f) == "pkg" {
					numFns = append(numFns, f)
				}
			}
		}
	}
	sort.Slice(numFns, func(i, j int) bool { return numFns[i].String() < numFns[j].String() })
	var numCalls []ssa.CallInstruction
	seenNF := map[*ssa.Function]bool{}
	for _, f := range numFns {
		if seenNF[f] {
			continue
		}
		seenNF[f] = true
		numCalls = append(numCalls, callsIn(f)...)
	}
	for _, ci := range append(callsIn(bex), numCalls...) {
		call, ok := ci.(*ssa.Call)
		if !ok {
			continue
		}
		f := call.Call.StaticCallee()
		if f == nil {
			continue
		}
		switch f.String() {
		case "strconv.Quote":
			if call.Parent() == bex {
				quoted = true
			}
		case "strconv.FormatFloat":
			prec, okp := constInt(call.Call.Args[2])
			bits, okb := constInt(call.Call.Args[3])
			if okp && okb && prec == -1 && bits == 64 {
				floatOK = true
			} else {
				floatBad = p.InstrPos(call)
			}
		}
	}
	// every return of the const case that yields a string constant value passes through Quote: check that no return
	// concatenates or returns the raw asserted string in the `const` case -> approximated: the type-asserted string of the
	// const case is only used as argument of strconv.Quote
	c.Check(quoted, "buildExpressionEx / string constants are quoted", p.Pos(bex.Pos()), "strconv.Quote", "a JSON string constant is emitted without Go quoting: quotes, backslashes and newlines in it break or change the rule")
	c.Check(floatOK && floatBad == "", "buildExpressionEx / numeric constants are formatted losslessly", p.Pos(bex.Pos()), "strconv.FormatFloat(v, _, -1, 64)", "a JSON number is formatted with a fixed precision "+floatBad)
	// ... and as a literal the GRL lexer and the listener accept: format 'f' prints every integral value in plain
	// digits, which is an *integer* literal; beyond 2^63 the listener's ParseInt rejects it. 'e'/'g' always give a float
	// literal or an integer below 10^17. So an 'f' rendering must sit under a magnitude test of the same value.
	for _, ci := range numCalls {
		call, ok := ci.(*ssa.Call)
		if !ok || call.Call.StaticCallee() == nil {
			continue
		}
		hostFn := call.Parent()
		// a number printed with fmt's default verb (%v = 'g') turns every integral value from 1e6 on into exponent form:
		// a float literal where the JSON number was an integer, which %, & and | reject and + prints as 1e+06
		if cn := call.Call.StaticCallee().String(); cn == "fmt.Sprint" || cn == "fmt.Sprintf" || cn == "fmt.Sprintln" {
			for _, op := range varargElems(call.Call.Args[len(call.Call.Args)-1]) {
				if isFloat(stripConv(op).Type()) {
					c.Fail(fnName(hostFn)+" / a JSON number is written as the literal of the same kind", p.InstrPos(call), "a float64 operand is formatted by "+cn+": integral numbers from 1e6 on come out in exponent form (1000000 -> 1e+06), a float literal, so {\"mod\":[\"X.I\",1000000]} builds but cannot be evaluated and string concatenation prints 1e+06")
				}
			}
			continue
		}
		if call.Call.StaticCallee().String() != "strconv.FormatFloat" {
			continue
		}
		bex := hostFn
		verb, okv := constInt(call.Call.Args[1])
		construct := fnName(hostFn) + " / a JSON number is emitted as a literal the builder accepts, of the same kind"
		if okv && verb == 'g' {
			c.Fail(construct, p.InstrPos(call), "format 'g' writes integral numbers from 1e6 on (1e21 with other precisions) in exponent form: a float literal where the JSON number was an integer")
			continue
		}
		if !okv {
			c.Undecided(construct, p.InstrPos(call), "format verb of FormatFloat is not a constant")
			continue
		}
		if verb != 'f' {
			c.OK(construct, p.InstrPos(call), fmt.Sprintf("format %q is used for what cannot be an integer literal", rune(verb)))
			continue
		}
		v := call.Call.Args[0]
		guarded := edgesDominate(bex, call, func(b *ssa.BasicBlock, si int) bool {
			iff, isIf := b.Instrs[len(b.Instrs)-1].(*ssa.If)
			if !isIf {
				return false
			}
			bo, isBo := iff.Cond.(*ssa.BinOp)
			if !isBo {
				return false
			}
			// |v| (math.Abs(v)) or v itself compared with a constant bound
			isV := func(x ssa.Value) bool {
				if x == v {
					return true
				}
				if cl, isCall := x.(*ssa.Call); isCall && calleeName(cl) == "math.Abs" && cl.Call.Args[0] == v {
					return true
				}
				return false
			}
			var k *ssa.Const
			small := -1 // successor index on which the value is below the bound
			switch {
			case isV(bo.X):
				k, _ = bo.Y.(*ssa.Const)
				switch bo.Op {
				case token.LSS, token.LEQ:
					small = 0
				case token.GTR, token.GEQ:
					small = 1
				}
			case isV(bo.Y):
				k, _ = bo.X.(*ssa.Const)
				switch bo.Op {
				case token.GTR, token.GEQ:
					small = 0
				case token.LSS, token.LEQ:
					small = 1
				}
			}
			if k == nil || k.Value == nil || small < 0 {
				return false
			}
			bound, _ := constant.Float64Val(constant.ToFloat(k.Value))
			return bound > 0 && bound <= 9007199254740992.0 && si == small
		})
		c.Check(guarded, construct, p.InstrPos(call), "'f' rendering under a magnitude bound <= 2^53", "format 'f' prints an integral number of any magnitude in plain digits, an integer literal. From 2^53 on a float64 no longer holds every integer and the shortest digits are not the number that was meant ({\"eq\":[\"A.ID\",1541815603606036480]} becomes A.ID == 1541815603606036500, compared exactly); from 2^63 on the builder rejects the literal. Such numbers have to stay float literals")
	}
	jsn3Digits(c, numFns)
	descQuoted := false
	for _, ci := range callsIn(pr) {
		call, ok := ci.(*ssa.Call)
		if !ok {
			continue
		}
		if f := call.Call.StaticCallee(); f != nil && f.String() == "strconv.Quote" {
			if fl, _ := fieldLoad(call.Call.Args[0]); fl != nil && fl.Name() == "Description" {
				descQuoted = true
			}
		}
	}
	c.Check(descQuoted, "parseRule / description is quoted", p.Pos(pr.Pos()), "strconv.Quote(rule.Description)", "the rule description is emitted unquoted")
}

func ruleJSN4(c *Ctx) {
	p := c.P
	jsn4WholeInput(c)
	jsn4OperandKinds(c)
	// named rejections: (function, description, recogniser on an If condition whose taken edge returns an error)
	type rej struct {
		fn   string
		desc string
		cond func(iff *ssa.If, fn *ssa.Function) (bool, int)
	}
	// a comparison of len(x) with a constant, read as the set of lengths on its true edge ([lo,hi], hi < 0: unbounded):
	// `== 0`, `< 1` and `<= 0` are the same test, and so is the false edge of `> 0` / `!= 0`
	const inf = int64(-1)
	// (lo, hi, complemented): lengths in [lo,hi] (hi == inf: unbounded), or everything outside when complemented
	lenInterval := func(op token.Token, k int64) (lo, hi int64, compl bool, ok bool) {
		switch op {
		case token.EQL:
			return k, k, false, true
		case token.NEQ:
			return k, k, true, true
		case token.LSS:
			return 0, k - 1, false, true
		case token.LEQ:
			return 0, k, false, true
		case token.GTR: // complement of [0,k]
			return 0, k, true, true
		case token.GEQ: // complement of [0,k-1]
			return 0, k - 1, true, true
		}
		return 0, 0, false, false
	}
	lenCmp := func(op token.Token, k int64) func(iff *ssa.If, fn *ssa.Function) (bool, int) {
		wantLo, wantHi, wantC, _ := lenInterval(op, k)
		return func(iff *ssa.If, fn *ssa.Function) (bool, int) {
			cond, neg := iff.Cond, false
			for {
				u, isNot := cond.(*ssa.UnOp)
				if !isNot || u.Op != token.NOT {
					break
				}
				cond, neg = u.X, !neg
			}
			bo, ok := cond.(*ssa.BinOp)
			if !ok {
				return false, 0
			}
			x, y, bop := bo.X, bo.Y, bo.Op
			if _, isK := constInt(x); isK { // k OP len(x)
				x, y = y, x
				switch bop {
				case token.LSS:
					bop = token.GTR
				case token.LEQ:
					bop = token.GEQ
				case token.GTR:
					bop = token.LSS
				case token.GEQ:
					bop = token.LEQ
				}
			}
			call, ok := x.(*ssa.Call)
			if !ok {
				return false, 0
			}
			bi, ok := call.Call.Value.(*ssa.Builtin)
			if !ok || bi.Name() != "len" {
				return false, 0
			}
			kk, ok := constInt(y)
			if !ok {
				return false, 0
			}
			lo, hi, cpl, ok := lenInterval(bop, kk)
			if !ok || lo != wantLo || hi != wantHi {
				return false, 0
			}
			succ := 0
			if neg {
				succ = 1
			}
			if cpl == wantC {
				return true, succ
			}
			return true, 1 - succ
		}
	}
	nilField := func(name string) func(iff *ssa.If, fn *ssa.Function) (bool, int) {
		return func(iff *ssa.If, fn *ssa.Function) (bool, int) {
			kind, sNil, ok := condOn(iff.Cond, func(v ssa.Value) bool {
				f, _ := fieldLoad(v)
				return f != nil && f.Name() == name
			})
			return ok && kind == "nil", sNil
		}
	}
	rejs := []rej{
		{"parseRule", "blank rule name", lenCmp(token.EQL, 0)},
		{"parseRule", "missing when", nilField("When")},
		{"parseRule", "missing then", nilField("Then")},
		{"buildExpressionEx", "object with more than one key", lenCmp(token.GTR, 1)},
		{"buildExpressionEx", "nesting beyond the depth bound", func(iff *ssa.If, fn *ssa.Function) (bool, int) {
			bo, ok := iff.Cond.(*ssa.BinOp)
			if !ok || (bo.Op != token.GTR && bo.Op != token.GEQ) || len(fn.Params) < 2 || bo.X != ssa.Value(fn.Params[1]) {
				return false, 0
			}
			_, isK := constInt(bo.Y)
			return isK, 0
		}},
		{"buildCompoundOperator", "and/or with fewer than 2 operands", lenCmp(token.LSS, 2)},
		{"joinOperator", "operator without operands", lenCmp(token.EQL, 0)},
		{"joinSet", "set with other than 2 operands", lenCmp(token.NEQ, 2)},
		{"joinCall", "call without operands", lenCmp(token.EQL, 0)},
	}
	for _, r := range rejs {
		fn := p.Func("pkg", r.fn)
		if fn == nil {
			c.AnchorLost("pkg." + r.fn)
			continue
		}
		ok := false
		loops := naturalLoops(fn)
		for _, b := range fn.Blocks {
			iff, isIf := b.Instrs[len(b.Instrs)-1].(*ssa.If)
			if !isIf {
				continue
			}
			if m, edge := r.cond(iff, fn); m {
				if onlyErrorReturns(b.Succs[edge], loops) {
					ok = true
				}
			}
		}
		c.Check(ok, r.fn+" / rejects "+r.desc, p.Pos(fn.Pos()), "guard leads to an error return", "the translator no longer rejects: "+r.desc)
	}
	// the 13 binary operators need two or more operands (docs: "x and y are two or more …"); only `not` has a unary form
	if fn := p.Func("pkg", "joinOperator"); fn != nil && len(fn.Params) >= 2 {
		loops := naturalLoops(fn)
		opParam := ssa.Value(fn.Params[1])
		ok := false
		for _, b := range fn.Blocks {
			iff, isIf := b.Instrs[len(b.Instrs)-1].(*ssa.If)
			if !isIf {
				continue
			}
			m1, _ := lenCmp(token.EQL, 1)(iff, fn)
			m2, _ := lenCmp(token.LSS, 2)(iff, fn)
			if !m1 && !m2 {
				continue
			}
			t := b.Succs[0]
			if onlyErrorReturns(t, loops) {
				// rejects the unary form of `not` as well: that is a documented feature (TestJsonNegation), JSN-5 decides it
				continue
			}
			// one more test, on the operator: everything but " != " is rejected
			if iff2, isIf2 := t.Instrs[len(t.Instrs)-1].(*ssa.If); isIf2 {
				if bo, isBo := iff2.Cond.(*ssa.BinOp); isBo && (bo.Op == token.NEQ || bo.Op == token.EQL) {
					var other ssa.Value
					if bo.X == opParam {
						other = bo.Y
					} else if bo.Y == opParam {
						other = bo.X
					}
					if sv, isS := constString(other); other != nil && isS && strings.TrimSpace(sv) == "!=" {
						edge := 0
						if bo.Op == token.EQL {
							edge = 1
						}
						if onlyErrorReturns(t.Succs[edge], loops) {
							ok = true
						}
					}
				}
			}
		}
		c.Check(ok, "joinOperator / rejects a single operand unless the operator is the unary-capable not", p.Pos(fn.Pos()), "len(operands) == 1 && operator != \" != \" leads to an error return", "a binary operator with one operand is accepted and emitted as the bare operand: {\"eq\":[\"A.X\"]} becomes `A.X` (wrong arity must be rejected; the sibling translators for and/or, set and call do check their operand counts)")
	}
	// total number of error-returning branches in the translator (drop = suspicious)
	total := 0
	for _, n := range []string{"parseRule", "parseThen", "parseWhen", "buildExpressionEx", "buildCompoundOperator", "joinCall", "parseCallOperand", "joinOperator", "joinSet", "parseOperand"} {
		if fn := p.Func("pkg", n); fn != nil {
			for _, ret := range returnsOf(fn) {
				if returnsNonNilError(ret) {
					if call, ok := ret.Results[len(ret.Results)-1].(*ssa.Call); ok && call.Call.StaticCallee() != nil && alwaysNonNilError(call.Call.StaticCallee(), 0) {
						total++
					}
				}
			}
		}
	}
	c.Check(total >= 20, "translator / rejection branches", "pkg/JsonResource.go", fmt.Sprintf("%d branches return a fresh error", total), fmt.Sprintf("only %d rejection branches remain (20 confirmed on the pinned tree)", total))
}

func ruleJSN5(c *Ctx) {
	p := c.P
	jo := p.Func("pkg", "joinOperator")
	po := p.Func("pkg", "parseOperand")
	if jo == nil || po == nil {
		c.AnchorLost("pkg.joinOperator / parseOperand")
		return
	}
	for _, ci := range findCalls(jo, matchStatic(po)) {
		neg := ci.Common().Args[2]
		ok := impliesUnary(jo, neg, 0)
		c.Check(ok, "joinOperator / per-operand negation only in the unary form", p.InstrPos(ci), "the negation flag can be true only when len(operands) == 1", "nested operands of a binary `not` (GRL !=) are wrapped in !( ): {\"not\":[{...},x]} is emitted as !(...) != x, the opposite of the tree")
	}
	jsn5Negates(c)
}

// JSN-5b: the other half. When parseOperand is asked to negate (the unary form of `not`), every operand form must come
// back negated: a successful return reachable with negation == true yields a string that starts with "!".
func jsn5Negates(c *Ctx) {
	p := c.P
	po := p.Func("pkg", "parseOperand")
	if po == nil || len(po.Params) < 3 {
		return
	}
	neg := ssa.Value(po.Params[2])
	startsWithBang := func(v ssa.Value) bool {
		for {
			bo, ok := v.(*ssa.BinOp)
			if !ok || bo.Op != token.ADD {
				break
			}
			v = bo.X
		}
		s, ok := constString(v)
		return ok && strings.HasPrefix(s, "!")
	}
	n := 0
	for _, ret := range returnsOf(po) {
		if returnsNonNilError(ret) || len(ret.Results) != 2 {
			continue
		}
		if !isNilConst(ret.Results[1]) {
			continue // hands back a callee's error together with its text
		}
		n++
		if startsWithBang(ret.Results[0]) {
			c.OK("parseOperand / "+shortRetLabel(p, ret)+" negates when asked", p.InstrPos(ret), "returns \"!\"+…")
			continue
		}
		// is this return reachable while negation is true?
		t, path := reach(po, nil, func(in ssa.Instruction) bool { return in == ssa.Instruction(ret) }, nil, func(b *ssa.BasicBlock, si int) bool {
			iff, isIf := b.Instrs[len(b.Instrs)-1].(*ssa.If)
			if !isIf {
				return true
			}
			if kind, sTrue, okc := condOn(iff.Cond, func(v ssa.Value) bool { return v == neg }); okc && kind == "bool" {
				return si == sTrue
			}
			return true
		})
		if t == nil {
			c.OK("parseOperand / "+shortRetLabel(p, ret)+" negates when asked", p.InstrPos(ret), "not reachable with negation == true")
		} else {
			c.Fail("parseOperand / "+shortRetLabel(p, ret)+" negates when asked", p.InstrPos(ret), "with negation requested (unary `not`) this operand form is returned without the `!`: {\"not\":[x]} is emitted as x, the opposite of the tree", pathString(p, path)...)
		}
	}
	if n == 0 {
		c.Fail("parseOperand / success returns", p.Pos(po.Pos()), "no success return found (anchor lost)")
	}
}

// impliesUnary: boolean value v can be true only if len(x) == 1 for some slice x.
func impliesUnary(fn *ssa.Function, v ssa.Value, depth int) bool {
	if depth > 5 {
		return false
	}
	if b, ok := constBool(v); ok {
		return !b
	}
	isLenEq1 := func(x ssa.Value) bool {
		bo, ok := x.(*ssa.BinOp)
		if !ok || bo.Op != token.EQL {
			return false
		}
		call, ok := bo.X.(*ssa.Call)
		if !ok {
			return false
		}
		bi, ok := call.Call.Value.(*ssa.Builtin)
		k, okk := constInt(bo.Y)
		return ok && bi.Name() == "len" && okk && k == 1
	}
	if isLenEq1(v) {
		return true
	}
	if phi, ok := v.(*ssa.Phi); ok {
		for i, e := range phi.Edges {
			if impliesUnary(fn, e, depth+1) {
				continue
			}
			// the edge's source is dominated by the true edge of a len == 1 test
			pred := phi.Block().Preds[i]
			dom := edgesDominate(fn, pred.Instrs[len(pred.Instrs)-1], func(b *ssa.BasicBlock, si int) bool {
				iff, isIf := b.Instrs[len(b.Instrs)-1].(*ssa.If)
				return isIf && isLenEq1(iff.Cond) && si == 0
			})
			if !dom {
				return false
			}
		}
		return true
	}
	return false
}

func ruleJSN6(c *Ctx) {
	p := c.P
	jsn6NoAliasOfInput(c)
	for _, name := range []string{"ParseJSONRule", "ParseJSONRuleset", "ParseRule"} {
		root := p.Func("pkg", name)
		if root == nil {
			c.AnchorLost("pkg." + name)
			continue
		}
		var bad []string
		for f := range c.reachableModuleFuncs([]*ssa.Function{root}, false) {
			for _, b := range f.Blocks {
				for _, in := range b.Instrs {
					for _, op := range in.Operands(nil) {
						if g, ok := (*op).(*ssa.Global); ok && g.Pkg != nil && inModule(g.Pkg.Pkg.Path()) {
							// loggers are read-only configuration
							if strings.Contains(strings.ToLower(g.Name()), "log") {
								continue
							}
							// a table that is only initialised and read is not state
							if !c.statefulGlobal(g) {
								continue
							}
							bad = append(bad, g.Name()+" in "+fnName(f)+" at "+p.InstrPos(in))
						}
					}
				}
			}
		}
		sort.Strings(bad)
		c.Check(len(bad) == 0, name+" / translation depends only on its input", p.Pos(root.Pos()), "no package-level variable of the module is referenced on the translation path", "the translator references package-level state ("+strings.Join(uniq(bad), "; ")+"): the output of one rule can depend on earlier calls (e.g. a pooled buffer left dirty by a rejected rule)")
	}
}

// jsn6NoAliasOfInput: a JSON resource that keeps something between two loads (a cache of its last translation) must not
// keep the byte slice the underlying resource handed out: that resource may hand out the same backing array again with
// other content (a bytes resource edited in place, a poller with a reused buffer), and a comparison of "the new data"
// with "the kept data" then compares the array with itself.
func jsn6NoAliasOfInput(c *Ctx) {
	p := c.P
	for _, typ := range []string{"JSONResource", "JSONResourceBundle"} {
		fn := p.Method("pkg", typ, "Load")
		if fn == nil {
			c.AnchorLost("(*pkg." + typ + ").Load")
			continue
		}
		recv := ssa.Value(receiver(fn))
		isInput := func(v ssa.Value) bool {
			ex, ok := v.(*ssa.Extract)
			if !ok || ex.Index != 0 {
				return false
			}
			call, ok := ex.Tuple.(*ssa.Call)
			return ok && calleeNameIs(call, "Load")
		}
		var aliasOf func(v ssa.Value, depth int) bool
		aliasOf = func(v ssa.Value, depth int) bool {
			if depth > 8 {
				return false
			}
			v = unspill(v)
			if isInput(v) {
				return true
			}
			switch x := v.(type) {
			case *ssa.Phi:
				for _, e := range x.Edges {
					if aliasOf(e, depth+1) {
						return true
					}
				}
			case *ssa.Slice:
				return aliasOf(x.X, depth+1)
			case *ssa.ChangeType:
				return aliasOf(x.X, depth+1)
			case *ssa.MakeInterface:
				return aliasOf(x.X, depth+1)
			case *ssa.Call:
				// bytes.TrimSpace and friends return a sub-slice of their argument
				if callee := x.Call.StaticCallee(); callee != nil && callee.Pkg != nil && callee.Pkg.Pkg.Path() == "bytes" && strings.HasPrefix(publicName(callee), "Trim") && len(x.Call.Args) > 0 {
					return aliasOf(x.Call.Args[0], depth+1)
				}
			}
			return false
		}
		bad := ""
		nStores := 0
		for _, b := range fn.Blocks {
			for _, in := range b.Instrs {
				f, base, val := fieldStore(in)
				if f == nil || unspill(base) != recv {
					continue
				}
				nStores++
				if aliasOf(val, 0) {
					bad = fmt.Sprintf("field %s keeps the slice the underlying resource returned (%s)", f.Name(), p.InstrPos(in))
				}
			}
		}
		c.Check(bad == "", typ+".Load / keeps no reference to the bytes the underlying resource handed out", p.Pos(fn.Pos()), fmt.Sprintf("%d stores through the receiver, none of the input slice or a sub-slice of it", nStores), bad+": a second Load after the text changed in the same backing array (same length) compares the array with itself and returns the translation of the old text")
	}
}

// statefulGlobal: the package-level variable can change after initialisation: some module function other than init
// writes it (directly, through a field/element, or as a map), or its type carries hidden mutable state (sync.Pool,
// sync.Map, mutexes, buffers, builders, channels).
func (c *Ctx) statefulGlobal(g *ssa.Global) bool {
	t := g.Type().(*types.Pointer).Elem()
	if hiddenState(t, 0) {
		return true
	}
	for _, fn := range c.P.ModuleFuncs() {
		if fn.Name() == "init" || strings.HasPrefix(fn.Name(), "init#") {
			continue
		}
		for _, w := range globalWrites(fn) {
			hit := false
			var root ssa.Value
			switch x := w.(type) {
			case *ssa.Store:
				root = x.Addr
			case *ssa.MapUpdate:
				root = x.Map
			}
			backSlice(root, func(v ssa.Value) bool {
				if v == ssa.Value(g) {
					hit = true
				}
				return !hit
			})
			if hit {
				return true
			}
		}
	}
	return false
}

func hiddenState(t types.Type, d int) bool {
	if d > 3 {
		return false
	}
	switch u := t.(type) {
	case *types.Named:
		if o := u.Obj(); o.Pkg() != nil {
			switch o.Pkg().Path() + "." + o.Name() {
			case "sync.Pool", "sync.Map", "sync.Mutex", "sync.RWMutex", "sync.Once", "sync.WaitGroup", "bytes.Buffer", "strings.Builder":
				return true
			}
			if o.Pkg().Path() == "sync/atomic" {
				return true
			}
		}
		return hiddenState(u.Underlying(), d+1)
	case *types.Pointer:
		return hiddenState(u.Elem(), d+1)
	case *types.Chan:
		return true
	case *types.Struct:
		for i := 0; i < u.NumFields(); i++ {
			if hiddenState(u.Field(i).Type(), d+1) {
				return true
			}
		}
	}
	return false
}

// JSN-7: writer/reader agreement for the description: the translator emits strconv.Quote(description) (JSN-3), so the
// listener must store the unquoted text of the description token, not the raw characters between the quotes.
func ruleJSN7(c *Ctx) {
	p := c.P
	fn := p.Method("antlr", "GruleV3ParserListener", "ExitRuleEntry")
	uq := p.Func("antlr", "unquoteString")
	descF := p.Field("ast", "RuleEntry", "RuleDescription")
	if fn == nil || descF == nil {
		c.AnchorLost("ExitRuleEntry / RuleEntry.RuleDescription")
		return
	}
	construct := "ExitRuleEntry / description token is unquoted like a string literal"
	n := 0
	okAll := true
	why := ""
	for _, b := range fn.Blocks {
		for _, in := range b.Instrs {
			f, _, val := fieldStore(in)
			if f != descF || f == nil {
				continue
			}
			n++
			fromUnquote := derivesFrom(val, func(v ssa.Value) bool {
				call, ok := v.(*ssa.Call)
				if !ok {
					return false
				}
				callee := call.Call.StaticCallee()
				return callee != nil && (callee == uq || callee.String() == "strconv.Unquote")
			})
			if fromUnquote {
				continue
			}
			// a raw fallback is tolerated only on the failure edge of the unquoting call
			rawOK := false
			for _, ci := range callsIn(fn) {
				call, ok := ci.(*ssa.Call)
				if !ok {
					continue
				}
				callee := call.Call.StaticCallee()
				if callee == nil || !(callee == uq || callee.String() == "strconv.Unquote") {
					continue
				}
				for _, e := range resultValues(call, 1) {
					if dominatedByNonNilTest(b, e) {
						rawOK = true
					}
				}
			}
			if !rawOK {
				okAll = false
				why = "RuleDescription is stored at " + p.InstrPos(in) + " from the raw token text (only the surrounding quotes are cut off)"
			}
		}
	}
	c.Check(n >= 1 && okAll, construct, p.Pos(fn.Pos()), "stored value comes from unquoteString (raw text only when unquoting fails)", why+": escapes are not decoded, so a description written by the JSON translator with strconv.Quote (or any description containing \\\" or \\n) comes back with its backslashes")
}

func init() {
	register("JSN-8", "every JSON rule is decoded into a fresh value (nothing carries over from the previous rule)", 2, ruleJSN8)
}

// JSN-8: encoding/json leaves fields that are absent from the input untouched. A decode target that lives across loop
// iterations therefore keeps the previous element's values: a rule without "salience" or "desc" inherits them from its
// predecessor instead of getting the defaults.
func ruleJSN8(c *Ctx) {
	p := c.P
	n := 0
	for _, name := range []string{"ParseJSONRule", "ParseJSONRuleset", "ParseRule"} {
		root := p.Func("pkg", name)
		if root == nil {
			c.AnchorLost("pkg." + name)
			continue
		}
		for fn := range c.reachableModuleFuncs([]*ssa.Function{root}, false) {
			loops := naturalLoops(fn)
			for _, ci := range callsIn(fn) {
				cn := calleeName(ci)
				in := ci.(ssa.Instruction)
				args := ci.Common().Args
				var target ssa.Value
				if cn == "encoding/json.Unmarshal" || cn == "(*encoding/json.Decoder).Decode" {
					target = args[len(args)-1]
				} else if idx := decodeHelperParam(ci.Common().StaticCallee()); idx >= 0 && idx < len(args) {
					// a helper of the module that hands its parameter to the decoder: the call of the helper is the decode site
					target = args[idx]
					cn = fnName(ci.Common().StaticCallee())
				} else {
					continue
				}
				if mi, ok := target.(*ssa.MakeInterface); ok {
					target = mi.X
				}
				if _, isPrm := unspill(target).(*ssa.Parameter); isPrm && decodeHelperParam(fn) >= 0 {
					continue // inside the helper itself: judged at its call sites
				}
				n++
				construct := fmt.Sprintf("%s / %s decodes into a fresh value", fnName(fn), cn)
				l := innermostLoopOf(loops, in.Block())
				if l == nil {
					c.OK(construct, p.InstrPos(in), "not in a loop: one decode per call")
					continue
				}
				al, isAlloc := target.(*ssa.Alloc)
				if !isAlloc {
					c.Undecided(construct, p.InstrPos(in), "decode inside a loop into something that is not a local variable")
					continue
				}
				if l.Blocks[al.Block()] {
					c.OK(construct, p.InstrPos(in), "the target is allocated in the loop body: fresh per iteration")
					continue
				}
				// reused variable: accepted only when it is reset to its zero value inside the loop before the decode
				reset := false
				for _, r := range *al.Referrers() {
					if st, ok := r.(*ssa.Store); ok && st.Addr == ssa.Value(al) && l.Blocks[st.Block()] && isZeroValue(st.Val) && st.Block().Dominates(in.Block()) {
						reset = true
					}
				}
				c.Check(reset, construct, p.InstrPos(in), "the reused target is zeroed before each decode", "the decode target is declared outside the loop and reused: fields absent from one rule object (salience, desc, ...) keep the values of the previous rule instead of their defaults")
			}
		}
	}
	if n == 0 {
		c.Fail("JSON rule decode sites", "-", "no json.Unmarshal / Decoder.Decode on the JSON rule path (anchor lost)")
	}
}

func init() {
	register("JSN-9", "a plain-string condition or action is echoed as written (only a terminating `;` may be appended)", 2, ruleJSN9)
}

// JSN-9: the format promises that a plain string is raw input echoed into the rule. Any processing of it (splitting on
// `;`, trimming, case folding) is blind to string literals inside it and changes what the rule says.
func ruleJSN9(c *Ctx) {
	p := c.P
	for _, name := range []string{"parseThen", "parseWhen"} {
		fn := p.Func("pkg", name)
		if fn == nil {
			c.AnchorLost("pkg." + name)
			continue
		}
		n := 0
		bad := ""
		for _, b := range fn.Blocks {
			for _, in := range b.Instrs {
				ta, ok := in.(*ssa.TypeAssert)
				if !ok || !isString(ta.AssertedType) {
					continue
				}
				n++
				var str ssa.Value = ta
				if ta.CommaOk {
					for _, r := range *ta.Referrers() {
						if ex, ok := r.(*ssa.Extract); ok && ex.Index == 0 {
							str = ex
						}
					}
				}
				seen := map[ssa.Value]bool{}
				var follow func(v ssa.Value, d int)
				follow = func(v ssa.Value, d int) {
					if seen[v] || d > 8 || v.Referrers() == nil {
						return
					}
					seen[v] = true
					for _, r := range *v.Referrers() {
						switch x := r.(type) {
						case *ssa.BinOp:
							if x.Op == token.ADD {
								follow(x, d+1)
							}
						case *ssa.Phi:
							follow(x, d+1)
						case *ssa.Store:
							// element of the result slice or a local: follow loads of a local
							if al, ok := x.Addr.(*ssa.Alloc); ok {
								for _, rr := range *al.Referrers() {
									if ld, ok := rr.(*ssa.UnOp); ok && ld.Op == token.MUL {
										follow(ld, d+1)
									}
								}
							}
							if ia, ok := x.Addr.(*ssa.IndexAddr); ok {
								// later loads of the same element (thens[i] += ";")
								for _, rr := range *ia.X.Referrers() {
									if ia2, ok := rr.(*ssa.IndexAddr); ok {
										for _, r3 := range *ia2.Referrers() {
											if ld, ok := r3.(*ssa.UnOp); ok && ld.Op == token.MUL {
												follow(ld, d+1)
											}
										}
									}
								}
							}
						case *ssa.MakeInterface, *ssa.Return, *ssa.Extract, *ssa.Slice:
						case ssa.CallInstruction:
							cn := calleeName(x)
							if cn == "strings.HasSuffix" || cn == "len" {
								continue
							}
							if bi, ok := x.Common().Value.(*ssa.Builtin); ok && (bi.Name() == "len" || bi.Name() == "append") {
								continue
							}
							bad = "the plain string is passed through " + cn + " at " + p.InstrPos(x.(ssa.Instruction))
						}
					}
				}
				follow(str, 0)
			}
		}
		if n == 0 {
			c.Fail("pkg."+name+" / plain-string form", p.Pos(fn.Pos()), "no string case found (anchor lost)")
			continue
		}
		c.Check(bad == "", "pkg."+name+" / a plain string is echoed unchanged", p.Pos(fn.Pos()), "only concatenation (a terminating `;`) is applied", bad+": processing that does not know about string literals alters them (F.S = \"a;b\" split on the semicolon, a trimmed literal, ...)")
	}
}

// jsn4WholeInput: the JSON text is decoded as a whole. json.Unmarshal refuses anything after the first value;
// (*json.Decoder).Decode reads one value and leaves the rest unread, so `{rule}{rule}` or `{rule}]` would be accepted
// as its first rule. A Decode in the translator package has to be followed, on every path to a success return, by a
// look at what is left (Token, another Decode or Buffered on the same decoder; More() answers false before a stray `]`).
func jsn4WholeInput(c *Ctx) {
	p := c.P
	nUnmarshal, nDecode := 0, 0
	for _, fn := range p.ModuleFuncs() {
		if fnPkgShort(fn) != "pkg" || fn.Blocks == nil {
			continue
		}
		for _, ci := range callsIn(fn) {
			callee := ci.Common().StaticCallee()
			if callee == nil || callee.Pkg == nil || callee.Pkg.Pkg.Path() != "encoding/json" {
				continue
			}
			if publicName(callee) == "Unmarshal" {
				nUnmarshal++
				continue
			}
			if publicName(callee) != "Decode" || len(ci.Common().Args) < 1 {
				continue
			}
			nDecode++
			dec := ci.Common().Args[0]
			t, path := reach(fn, ci.(ssa.Instruction), func(in ssa.Instruction) bool {
				r, ok := in.(*ssa.Return)
				return ok && !returnsNonNilError(r)
			}, func(in ssa.Instruction) bool {
				c2, ok := in.(ssa.CallInstruction)
				if !ok || c2.Common().StaticCallee() == nil || len(c2.Common().Args) < 1 || c2.Common().Args[0] != dec {
					return false
				}
				switch c2.Common().StaticCallee().Name() {
				case "Token", "Decode", "Buffered": // More() answers false before a stray `]` or `}`
					return true
				}
				return false
			}, nil)
			c.Touch(fnName(fn))
			if t != nil {
				c.Fail(fnName(fn)+" / a streaming decode is followed by a look at the rest of the input", p.InstrPos(ci), "(*json.Decoder).Decode reads one value and ignores what follows: several rule objects back to back, or a rule followed by a stray `]`, are accepted as the first rule alone instead of being rejected as malformed", pathString(p, path)...)
			} else {
				c.OK(fnName(fn)+" / a streaming decode is followed by a look at the rest of the input", p.InstrPos(ci), "Token/Decode/Buffered on the same decoder on every path to a success return")
			}
		}
	}
	c.Check(nUnmarshal+nDecode > 0, "pkg / JSON texts are decoded as a whole", "pkg/JsonResource.go", fmt.Sprintf("%d json.Unmarshal (refuses trailing data), %d streaming decodes examined", nUnmarshal, nDecode), "no JSON decoding call found in the translator package")
}

// jsn3Digits (D28b, D36): a number written as an integer in the JSON text keeps its digits. encoding/json decodes a number
// into float64 unless the decoder is told to keep the text (UseNumber), and from 2^53 on a float64 is another integer
// than the one written (an identifier compared with ==, a modulus). So (a) every decode of a JSON rule text happens on a
// decoder on which UseNumber was called before, and json.Unmarshal is not used for it; (b) in a function that formats a
// json.Number, the conversion to float64 happens only behind the failure edge of strconv.ParseInt on the number's
// text, and what is returned where ParseInt succeeded is its result written by FormatInt, or the text itself.
func jsn3Digits(c *Ctx, fns []*ssa.Function) {
	p := c.P
	seen := map[*ssa.Function]bool{}
	nDecode, nFormat := 0, 0
	isJSONNumber := func(t types.Type) bool { return isNamed(t, "encoding/json", "Number") }
	for _, fn := range fns {
		if seen[fn] || fn.Blocks == nil {
			continue
		}
		seen[fn] = true
		for _, ci := range callsIn(fn) {
			name := calleeName(ci)
			switch name {
			case "encoding/json.Unmarshal":
				nDecode++
				c.Fail(fnName(fn)+" / the rule text is decoded with its numbers kept as written", p.InstrPos(ci.(ssa.Instruction)), "json.Unmarshal decodes numbers into float64: {\"eq\":[\"A.ID\",1541815603606036481]} is translated to another integer (or, with the magnitude bound of the formatter, to a float literal that also matches the neighbouring ids). Decode with a json.Decoder after UseNumber()")
			case "(*encoding/json.Decoder).Decode":
				nDecode++
				dec := ci.Common().Args[0]
				kept := false
				for _, c2 := range callsIn(fn) {
					if calleeName(c2) == "(*encoding/json.Decoder).UseNumber" && c2.Common().Args[0] == dec {
						i2, i1 := c2.(ssa.Instruction), ci.(ssa.Instruction)
						if (i2.Block() == i1.Block() && instrIndex(i2) < instrIndex(i1)) || (i2.Block() != i1.Block() && i2.Block().Dominates(i1.Block())) {
							kept = true
						}
					}
				}
				c.Check(kept, fnName(fn)+" / the rule text is decoded with its numbers kept as written", p.InstrPos(ci.(ssa.Instruction)), "UseNumber() on the same decoder before Decode", "the decoder turns numbers into float64 (no UseNumber before Decode): integers beyond 2^53 lose their digits before the translator sees them")
			}
		}
		// (b) formatters of json.Number
		var num *ssa.Parameter
		for _, prm := range fn.Params {
			if isJSONNumber(prm.Type()) {
				num = prm
			}
		}
		if num == nil {
			continue
		}
		nFormat++
		textOf := func(v ssa.Value) bool { // the number's text: number.String() or string(number)
			v = unspill(v)
			if call, ok := v.(*ssa.Call); ok && calleeName(call) == "(encoding/json.Number).String" && len(call.Call.Args) == 1 && unspill(call.Call.Args[0]) == ssa.Value(num) {
				return true
			}
			if cv, ok := v.(*ssa.ChangeType); ok && unspill(cv.X) == ssa.Value(num) {
				return true
			}
			if cv, ok := v.(*ssa.Convert); ok && unspill(cv.X) == ssa.Value(num) {
				return true
			}
			return false
		}
		var parse *ssa.Call
		for _, ci := range callsIn(fn) {
			if call, ok := ci.(*ssa.Call); ok && calleeName(call) == "strconv.ParseInt" && textOf(call.Call.Args[0]) {
				if b, okb := constInt(call.Call.Args[2]); okb && b == 64 {
					parse = call
				}
			}
		}
		construct := fnName(fn) + " / a number written as an integer keeps its digits"
		if parse == nil {
			c.Fail(construct, p.Pos(fn.Pos()), "the text of the json.Number is not tried as a 64-bit integer (strconv.ParseInt(text, _, 64)) before anything else: every number goes through float64 and integers beyond 2^53 come out as other integers")
			continue
		}
		errVals := resultValues(parse, 1)
		failedEdge := func(b *ssa.BasicBlock, si int) bool {
			iff, isIf := b.Instrs[len(b.Instrs)-1].(*ssa.If)
			if !isIf {
				return false
			}
			kind, sNil, ok := condOn(iff.Cond, func(x ssa.Value) bool {
				for _, e := range errVals {
					if x == e {
						return true
					}
				}
				return false
			})
			return ok && kind == "nil" && si == 1-sNil
		}
		bad := ""
		for _, ci := range callsIn(fn) {
			name := calleeName(ci)
			toFloat := name == "(encoding/json.Number).Float64" || (name == "strconv.ParseFloat" && textOf(ci.Common().Args[0]))
			if toFloat && !edgesDominate(fn, ci.(ssa.Instruction), failedEdge) {
				bad = "the number is converted to float64 at " + p.InstrPos(ci.(ssa.Instruction)) + " on a path on which ParseInt did not fail"
			}
		}
		// where ParseInt succeeded the result is its value (FormatInt) or the text
		okEdge := func(b *ssa.BasicBlock, si int) bool { return failedEdge(b, 1-si) && len(b.Succs) == 2 }
		_ = okEdge
		for _, r := range returnsOf(fn) {
			if returnsNonNilError(r) || len(r.Results) == 0 {
				continue
			}
			if edgesDominate(fn, r, failedEdge) {
				continue // the float side, policed by the magnitude clause above
			}
			res := unspill(r.Results[0])
			good := textOf(res)
			if call, ok := res.(*ssa.Call); ok && calleeName(call) == "strconv.FormatInt" {
				for _, v := range resultValues(parse, 0) {
					if call.Call.Args[0] == v {
						good = true
					}
				}
			}
			if !good && bad == "" {
				bad = "where ParseInt succeeded the literal returned at " + p.InstrPos(r) + " is neither strconv.FormatInt of its result nor the number's text"
			}
		}
		c.Check(bad == "", construct, p.InstrPos(parse), "float64 only behind the failure edge of ParseInt(text, _, 64); its result written by FormatInt", bad+": {\"eq\":[\"A.ID\",1541815603606036481]} would be translated to A.ID == 1541815603606036500 or to a float literal that matches the neighbouring ids as well")
	}
	c.Check(nDecode > 0 && nFormat > 0, "pkg / JSON numbers: decode sites and formatters of json.Number examined", "pkg/JsonResource.go", fmt.Sprintf("%d decode sites, %d formatters", nDecode, nFormat), fmt.Sprintf("%d decode sites and %d functions formatting a json.Number on the translation path: numbers of a JSON text reach the translator as float64", nDecode, nFormat))
}

// decodeHelperParam: f is a module function that hands one of its parameters to json.Unmarshal / Decoder.Decode as the
// target; returns the parameter's index (-1 otherwise).
func decodeHelperParam(f *ssa.Function) int {
	if f == nil || f.Blocks == nil || !fnInModule(f) {
		return -1
	}
	for _, ci := range callsIn(f) {
		cn := calleeName(ci)
		if cn != "encoding/json.Unmarshal" && cn != "(*encoding/json.Decoder).Decode" {
			continue
		}
		args := ci.Common().Args
		t := args[len(args)-1]
		if mi, ok := t.(*ssa.MakeInterface); ok {
			t = mi.X
		}
		if prm, ok := unspill(t).(*ssa.Parameter); ok {
			for i, fp := range f.Params {
				if fp == prm {
					return i
				}
			}
		}
	}
	return -1
}

// jsn4OperandKinds (D37): the format lets a plain string, number or boolean stand wherever a condition object is
// expected. The operands of the comparison and arithmetic operators go through parseOperand, which accepts them; the
// translator of and/or has its own loop over the operands and has to agree with its siblings: an operand that is no
// object is handed to parseOperand, not refused.
func jsn4OperandKinds(c *Ctx) {
	p := c.P
	fn := p.Func("pkg", "buildCompoundOperator")
	po := p.Func("pkg", "parseOperand")
	if fn == nil || po == nil {
		c.AnchorLost("pkg.buildCompoundOperator / pkg.parseOperand")
		return
	}
	construct := "buildCompoundOperator / an operand that is no object is translated like the operand of any other operator"
	n := 0
	for _, b := range fn.Blocks {
		for _, in := range b.Instrs {
			ta, ok := in.(*ssa.TypeAssert)
			if !ok || !ta.CommaOk {
				continue
			}
			if _, isMap := ta.AssertedType.Underlying().(*types.Map); !isMap {
				continue
			}
			// the asserted value is an element of the operand array (not the array itself)
			if _, isLoadOfElem := unspill(ta.X).(*ssa.UnOp); !isLoadOfElem {
				continue
			}
			// the If on the ok flag
			var iff *ssa.If
			for _, r := range *ta.Referrers() {
				if ex, isEx := r.(*ssa.Extract); isEx && ex.Index == 1 {
					for _, r2 := range *ex.Referrers() {
						if i2, isIf := r2.(*ssa.If); isIf {
							iff = i2
						}
					}
				}
			}
			if iff == nil {
				continue
			}
			n++
			t, path := reach(fn, iff, func(x ssa.Instruction) bool { _, isRet := x.(*ssa.Return); return isRet }, func(x ssa.Instruction) bool {
				call, isCall := x.(ssa.CallInstruction)
				return isCall && call.Common().StaticCallee() == po && len(call.Common().Args) > 0 && sameElem(call.Common().Args[0], ta.X)
			}, func(bb *ssa.BasicBlock, si int) bool { return bb != iff.Block() || si == 1 })
			if t != nil {
				c.Fail(construct, p.InstrPos(ta), "an `and`/`or` operand that is a plain string, number or boolean is refused (or dropped) although the format allows it wherever a condition object is expected and every other operator accepts it: {\"and\":[\"F.A == 0\",{\"eq\":[…]}]} is a valid rule that cannot be loaded", pathString(p, path)...)
			} else {
				c.OK(construct, p.InstrPos(ta), "the not-an-object edge leads to parseOperand(operand) on every path")
			}
		}
	}
	if n == 0 {
		c.Fail(construct, p.Pos(fn.Pos()), "no object test of an operand found in buildCompoundOperator (anchor lost)")
	}
}

// sameElem: two loads of the same element address (go/ssa has no CSE).
func sameElem(a, b ssa.Value) bool {
	a, b = unspill(a), unspill(b)
	if a == b {
		return true
	}
	ua, ok1 := a.(*ssa.UnOp)
	ub, ok2 := b.(*ssa.UnOp)
	if !ok1 || !ok2 {
		return false
	}
	if ua.X == ub.X {
		return true
	}
	ia, ok1 := ua.X.(*ssa.IndexAddr)
	ib, ok2 := ub.X.(*ssa.IndexAddr)
	return ok1 && ok2 && ia.X == ib.X && ia.Index == ib.Index
}

// jsn2TextOperandOfCompound (D37b): an and/or operand that is a plain string is a condition of its own and is grouped
// like a nested object: what is appended to the operand list on the "is a string" edge is "(" + text + ")". Pasted raw,
// `F.A || F.B` inside an `and` re-associates with its neighbours (A || (B && C)).
func jsn2TextOperandOfCompound(c *Ctx) {
	p := c.P
	fn := p.Func("pkg", "buildCompoundOperator")
	po := p.Func("pkg", "parseOperand")
	if fn == nil || po == nil {
		c.AnchorLost("pkg.buildCompoundOperator / pkg.parseOperand")
		return
	}
	construct := "buildCompoundOperator / a string operand is bracketed"
	// does the function take plain operands at all (D37)? if not, there is nothing to bracket
	var poCall *ssa.Call
	for _, ci := range callsIn(fn) {
		if call, ok := ci.(*ssa.Call); ok && call.Call.StaticCallee() == po {
			poCall = call
		}
	}
	if poCall == nil {
		c.OK(construct, p.Pos(fn.Pos()), "no plain operands are taken here")
		return
	}
	operand := resultValues(poCall, 0)
	// the values appended to the operand list that derive from parseOperand's result
	ok, found := true, 0
	for _, ci := range callsIn(fn) {
		bi, isB := ci.Common().Value.(*ssa.Builtin)
		if !isB || bi.Name() != "append" || len(ci.Common().Args) != 2 {
			continue
		}
		for _, el := range varargElems(ci.Common().Args[1]) {
			var ls []ssa.Value
			var leaves func(v ssa.Value, seen map[ssa.Value]bool)
			leaves = func(v ssa.Value, seen map[ssa.Value]bool) {
				v = unspill(v)
				if seen[v] {
					return
				}
				seen[v] = true
				if ph, isPhi := v.(*ssa.Phi); isPhi {
					for _, e := range ph.Edges {
						leaves(e, seen)
					}
					return
				}
				ls = append(ls, v)
			}
			leaves(el, map[ssa.Value]bool{})
			fromOperand := func(v ssa.Value) bool {
				for _, o := range operand {
					if v == o {
						return true
					}
				}
				return false
			}
			relevant := false
			for _, l := range ls {
				if fromOperand(l) || wrapped(l, fromOperand) {
					relevant = true
				}
			}
			if !relevant {
				continue
			}
			found++
			// some leaf must be the bracketed form, and the raw form may only arrive from the "not a string" side
			hasWrapped := false
			for _, l := range ls {
				if wrapped(l, fromOperand) {
					hasWrapped = true
				}
			}
			if !hasWrapped {
				ok = false
			}
		}
	}
	// the bracketed form is chosen on the string edge: a type assertion of the operand to string decides
	hasStringTest := false
	for _, b := range fn.Blocks {
		for _, in := range b.Instrs {
			if ta, isTA := in.(*ssa.TypeAssert); isTA && ta.CommaOk {
				if bt, isBasic := ta.AssertedType.Underlying().(*types.Basic); isBasic && bt.Kind() == types.String {
					hasStringTest = true
				}
			}
		}
	}
	c.Check(ok && found >= 1 && hasStringTest, construct, p.InstrPos(poCall), "\"(\" + operand + \")\" on the string edge", "a plain-string operand of and/or is pasted into the condition as it is: {\"and\":[\"F.A == 1 || F.B == 1\",\"F.C == 1\"]} becomes F.A == 1 || F.B == 1 && F.C == 1, which GRL reads as A || (B && C), while the same condition written with a nested or-object is grouped (A || B) && C")
}
