package main

import (
	"fmt"
	"go/token"
	"go/types"
	"sort"
	"strings"

	"golang.org/x/tools/go/ssa"
)

func init() {
	register("ENG-10", "completion is checked after every firing and before any further evaluation", 4, ruleENG10)
	register("ENG-11", "cancellation check points and error identity", 6, ruleENG11)
	register("ENG-12", "action failure ends the run with a wrapped error naming the rule", 1, ruleENG12)
	register("ENG-13", "condition failure: error returned under the flag, otherwise not a candidate", 2, ruleENG13)
	register("ENG-14", "matching executes nothing and is ordered by salience descending", 7, ruleENG14)
	register("ENG-15", "Retract effect", 2, ruleENG15)
}

// varargElems returns the elements of a varargs slice built from an array literal, in index order.
func varargElems(v ssa.Value) []ssa.Value {
	sl, ok := v.(*ssa.Slice)
	if !ok {
		if c, ok := v.(*ssa.Const); ok && c.Value == nil {
			return []ssa.Value{}
		}
		return nil
	}
	al, ok := sl.X.(*ssa.Alloc)
	if !ok {
		return nil
	}
	m := map[int64]ssa.Value{}
	for _, r := range *al.Referrers() {
		if ia, ok := r.(*ssa.IndexAddr); ok {
			k, ok := constInt(ia.Index)
			if !ok {
				return nil
			}
			for _, rr := range *ia.Referrers() {
				if st, ok := rr.(*ssa.Store); ok {
					m[k] = st.Val
				}
			}
		}
	}
	out := make([]ssa.Value, len(m))
	for k, v := range m {
		if int(k) >= len(out) {
			return nil
		}
		out[k] = v
	}
	return out
}

// fmtVerbs lists the verbs of a format string in order (without flags/width), skipping %%.
func fmtVerbs(format string) []byte {
	var out []byte
	for i := 0; i < len(format); i++ {
		if format[i] != '%' {
			continue
		}
		i++
		for i < len(format) && strings.IndexByte("+-# 0123456789.*[]", format[i]) >= 0 {
			i++
		}
		if i < len(format) {
			if format[i] != '%' {
				out = append(out, format[i])
			}
		}
	}
	return out
}

// errorfInfo decodes a fmt.Errorf call: format verbs and the operand bound to each.
func errorfInfo(call *ssa.Call) (verbs []byte, ops []ssa.Value, ok bool) {
	if !matchPkgFunc("fmt", "Errorf")(call) || len(call.Call.Args) != 2 {
		return nil, nil, false
	}
	f, isStr := constString(call.Call.Args[0])
	if !isStr {
		return nil, nil, false
	}
	ops = varargElems(call.Call.Args[1])
	if ops == nil {
		return nil, nil, false
	}
	return fmtVerbs(f), ops, true
}

// errorfWraps: call is fmt.Errorf binding an operand satisfying pred with %w.
func errorfWraps(v ssa.Value, pred func(ssa.Value) bool) bool {
	call, ok := v.(*ssa.Call)
	if !ok {
		return false
	}
	verbs, ops, ok := errorfInfo(call)
	if !ok {
		return false
	}
	for i, vb := range verbs {
		if vb == 'w' && i < len(ops) && pred(stripConv(ops[i])) {
			return true
		}
	}
	return false
}

// errorfMentions: some operand of the fmt.Errorf call satisfies pred.
func errorfMentions(v ssa.Value, pred func(ssa.Value) bool) bool {
	call, ok := v.(*ssa.Call)
	if !ok {
		return false
	}
	verbs, ops, ok := errorfInfo(call)
	if !ok {
		return false
	}
	for i := range verbs {
		if i < len(ops) && pred(stripConv(ops[i])) {
			return true
		}
	}
	return false
}

func ruleENG10(c *Ctx) {
	p := c.P
	a := c.eng()
	fn, outer, _, _ := c.engineCycleLoop()
	if fn == nil || outer == nil {
		c.AnchorLost("cycle loop of ExecuteWithContext")
		return
	}
	var dc *ssa.Parameter
	for _, prm := range fn.Params {
		if isNamed(prm.Type(), fullPkg("ast"), "IDataContext") {
			dc = prm
		}
	}
	execs := findCalls(fn, a.isExec)
	if len(execs) != 1 {
		c.Fail("ExecuteWithContext / firing site", p.Pos(fn.Pos()), "expected one firing site")
		return
	}
	ex := execs[0]
	q := &AQuery{Fn: fn, From: ex.(ssa.Instruction), Designated: resultValues(ex, 0), Assume: AssumeNil,
		IsTarget: func(in ssa.Instruction, st *AState) bool {
			ci, ok := in.(ssa.CallInstruction)
			return ok && (a.isEval(ci) || a.isExec(ci))
		},
		ExtraEdge: func(b *ssa.BasicBlock, si int, st *AState) bool {
			iff, ok := b.Instrs[len(b.Instrs)-1].(*ssa.If)
			if !ok {
				return true
			}
			kind, sTrue, okc := condOn(iff.Cond, func(v ssa.Value) bool { return isCallOn(v, "IsComplete", dc) })
			if okc && kind == "bool" && si == 1-sTrue {
				return false // passing the not-complete edge is what we require
			}
			return true
		},
	}
	r := q.Run()
	if r.Found != nil {
		c.Fail("ExecuteWithContext / completion checked between a firing and the next evaluation", p.InstrPos(ex), "after a successful firing another rule can be evaluated/fired at "+p.InstrPos(r.Found)+" without passing the not-complete edge of dataCtx.IsComplete()", pathString(p, r.Path)...)
	} else {
		c.OK("ExecuteWithContext / completion checked between a firing and the next evaluation", p.InstrPos(ex), "every path from the firing's success edge to an evaluation passes !IsComplete()")
	}
	// DataContext.Complete stores true to the field IsComplete returns
	cm := p.Method("ast", "DataContext", "Complete")
	ic := p.Method("ast", "DataContext", "IsComplete")
	okC := false
	if cm != nil && ic != nil {
		rets := returnsOf(ic)
		if len(rets) == 1 && len(rets[0].Results) == 1 {
			f, base := fieldLoad(rets[0].Results[0])
			if f != nil && base == ssa.Value(receiver(ic)) {
				for _, b := range cm.Blocks {
					for _, in := range b.Instrs {
						sf, sb, val := fieldStore(in)
						if sf == f && sb == ssa.Value(receiver(cm)) {
							if bv, isb := constBool(val); isb && bv {
								t, _ := reach(cm, nil, func(x ssa.Instruction) bool { _, r := x.(*ssa.Return); return r }, func(x ssa.Instruction) bool { return x == in }, nil)
								okC = t == nil
							}
						}
					}
				}
			}
		}
	}
	c.Check(okC, "DataContext.Complete sets what IsComplete returns", "-", "Complete stores true to the field returned by IsComplete on every path", "DataContext.Complete does not (always) set the flag that IsComplete returns")
	// nothing else on the execution call tree writes that flag (a top-level assignment is implemented as DataContext.Add:
	// if Add cleared the flag, `Complete(); Total = Total + 1;` would resume the run)
	if cm != nil && ic != nil {
		rets := returnsOf(ic)
		if len(rets) == 1 && len(rets[0].Results) == 1 {
			if flag, _ := fieldLoad(rets[0].Results[0]); flag != nil {
				var bad []string
				for f := range c.reachableModuleFuncs([]*ssa.Function{fn}, true) {
					if f == cm {
						continue
					}
					for _, b := range f.Blocks {
						for _, in := range b.Instrs {
							if sf, base, _ := fieldStore(in); sf == flag {
								if _, fresh := base.(*ssa.Alloc); fresh {
									continue
								}
								bad = append(bad, fnName(f)+" at "+p.InstrPos(in))
							}
						}
					}
				}
				sort.Strings(bad)
				c.Check(len(bad) == 0, "completion flag is written only by DataContext.Complete during a run", "-", "no other store reachable from ExecuteWithContext", "the completion flag is also written by "+strings.Join(bad, "; ")+": an action after Complete() (e.g. a top-level assignment, which goes through DataContext.Add) can clear it and the run goes on firing")
			}
		}
	}
	// BuiltInFunctions.Complete calls it on gf.DataContext
	bc := p.Method("ast", "BuiltInFunctions", "Complete")
	okB := false
	if bc != nil {
		for _, ci := range findCalls(bc, matchNamedMethod(fullPkg("ast"), "IDataContext", "Complete")) {
			f, base := fieldLoad(ci.Common().Value)
			if f == p.Field("ast", "BuiltInFunctions", "DataContext") && base == ssa.Value(receiver(bc)) {
				t, _ := reach(bc, nil, func(x ssa.Instruction) bool { _, r := x.(*ssa.Return); return r }, func(x ssa.Instruction) bool { return x == ci.(ssa.Instruction) }, nil)
				okB = t == nil
			}
		}
	}
	c.Check(okB, "BuiltInFunctions.Complete forwards to the bound data context", "-", "must-call gf.DataContext.Complete()", "the Complete() built-in does not complete the data context bound to this call")
	// nothing on the call tree of RuleEntry.Execute consults IsComplete (remaining actions still run)
	bad := ""
	for f := range c.reachableModuleFuncs([]*ssa.Function{a.reExec}, true) {
		for _, ci := range callsIn(f) {
			if calleeNameIs(ci, "IsComplete") {
				bad = fnName(f) + " at " + p.InstrPos(ci)
			}
		}
	}
	c.Check(bad == "", "call tree of RuleEntry.Execute does not consult IsComplete", "-", "remaining actions of the firing rule are not cut short", "completion is consulted inside the action list ("+bad+"): remaining actions of the current rule may be skipped")
}

// ctxParam finds the context.Context parameter.
func ctxParam(fn *ssa.Function) *ssa.Parameter {
	for _, prm := range fn.Params {
		if isNamed(prm.Type(), "context", "Context") {
			return prm
		}
	}
	return nil
}

func isCtxErrCall(v ssa.Value, ctx ssa.Value) bool {
	call, ok := v.(*ssa.Call)
	return ok && call.Call.IsInvoke() && call.Call.Method.Name() == "Err" && unspill(call.Call.Value) == ctx
}

// ctxGuardEdge: edge (b,si) is the "ctx.Err() == nil" edge of a test on ctx.
// ctxTest recognises a cancellation test of ctx at the end of block b and returns the successor index taken when the
// context is NOT cancelled. Idioms: `ctx.Err() != nil` / `== nil`, and the non-blocking
// `select { case <-ctx.Done(): ... default: ... }`.
func ctxTest(b *ssa.BasicBlock, ctx ssa.Value) (bool, int) {
	iff, ok := b.Instrs[len(b.Instrs)-1].(*ssa.If)
	if !ok {
		return false, 0
	}
	if kind, sNil, okc := condOn(iff.Cond, func(v ssa.Value) bool { return isCtxErrCall(v, ctx) }); okc && kind == "nil" {
		return true, sNil
	}
	// select: idx := extract(select nonblocking [<-ctx.Done()]) #0 ; idx == 0 -> cancelled
	if bo, ok := iff.Cond.(*ssa.BinOp); ok && (bo.Op == token.EQL || bo.Op == token.NEQ) {
		if ex, ok := bo.X.(*ssa.Extract); ok && ex.Index == 0 {
			if sel, ok := ex.Tuple.(*ssa.Select); ok && !sel.Blocking && len(sel.States) == 1 {
				if k, okk := constInt(bo.Y); okk && k == 0 {
					if call, ok := sel.States[0].Chan.(*ssa.Call); ok && call.Call.IsInvoke() && call.Call.Method.Name() == "Done" && unspill(call.Call.Value) == ctx {
						if bo.Op == token.EQL {
							return true, 1
						}
						return true, 0
					}
				}
			}
		}
	}
	return false, 0
}

func ctxGuardEdge(b *ssa.BasicBlock, si int, ctx ssa.Value, within *Loop) bool {
	if within != nil && !within.Blocks[b] {
		return false
	}
	ok, sNot := ctxTest(b, ctx)
	return ok && si == sNot
}

func ruleENG11(c *Ctx) {
	p := c.P
	a := c.eng()
	fn, outer, inner, loops := c.engineCycleLoop()
	if fn == nil || outer == nil || inner == nil {
		c.AnchorLost("cycle loop of ExecuteWithContext")
		return
	}
	ctx := ctxParam(fn)
	if ctx == nil {
		c.AnchorLost("context parameter of ExecuteWithContext")
		return
	}
	evals := findCalls(fn, a.isEval)
	execs := findCalls(fn, a.isExec)
	if len(evals) != 1 || len(execs) != 1 {
		c.Fail("ExecuteWithContext / sites", p.Pos(fn.Pos()), "expected one Evaluate and one Execute site")
		return
	}
	// (i) a check inside the cycle loop (outside the rule loop) dominating the cycle's work
	okI := edgesDominate(fn, inner.Header.Instrs[0], func(b *ssa.BasicBlock, si int) bool {
		return ctxGuardEdge(b, si, ctx, outer) && !inner.Blocks[b]
	})
	c.Check(okI, "ExecuteWithContext / ctx checked at the start of every cycle", p.InstrPos(outer.Header.Instrs[0]), "the rule loop is dominated by a ctx.Err()==nil edge inside the cycle loop", "a new cycle can start without checking the context: a cancelled run would go on evaluating and firing")
	// (ii) in the rule loop before each Evaluate
	okII := edgesDominate(fn, evals[0].(ssa.Instruction), func(b *ssa.BasicBlock, si int) bool { return ctxGuardEdge(b, si, ctx, inner) })
	c.Check(okII, "ExecuteWithContext / ctx checked before each evaluation", p.InstrPos(evals[0]), "Evaluate dominated by a ctx.Err()==nil edge inside the rule loop", "rules keep being evaluated after cancellation until the cycle ends")
	// the firing passes the cycle's own check as well (every path from loop header to Execute passes a ctx check in this iteration)
	okFire := edgesDominate(fn, execs[0].(ssa.Instruction), func(b *ssa.BasicBlock, si int) bool { return ctxGuardEdge(b, si, ctx, outer) })
	c.Check(okFire, "ExecuteWithContext / firing dominated by a ctx check of the same cycle", p.InstrPos(execs[0]), "dominated", "a rule can fire in a cycle that never checked the context")
	// (iii) after the conditions of the cycle (D42): a cancellation inside the last condition is reported as such. Whatever
	// the engine does with the conflict set - the cycle-limit error, telling the listeners of an execution, the firing -
	// is behind a context check made after the rule loop was left, i.e. a guard edge in the cycle loop outside the rule loop
	// that the exit of the rule loop dominates.
	afterConds := func(b *ssa.BasicBlock, si int) bool {
		if !ctxGuardEdge(b, si, ctx, outer) || inner.Blocks[b] {
			return false
		}
		for _, ex := range inner.Exits() {
			eb := ex[0].(*ssa.BasicBlock)
			if target := eb.Succs[ex[1].(int)]; eb == inner.Header && target.Dominates(b) {
				return true
			}
		}
		return false
	}
	okIII := edgesDominate(fn, execs[0].(ssa.Instruction), afterConds)
	late := ""
	if okIII {
		for _, b := range fn.Blocks {
			if !outer.Blocks[b] || inner.Blocks[b] {
				continue
			}
			for _, in := range b.Instrs {
				// other ways out of the cycle after the conditions: error returns built in the cycle loop (the budget)
				if r, isRet := in.(*ssa.Return); isRet && len(r.Results) == 1 && !isNilConst(r.Results[0]) {
					if okc, _ := ctxTest(dominatingIfBlock(b), ctx); okc {
						continue // the cancelled edge itself
					}
					reachedFromConds := false
					for _, ex := range inner.Exits() {
						eb := ex[0].(*ssa.BasicBlock)
						if eb == inner.Header && eb.Succs[ex[1].(int)].Dominates(b) {
							reachedFromConds = true
						}
					}
					if reachedFromConds && !edgesDominate(fn, in, afterConds) {
						late = "the error return at " + p.InstrPos(in)
					}
				}
			}
		}
	}
	c.Check(okIII && late == "", "ExecuteWithContext / ctx checked after the conditions of the cycle, before anything is done with the conflict set", p.InstrPos(execs[0]), "the firing and the error returns of the cycle are behind a ctx check that follows the rule loop", map[bool]string{true: late + " is reached after the conditions without a look at the context", false: "the firing is not behind a context check made after the rule loop"}[late != ""]+": a cancellation inside the last condition of a cycle is answered with the cycle-limit error when the budget runs out in the same cycle (MaxCycle 2, a condition that cancels in cycle 3), and the listeners are told of an execution that RuleEntry.Execute then refuses")
	// a cancellation that lands inside the last condition or the last action of the run is still reported: no nil
	// return is reachable from an evaluation or a firing without passing a context check
	for _, site := range []ssa.CallInstruction{evals[0], execs[0]} {
		t, path := reach(fn, site.(ssa.Instruction), func(in ssa.Instruction) bool {
			r, ok := in.(*ssa.Return)
			return ok && len(r.Results) == 1 && isNilConst(r.Results[0])
		}, func(in ssa.Instruction) bool {
			if _, isIf := in.(*ssa.If); !isIf {
				return false
			}
			okc, _ := ctxTest(in.Block(), ctx)
			return okc
		}, nil)
		construct := "ExecuteWithContext / nil is returned only after a ctx check that follows the last " + calleeName(site)[strings.LastIndex(calleeName(site), ".")+1:]
		if t == nil {
			c.OK(construct, p.InstrPos(site), "every path to the nil return passes a ctx.Err() test")
		} else {
			c.Fail(construct, p.InstrPos(site), "the nil return at "+p.InstrPos(t)+" is reachable without looking at the context again: a cancellation inside the last condition (nothing runnable afterwards) or inside an action that then completes the run is answered with nil instead of the context's error", pathString(p, path)...)
		}
	}
	// the evaluation context handed down is the caller's context
	c.Check(unspill(evals[0].Common().Args[1]) == ssa.Value(ctx) && unspill(execs[0].Common().Args[1]) == ssa.Value(ctx), "ExecuteWithContext / the caller's context is handed to Evaluate and Execute", p.InstrPos(evals[0]), "same ctx value", "RuleEntry.Evaluate/Execute receive a context other than the caller's (cancellation is not seen below the engine)")
	// non-nil edges return ctx.Err() (or %w of it)
	for b := range outer.Blocks {
		iff, ok := b.Instrs[len(b.Instrs)-1].(*ssa.If)
		if !ok {
			continue
		}
		okc, sNil := ctxTest(b, ctx)
		if !okc {
			continue
		}
		nb := b.Succs[1-sNil]
		okRet := false
		if onlyErrorReturns(nb, loops) {
			okRet = true
			seen := map[*ssa.BasicBlock]bool{}
			stack := []*ssa.BasicBlock{nb}
			for len(stack) > 0 {
				x := stack[len(stack)-1]
				stack = stack[:len(stack)-1]
				if seen[x] {
					continue
				}
				seen[x] = true
				if ret, ok := x.Instrs[len(x.Instrs)-1].(*ssa.Return); ok {
					v := ret.Results[len(ret.Results)-1]
					isCtxErr := func(y ssa.Value) bool { return isCtxErrCall(y, ctx) }
					if !(isCtxErr(v) || errorfWraps(v, isCtxErr)) {
						okRet = false
					}
				}
				stack = append(stack, x.Succs...)
			}
		}
		c.Check(okRet, "ExecuteWithContext / cancelled edge returns the context's own error", p.InstrPos(iff), "returns ctx.Err() (or wraps it with %w)", "on cancellation the engine does not return the context's error (errors.Is(err, ctx.Err()) would fail) or keeps running")
	}
	// (iii)/(iv) RuleEntry.Evaluate / Execute
	for _, pr := range []struct {
		fn    *ssa.Function
		inner Matcher
		name  string
	}{
		{a.reEval, matchNamedMethod(fullPkg("ast"), "WhenScope", "Evaluate"), "RuleEntry.Evaluate"},
		{a.reExec, matchNamedMethod(fullPkg("ast"), "ThenScope", "Execute"), "RuleEntry.Execute"},
	} {
		if pr.fn == nil {
			c.AnchorLost(pr.name)
			continue
		}
		rctx := ctxParam(pr.fn)
		calls := findCalls(pr.fn, pr.inner)
		if rctx == nil || len(calls) == 0 {
			c.Fail(pr.name+" / ctx checked before the scope runs", p.Pos(pr.fn.Pos()), "no context parameter or no scope call (anchor lost)")
			continue
		}
		for _, ci := range calls {
			ok := edgesDominate(pr.fn, ci.(ssa.Instruction), func(b *ssa.BasicBlock, si int) bool { return ctxGuardEdge(b, si, rctx, nil) })
			c.Check(ok, pr.name+" / ctx checked before the scope runs", p.InstrPos(ci), "dominated by ctx.Err()==nil", "the scope can run although the context is already cancelled")
		}
		// the cancelled edge returns an error wrapping ctx.Err() with %w
		for _, b := range pr.fn.Blocks {
			iff, ok := b.Instrs[len(b.Instrs)-1].(*ssa.If)
			if !ok {
				continue
			}
			okc, sNil := ctxTest(b, rctx)
			if !okc {
				continue
			}
			nb := b.Succs[1-sNil]
			okW := false
			if ret, ok := nb.Instrs[len(nb.Instrs)-1].(*ssa.Return); ok {
				v := ret.Results[len(ret.Results)-1]
				if u, ok := v.(*ssa.UnOp); ok {
					if al, ok := u.X.(*ssa.Alloc); ok {
						for _, in := range nb.Instrs {
							if st, ok := in.(*ssa.Store); ok && st.Addr == ssa.Value(al) {
								v = st.Val
							}
						}
					}
				}
				isCtxErr := func(y ssa.Value) bool { return isCtxErrCall(y, rctx) }
				okW = isCtxErr(v) || errorfWraps(v, isCtxErr)
			}
			c.Check(okW, pr.name+" / cancelled edge wraps the context's error with %w", p.InstrPos(iff), "returns ctx.Err() wrapped with %w", "the error returned on cancellation does not carry the context's error (wrapped with %v/%s instead of %w, or replaced)")
		}
	}
	// engine's wrap of the action error uses %w
	ex := execs[0]
	errv := resultValues(ex, 0)
	okWrap := false
	for _, b := range fn.Blocks {
		if ret, ok := b.Instrs[len(b.Instrs)-1].(*ssa.Return); ok {
			v := ret.Results[len(ret.Results)-1]
			if errorfWraps(v, func(y ssa.Value) bool {
				for _, e := range errv {
					if y == e {
						return true
					}
				}
				return false
			}) {
				okWrap = true
			}
		}
	}
	c.Check(okWrap, "ExecuteWithContext / action error is wrapped with %w", p.InstrPos(ex), "fmt.Errorf(... %w ..., err)", "the engine does not wrap the action's error with %w: a context error raised inside RuleEntry.Execute is no longer recognisable")
}

func ruleENG12(c *Ctx) {
	p := c.P
	a := c.eng()
	fn := a.exec
	if fn == nil {
		c.AnchorLost("ExecuteWithContext")
		return
	}
	for _, ex := range findCalls(fn, a.isExec) {
		errv := resultValues(ex, 0)
		runner := unspill(ex.Common().Args[0])
		var badRet *ssa.Return
		q := &AQuery{Fn: fn, From: ex.(ssa.Instruction), Designated: errv, Assume: AssumeNonNil,
			IsTarget: func(in ssa.Instruction, st *AState) bool {
				if ci, ok := in.(ssa.CallInstruction); ok && (a.isEval(ci) || a.isExec(ci)) {
					return true
				}
				if ret, ok := in.(*ssa.Return); ok {
					v := ret.Results[len(ret.Results)-1]
					wraps := errorfWraps(v, func(y ssa.Value) bool { return st.IsAlias(y) })
					names := errorfMentions(v, func(y ssa.Value) bool {
						f, base := fieldLoad(y)
						return f != nil && f.Name() == "RuleName" && base == runner
					})
					if !(wraps && names) {
						badRet = ret
						return true
					}
				}
				return false
			}}
		r := q.Run()
		construct := "ExecuteWithContext / failed action ends the run with %w-wrapped error naming the rule"
		switch {
		case r.Found != nil && badRet != nil && r.Found == ssa.Instruction(badRet):
			c.Fail(construct, p.InstrPos(ex), "after a failed action the engine returns at "+p.InstrPos(r.Found)+" something other than fmt.Errorf(... rule name ... %w err)", pathString(p, r.Path)...)
		case r.Found != nil:
			c.Fail(construct, p.InstrPos(ex), "after a failed action another rule is evaluated or fired at "+p.InstrPos(r.Found), pathString(p, r.Path)...)
		default:
			c.OK(construct, p.InstrPos(ex), "the error edge reaches only the wrapping return")
		}
	}
}

func ruleENG13(c *Ctx) {
	p := c.P
	a := c.eng()
	flag := p.Field("engine", "GruleEngine", "ReturnErrOnFailedRuleEvaluation")
	for _, ep := range []*ssa.Function{a.exec, a.fetch} {
		if ep == nil {
			c.AnchorLost("engine entry point")
			continue
		}
		for _, ev := range findCalls(ep, a.isEval) {
			errv := resultValues(ev, 1)
			construct := fnName(ep) + " / failed condition: returned under the flag, else falls through to the candidate test"
			// (1) there is an If on the flag, dominated by the error's non-nil edge, whose true edge returns the error
			okFlag := false
			for _, b := range ep.Blocks {
				iff, ok := b.Instrs[len(b.Instrs)-1].(*ssa.If)
				if !ok {
					continue
				}
				kind, sTrue, okc := condOn(iff.Cond, func(v ssa.Value) bool {
					f, base := fieldLoad(v)
					return f == flag && base == ssa.Value(receiver(ep))
				})
				if !okc || kind != "bool" {
					continue
				}
				tb := b.Succs[sTrue]
				if ret, ok := tb.Instrs[len(tb.Instrs)-1].(*ssa.Return); ok {
					v := ret.Results[len(ret.Results)-1]
					isErr := func(y ssa.Value) bool {
						for _, e := range errv {
							if y == e {
								return true
							}
						}
						return false
					}
					if (isErr(v) || errorfWraps(v, isErr)) && len(errv) > 0 && dominatedByNonNilTest(b, errv[0]) {
						okFlag = true
					}
				}
			}
			// (2) on the non-nil path, any return must carry the error; nil-returns are unreachable before the next loop iteration
			q := &AQuery{Fn: ep, From: ev.(ssa.Instruction), Designated: errv, Assume: AssumeNonNil,
				IsTarget: func(in ssa.Instruction, st *AState) bool {
					ret, ok := in.(*ssa.Return)
					if !ok {
						return false
					}
					v := ret.Results[len(ret.Results)-1]
					return !(st.IsAlias(v) || errorfWraps(v, func(y ssa.Value) bool { return st.IsAlias(y) }))
				},
				IsBlocker: func(in ssa.Instruction, st *AState) bool {
					// stop at the next evaluation (next iteration)
					ci, ok := in.(ssa.CallInstruction)
					return ok && a.isEval(ci)
				},
				ExtraEdge: func(b *ssa.BasicBlock, si int, st *AState) bool {
					// do not leave the rule loop by exhaustion: later returns belong to later states
					// nor start the next iteration: its returns belong to the next rule
					l := innermostLoopOf(naturalLoops(ep), ev.Block())
					return l == nil || b.Succs[si] != l.Header
				},
			}
			r := q.Run()
			c.Check(okFlag && r.Found == nil, construct, p.InstrPos(ev), "flag-guarded return of the error; no other return on the failure path", fmt.Sprintf("failed-condition handling broken (flagGuardedReturn=%v strayReturn=%v)", okFlag, r.Found != nil))
		}
	}
}

func ruleENG14(c *Ctx) {
	p := c.P
	a := c.eng()
	fn := a.fetch
	if fn == nil {
		c.AnchorLost("FetchMatchingRules")
		return
	}
	reach := c.reachableModuleFuncs([]*ssa.Function{fn}, true)
	forbidden := [][2]string{{"RuleEntry", "Execute"}, {"ThenScope", "Execute"}, {"ThenExpressionList", "Execute"}, {"ThenExpression", "Execute"}, {"Assignment", "Execute"}, {"Variable", "Assign"}}
	for _, fm := range forbidden {
		f := p.Method("ast", fm[0], fm[1])
		if f == nil {
			c.AnchorLost("(*ast." + fm[0] + ")." + fm[1])
			continue
		}
		c.Check(!reach[f], "FetchMatchingRules / cannot reach "+fm[0]+"."+fm[1], p.Pos(fn.Pos()), "not reachable in the call graph", "a rule action is reachable from FetchMatchingRules through "+fnName(f))
	}
	// positive control for the reachability primitive: the same search from ExecuteWithContext finds Variable.Assign
	if a.exec != nil {
		r2 := c.reachableModuleFuncs([]*ssa.Function{a.exec}, true)
		c.Notes = append(c.Notes, fmt.Sprintf("ENG-14 reachability cross-check: Variable.Assign reachable from ExecuteWithContext = %v", r2[p.Method("ast", "Variable", "Assign")]))
	}
	// returned slice is the candidate slice after a descending sort
	var okSort bool
	why := "the result is not sorted by Salience"
	scs := sortCalls(fn)
	for _, ret := range returnsOf(fn) {
		if len(ret.Results) != 2 || !isNilConst(ret.Results[1]) {
			continue
		}
		res := unspill(ret.Results[0])
		if !isCandidateSlice(res) {
			why = "the returned slice is not the candidate slice"
			continue
		}
		resliced := false
		// follow only merges: the slice variable's versions up to the appends that produced them
		seenPhi := map[ssa.Value]bool{}
		var walk func(v ssa.Value)
		walk = func(v ssa.Value) {
			if seenPhi[v] {
				return
			}
			seenPhi[v] = true
			switch x := v.(type) {
			case *ssa.Slice:
				if _, isSlice := x.X.Type().Underlying().(*types.Slice); isSlice {
					resliced = true // a slice of a slice; make([]T, 0) is a slice of a fresh array
				}
			case *ssa.Phi:
				for _, e := range x.Edges {
					walk(unspill(e))
				}
			case *ssa.Call:
				if appendedElems(x) != nil && len(x.Call.Args) > 0 {
					walk(unspill(x.Call.Args[0]))
				}
			}
		}
		walk(res)
		// the list lives in a cell when the sort closure captures it: look at everything stored there
		if ld, ok := ret.Results[0].(*ssa.UnOp); ok && ld.Op == token.MUL {
			if al, ok := ld.X.(*ssa.Alloc); ok {
				for _, r := range *al.Referrers() {
					if st, ok := r.(*ssa.Store); ok && st.Addr == ssa.Value(al) {
						walk(st.Val)
					}
				}
			}
		}
		if resliced {
			why = "the returned slice is a sub-slice of the candidate list: matching rules are cut off"
			continue
		}
		for _, sc := range scs {
			if !(sc.slice == res || sameUnderlyingSlice(sc.slice, res)) {
				continue
			}
			good, w := comparatorDescending(p, sc.less)
			if !good {
				why = w
				continue
			}
			// the sort must lie on every path to the return where len > 1: accept guard on len(slice) only
			t, _ := reachAvoid(fn, ret, sc.call, res)
			if t {
				okSort = true
			} else {
				why = "the sort can be bypassed on a path to the return"
			}
		}
	}
	c.Check(okSort, "FetchMatchingRules / result sorted by Salience descending", p.Pos(fn.Pos()), "sort comparator orders Salience descending; only a len<=1 shortcut bypasses it", "FetchMatchingRules ordering broken: "+why)
}

// reachAvoid: with the sort call blocked, the return is reachable only through edges of a length test of the slice.
func reachAvoid(fn *ssa.Function, ret *ssa.Return, sortCall *ssa.Call, slice ssa.Value) (bool, string) {
	t, _ := reach(fn, nil, func(in ssa.Instruction) bool { return in == ssa.Instruction(ret) }, func(in ssa.Instruction) bool { return in == ssa.Instruction(sortCall) }, func(b *ssa.BasicBlock, si int) bool {
		iff, ok := b.Instrs[len(b.Instrs)-1].(*ssa.If)
		if ok && isLenShortcut(iff.Cond, si) {
			return false
		}
		return true
	})
	return t == nil, ""
}

// isLenShortcut: edge si of `len(x) > 1`-like test that corresponds to len <= 1.
func isLenShortcut(cond ssa.Value, si int) bool {
	bo, ok := cond.(*ssa.BinOp)
	if !ok {
		return false
	}
	call, ok := bo.X.(*ssa.Call)
	if !ok {
		return false
	}
	bi, ok := call.Call.Value.(*ssa.Builtin)
	if !ok || bi.Name() != "len" {
		return false
	}
	k, ok := constInt(bo.Y)
	if !ok {
		return false
	}
	switch {
	case bo.Op == token.GTR && k == 1, bo.Op == token.GEQ && k == 2:
		return si == 1
	case bo.Op == token.LEQ && k == 1, bo.Op == token.LSS && k == 2:
		return si == 0
	}
	return false
}

func ruleENG15(c *Ctx) {
	p := c.P
	a := c.eng()
	rt := p.Method("ast", "BuiltInFunctions", "Retract")
	rr := p.Method("ast", "KnowledgeBase", "RetractRule")
	if rt == nil || rr == nil {
		c.AnchorLost("BuiltInFunctions.Retract / KnowledgeBase.RetractRule")
		return
	}
	ok := false
	for _, ci := range findCalls(rt, matchStatic(rr)) {
		args := ci.Common().Args
		f, base := fieldLoad(args[0])
		if len(args) == 2 && args[1] == ssa.Value(rt.Params[1]) && f == p.Field("ast", "BuiltInFunctions", "Knowledge") && base == ssa.Value(rt.Params[0]) {
			t, _ := reach(rt, nil, func(x ssa.Instruction) bool { _, r := x.(*ssa.Return); return r }, func(x ssa.Instruction) bool { return x == ci.(ssa.Instruction) }, nil)
			ok = t == nil
		}
	}
	c.Check(ok, "BuiltInFunctions.Retract forwards its parameter to gf.Knowledge.RetractRule", p.Pos(rt.Pos()), "must-call RetractRule(param) on the bound knowledge base", "Retract(name) does not retract `name` on the knowledge base bound to this call")
	// ... and does nothing else: "every other rule is unaffected, an unknown name is a no-op". Any further call of a
	// module function (the data context's own Retract hides the *fact* of that name) or store is another effect.
	var extra []string
	for _, ci := range callsIn(rt) {
		callee, m := calleeOf(ci)
		if callee == rr {
			continue
		}
		name := calleeName(ci)
		if isDiagnosticCallee(name) {
			continue
		}
		if callee != nil && callee.Parent() == rt && closureHasNoEffect(callee, 0) {
			continue // a closure of its own that does nothing to the facts or the knowledge base (a deferred timer, a log)
		}
		if (callee != nil && fnInModule(callee)) || (m != nil && m.Pkg() != nil && inModule(m.Pkg().Path())) {
			extra = append(extra, name+" at "+p.InstrPos(ci.(ssa.Instruction)))
		}
	}
	for _, b := range rt.Blocks {
		for _, in := range b.Instrs {
			switch x := in.(type) {
			case *ssa.Store:
				if !localTemp(x.Addr) {
					extra = append(extra, "store at "+p.InstrPos(in))
				}
			case *ssa.MapUpdate:
				extra = append(extra, "map update at "+p.InstrPos(in))
			}
		}
	}
	sort.Strings(extra)
	c.Check(len(extra) == 0, "BuiltInFunctions.Retract has no effect besides retracting the rule", p.Pos(rt.Pos()), "no other module call, no store", "Retract(name) also does: "+strings.Join(extra, "; ")+" (with the data context's Retract a fact whose key equals the rule's name disappears for every other rule)")
	// RetractRule: only store is Retracted=true on an entry, dominated by the true edge of entry.RuleName == param
	var stores []ssa.Instruction
	var other []string
	for _, b := range rr.Blocks {
		for _, in := range b.Instrs {
			switch x := in.(type) {
			case *ssa.Store:
				f, _, val := fieldStore(in)
				if f == a.retracted {
					if bv, isb := constBool(val); isb && bv {
						stores = append(stores, in)
						continue
					}
				}
				if localTemp(x.Addr) {
					continue // a local variable or the argument array of a variadic call (a log line)
				}
				other = append(other, p.InstrPos(in))
			case *ssa.MapUpdate:
				other = append(other, p.InstrPos(in))
			}
		}
	}
	sort.Strings(other)
	okStore := len(stores) >= 1 && len(other) == 0
	for _, st := range stores {
		_, base, _ := fieldStore(st)
		dom := edgesDominate(rr, st, func(b *ssa.BasicBlock, si int) bool {
			iff, isIf := b.Instrs[len(b.Instrs)-1].(*ssa.If)
			if !isIf {
				return false
			}
			bo, isBo := iff.Cond.(*ssa.BinOp)
			if !isBo || (bo.Op != token.EQL && bo.Op != token.NEQ) {
				return false
			}
			isName := func(v ssa.Value) bool {
				f, b2 := fieldLoad(v)
				return f != nil && f.Name() == "RuleName" && b2 == base
			}
			isParam := func(v ssa.Value) bool { return v == ssa.Value(rr.Params[1]) }
			if !((isName(bo.X) && isParam(bo.Y)) || (isName(bo.Y) && isParam(bo.X))) {
				return false
			}
			if bo.Op == token.EQL {
				return si == 0
			}
			return si == 1
		})
		if !dom {
			okStore = false
		}
	}
	c.Check(okStore, "KnowledgeBase.RetractRule retracts exactly the named rule", p.Pos(rr.Pos()), "only store: Retracted=true under entry.RuleName == name", fmt.Sprintf("RetractRule does more or less than retracting the entry whose name equals its parameter (stores=%d otherWrites=%v)", len(stores), other))
}

func init() {
	register("TRV-1", "traversals of a node's children and of the registries are exhaustive (no early exit except by error or from a search)", 30, ruleTRV1)
}

// trvSearchLoops: loops that are searches by design (they return or stop at the first hit); one symbol, one reason.
var trvSearchLoops = map[string]string{
	"(*ast.DataContext).IsRetracted / retracted":             "membership test: returns true at the first match",
	"(*ast.WorkingMemory).Reset / variableSnapshotMap":       "looks for the variable whose text equals the name and forwards to ResetVariable (INV-6 decides the match)",
	"(*ast.KnowledgeBase).IsRuleRetracted / RuleEntries":     "looks the named rule up and returns its flag",
	"(*engine.GruleEngine).ExecuteWithContext / RuleEntries": "the rule loop: ENG-4 and ENG-13 decide its exits (context error, condition error under the flag)",
	"(*engine.GruleEngine).FetchMatchingRules / RuleEntries": "the rule loop: ENG-4 and ENG-13 decide its exits",
}

// TRV-1: a loop that ranges over a field of a knowledge-base resident object (children of a node, registry and index maps,
// rule entries, listeners) and is left before the end silently drops the rest: arguments not evaluated, actions not run,
// nodes not reset / cloned / catalogued, listeners not told. Exits by returning an error are how failures propagate.
func ruleTRV1(c *Ctx) {
	p := c.P
	n := 0
	for _, fn := range p.ModuleFuncs() {
		if fn.Pkg == nil || strings.HasSuffix(p.Pos(fn.Pos()), "_test.go") {
			continue
		}
		pk := fnPkgShort(fn)
		if pk != "ast" && pk != "engine" && pk != "pkg" && pk != "model" && pk != "builder" {
			continue
		}
		if generatedExempt(fn) {
			continue
		}
		if fn.Signature.Recv() != nil {
			if nt, ok := derefType(fn.Signature.Recv().Type()).(*types.Named); ok && (strings.HasSuffix(nt.Obj().Name(), "ResourceBundle") || strings.HasSuffix(nt.Obj().Name(), "Resource")) {
				continue // byte sources: which files a bundle picks up is outside the properties
			}
		}
		loops := naturalLoops(fn)
		for _, l := range loops {
			x := rangeOperand(l)
			if x == nil {
				continue
			}
			f, _ := fieldLoad(unspill(x))
			if f == nil {
				// a lookup in a field map (index[variable]) also counts
				if lk, ok := unspill(x).(*ssa.Lookup); ok {
					f, _ = fieldLoad(lk.X)
				} else if ex, ok := unspill(x).(*ssa.Extract); ok {
					if lk, ok := ex.Tuple.(*ssa.Lookup); ok {
						f, _ = fieldLoad(lk.X)
					}
				}
			}
			if f == nil {
				continue
			}
			owner := p.fieldOwner(f)
			if strings.HasPrefix(owner, "?") {
				continue
			}
			n++
			key := fmt.Sprintf("%s / %s", fnName(fn), f.Name())
			early := ""
			for _, ex := range l.Exits() {
				eb := ex[0].(*ssa.BasicBlock)
				si := ex[1].(int)
				if eb == l.Header {
					continue
				}
				if onlyErrorReturns(eb.Succs[si], loops) {
					continue
				}
				if onlyFalseReturns(eb.Succs[si]) {
					continue // a comparison (Equals / IsIdentical): the first difference decides
				}
				early = eb.Comment
			}
			if early == "" {
				c.OK(key+" traversed to the end", p.Pos(fn.Pos()), "exits: exhaustion or error return")
				continue
			}
			if why, ok := trvSearchLoops[key]; ok {
				c.OK(key+" traversed to the end", p.Pos(fn.Pos()), "search loop: "+why)
				continue
			}
			c.Fail(key+" traversed to the end", p.Pos(fn.Pos()), "the loop over "+owner+" can be left early without an error (from block "+early+"): the remaining elements are silently skipped")
		}
	}
	c.Notes = append(c.Notes, fmt.Sprintf("TRV-1 loops over fields of module objects: %d", n))
}

// onlyFalseReturns: every path from b ends in a return whose (only) result is the constant false, without passing
// another branch back into a loop.
func onlyFalseReturns(b *ssa.BasicBlock) bool {
	seen := map[*ssa.BasicBlock]bool{}
	var walk func(b *ssa.BasicBlock, d int) bool
	walk = func(b *ssa.BasicBlock, d int) bool {
		if seen[b] || d > 6 {
			return false
		}
		seen[b] = true
		last := b.Instrs[len(b.Instrs)-1]
		if r, ok := last.(*ssa.Return); ok {
			if len(r.Results) != 1 {
				return false
			}
			bv, isb := constBool(r.Results[0])
			return isb && !bv
		}
		if len(b.Succs) == 0 {
			return false
		}
		for _, s := range b.Succs {
			if !walk(s, d+1) {
				return false
			}
		}
		return true
	}
	return walk(b, 0)
}

func init() {
	register("ENG-16", "the engine does not reach through a pointer an interface call handed it without a nil test", 1, ruleENG16)
}

// ENG-16 (C15, C06, C14): nothing recovers a panic raised by the engine's own statements (the barriers of ERR-1 sit in
// RuleEntry.Evaluate and Execute). What an interface method of the caller's data context or of a listener hands back
// can be nil - GetRuleEntry() is nil until a rule was selected on that data context - so a dereference of such a result,
// for a log line on the way to `return ctx.Err()` say, turns a reported cancellation into a crash (round-5 seed C15/b).
func ruleENG16(c *Ctx) {
	p := c.P
	var fns []*ssa.Function
	for _, fn := range p.ModuleFuncs() {
		if fnPkgShort(fn) == "engine" && fn.Blocks != nil {
			fns = append(fns, fn)
		}
	}
	sort.Slice(fns, func(i, j int) bool { return fns[i].String() < fns[j].String() })
	nSites := 0
	for _, fn := range fns {
		for _, ci := range callsIn(fn) {
			call, ok := ci.(*ssa.Call)
			if !ok || !call.Call.IsInvoke() {
				continue
			}
			if _, isPtr := call.Type().Underlying().(*types.Pointer); !isPtr {
				continue
			}
			nSites++
			bad := c.unguardedDerefs(fn, call, 0)
			construct := fmt.Sprintf("%s / result of %s is nil-tested before it is dereferenced", fnName(fn), calleeName(ci))
			c.Check(len(bad) == 0, construct, p.InstrPos(call), "no unguarded dereference", "the pointer returned by "+calleeName(ci)+" is dereferenced without a nil test ("+strings.Join(uniq(bad), "; ")+"): it is nil until a rule was selected on this data context, and a panic in the engine's own code is recovered by nothing, so the run ends in a crash instead of its result or the context's error")
		}
	}
	c.OK("engine package / pointer results of interface calls examined", "engine/GruleEngine.go", fmt.Sprintf("%d functions, %d such results", len(fns), nSites))
}

// dominatingIfBlock: the block whose If leads straight to b (b has one predecessor ending in an If), else b itself.
func dominatingIfBlock(b *ssa.BasicBlock) *ssa.BasicBlock {
	if len(b.Preds) == 1 {
		if _, isIf := b.Preds[0].Instrs[len(b.Preds[0].Instrs)-1].(*ssa.If); isIf {
			return b.Preds[0]
		}
	}
	return b
}

// closureHasNoEffect: no store outside its own locals, no map update, no call of a module function other than logging.
func closureHasNoEffect(fn *ssa.Function, depth int) bool {
	if fn == nil || fn.Blocks == nil || depth > 2 {
		return false
	}
	for _, b := range fn.Blocks {
		for _, in := range b.Instrs {
			switch x := in.(type) {
			case *ssa.Store:
				if !localTemp(x.Addr) {
					return false
				}
			case *ssa.MapUpdate:
				return false
			case ssa.CallInstruction:
				callee, m := calleeOf(x)
				if isDiagnosticCallee(calleeName(x)) {
					continue
				}
				if callee != nil && callee.Parent() == fn && closureHasNoEffect(callee, depth+1) {
					continue
				}
				if (callee != nil && fnInModule(callee)) || (m != nil && m.Pkg() != nil && inModule(m.Pkg().Path())) {
					return false
				}
			}
		}
	}
	return true
}
