package main

import (
	"encoding/json"
	"fmt"
	"os"
	"path/filepath"
	"sort"
	"strings"

	"golang.org/x/tools/go/ssa"
)

// Status of an obligation.
const (
	Discharged = "discharged"
	Violated   = "violated"
	Undecided  = "undecided" // idiom not recognised: reported as a violation with that word in the message
)

// Oblig is one rule instance, keyed rule:construct (never by line).
type Oblig struct {
	Rule      string   `json:"rule"`
	Construct string   `json:"construct"`
	Status    string   `json:"status"`
	Pos       string   `json:"pos,omitempty"`
	Func      string   `json:"func,omitempty"`
	Msg       string   `json:"msg,omitempty"`
	Path      []string `json:"path,omitempty"`
}

func (o Oblig) Key() string { return o.Rule + " : " + o.Construct }

// Ctx collects obligations for one run.
type Ctx struct {
	P       *Prog
	Obls    []Oblig
	curRule string
	seen    map[string]int
	// Controls: results of positive controls (rule -> description); a failed control is fatal (exit 2).
	Controls     []string
	ControlFails []string
	FuncsTouched map[string]bool
	Notes        []string

	constKeyMemo map[*ssa.Function]bool
}

func NewCtx(p *Prog) *Ctx {
	return &Ctx{P: p, seen: map[string]int{}, FuncsTouched: map[string]bool{}}
}

func (c *Ctx) add(o Oblig) {
	o.Rule = c.curRule
	k := o.Key()
	if n, dup := c.seen[k]; dup {
		// make keys unique but stable: ordinal suffix in order of discovery within the construct
		c.seen[k] = n + 1
		o.Construct = fmt.Sprintf("%s #%d", o.Construct, n+1)
	} else {
		c.seen[k] = 1
	}
	c.Obls = append(c.Obls, o)
}

// OK records a discharged obligation.
func (c *Ctx) OK(construct, pos, detail string) {
	c.add(Oblig{Construct: construct, Status: Discharged, Pos: pos, Msg: detail})
}

// Fail records a violated obligation.
func (c *Ctx) Fail(construct, pos, msg string, path ...string) {
	c.add(Oblig{Construct: construct, Status: Violated, Pos: pos, Msg: msg, Path: path})
}

// Undecided records an obligation whose idiom the rule could not recognise.
func (c *Ctx) Undecided(construct, pos, msg string) {
	c.add(Oblig{Construct: construct, Status: Undecided, Pos: pos, Msg: "undecided: " + msg})
}

// Check records OK or Fail depending on cond.
func (c *Ctx) Check(cond bool, construct, pos, okDetail, failMsg string) bool {
	if cond {
		c.OK(construct, pos, okDetail)
	} else {
		c.Fail(construct, pos, failMsg)
	}
	return cond
}

// AnchorLost records the loss of an anchor as a violation of the current rule.
func (c *Ctx) AnchorLost(what string) {
	c.add(Oblig{Construct: "anchor " + what, Status: Violated, Msg: "anchor lost: " + what + " cannot be resolved in the loaded program"})
}

// Control records the outcome of a positive control.
func (c *Ctx) Control(ok bool, desc string) {
	if ok {
		c.Controls = append(c.Controls, c.curRule+": "+desc)
	} else {
		c.ControlFails = append(c.ControlFails, c.curRule+": "+desc)
	}
}

func (c *Ctx) Touch(fn string) { c.FuncsTouched[fn] = true }

// Rule describes one rule of the catalogue.
type Rule struct {
	ID    string
	Title string
	Min   int // minimal number of obligations confirmed by hand on the pinned tree (vacuity guard)
	Run   func(c *Ctx)
}

var ruleTable = map[string]*Rule{}

func register(id, title string, min int, run func(c *Ctx)) {
	ruleTable[id] = &Rule{ID: id, Title: title, Min: min, Run: run}
}

// RunRule runs one rule with panic containment and the vacuity guard.
func (c *Ctx) RunRule(id string) {
	r := ruleTable[id]
	if r == nil {
		c.curRule = id
		c.add(Oblig{Construct: "rule", Status: Violated, Msg: "rule not implemented"})
		return
	}
	c.curRule = id
	before := len(c.Obls)
	func() {
		defer func() {
			if x := recover(); x != nil {
				c.add(Oblig{Construct: "checker", Status: Undecided, Msg: fmt.Sprintf("undecided: rule panicked: %v", x)})
			}
		}()
		r.Run(c)
	}()
	n := len(c.Obls) - before
	if n < r.Min {
		c.add(Oblig{Construct: "instance-count", Status: Violated, Msg: fmt.Sprintf("vacuous/anchor lost: rule matched %d instances, expected at least %d", n, r.Min)})
	}
}

// ---- known findings ----

type KnownFinding struct {
	Property  string `json:"property"`
	Rule      string `json:"rule"`
	Construct string `json:"construct"`
	What      string `json:"what"`
	Status    string `json:"status"` // "known" or "fixed: property=<id> <commit> <what failed>"
}

func loadKnown(path string) ([]KnownFinding, error) {
	b, err := os.ReadFile(path)
	if err != nil {
		if os.IsNotExist(err) {
			return nil, nil
		}
		return nil, err
	}
	var kf struct {
		Findings []KnownFinding `json:"findings"`
	}
	if err := json.Unmarshal(b, &kf); err != nil {
		return nil, err
	}
	return kf.Findings, nil
}

// ---- evidence ----

type Evidence struct {
	PropertyID  string                 `json:"property_id"`
	Tier        string                 `json:"tier"`
	Seed        int                    `json:"seed"`
	Level       string                 `json:"level"`
	Coverage    map[string]interface{} `json:"coverage"`
	Assumptions []string               `json:"assumptions"`
	WallS       float64                `json:"wall_s"`
	Violations  int                    `json:"violations"`
}

func writeJSON(path string, v interface{}) error {
	if err := os.MkdirAll(filepath.Dir(path), 0o755); err != nil {
		return err
	}
	b, err := json.MarshalIndent(v, "", " ")
	if err != nil {
		return err
	}
	tmp := path + ".tmp"
	if err := os.WriteFile(tmp, append(b, '\n'), 0o644); err != nil {
		return err
	}
	return os.Rename(tmp, path)
}

func sortedKeys(m map[string]bool) []string {
	var out []string
	for k := range m {
		out = append(out, k)
	}
	sort.Strings(out)
	return out
}

func ruleCounts(obls []Oblig) map[string]int {
	m := map[string]int{}
	for _, o := range obls {
		m[o.Rule]++
	}
	return m
}

func shortMsg(s string, n int) string {
	s = strings.ReplaceAll(s, "\n", " ")
	if len(s) > n {
		return s[:n] + "…"
	}
	return s
}
