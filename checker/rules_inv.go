package main

import (
	"fmt"
	"go/token"
	"go/types"
	"sort"
	"strings"

	"golang.org/x/tools/go/ssa"
)

// ---------- shared anchors of the memo protocol ----------

type memoAnchors struct {
	evalFields   map[*types.Var]string // Expression.Evaluated, ExpressionAtom.Evaluated
	valueFields  map[*types.Var]string // Expression.Value, ExpressionAtom.Value
	exprEval     *ssa.Function
	atomEval     *ssa.Function
	resetVar     *ssa.Function
	reset        *ssa.Function
	resetAll     *ssa.Function
	invalidators map[*ssa.Function]string // functions storing Evaluated=false
}

func (c *Ctx) memo() *memoAnchors {
	p := c.P
	m := &memoAnchors{evalFields: map[*types.Var]string{}, valueFields: map[*types.Var]string{}, invalidators: map[*ssa.Function]string{}}
	for _, t := range []string{"Expression", "ExpressionAtom"} {
		if f := p.Field("ast", t, "Evaluated"); f != nil {
			m.evalFields[f] = t + ".Evaluated"
		}
		if f := p.Field("ast", t, "Value"); f != nil {
			m.valueFields[f] = t + ".Value"
		}
	}
	m.exprEval = p.Method("ast", "Expression", "Evaluate")
	m.atomEval = p.Method("ast", "ExpressionAtom", "Evaluate")
	m.resetVar = p.Method("ast", "WorkingMemory", "ResetVariable")
	m.reset = p.Method("ast", "WorkingMemory", "Reset")
	m.resetAll = p.Method("ast", "WorkingMemory", "ResetAll")
	// derived: module functions that store false into an Evaluated field
	for _, fn := range p.ModuleFuncs() {
		for _, b := range fn.Blocks {
			for _, in := range b.Instrs {
				f, _, val := fieldStore(in)
				if f == nil {
					continue
				}
				if _, ok := m.evalFields[f]; !ok {
					continue
				}
				if bv, isb := constBool(val); isb && !bv {
					m.invalidators[fn] = fnName(fn)
				}
			}
		}
	}
	return m
}

// evalStores returns the stores to an Evaluated field in fn with their constant (true/false/non-const).
func (m *memoAnchors) evalStores(fn *ssa.Function, want bool) []*ssa.Store {
	var out []*ssa.Store
	for _, b := range fn.Blocks {
		for _, in := range b.Instrs {
			f, _, val := fieldStore(in)
			if f == nil {
				continue
			}
			if _, ok := m.evalFields[f]; !ok {
				continue
			}
			if bv, isb := constBool(val); isb && bv == want {
				out = append(out, in.(*ssa.Store))
			}
		}
	}
	return out
}

// sinkMatcher: the fact-write sinks (interface methods of model.ValueNode starting with Set, IDataContext.Add).
func (c *Ctx) sinkMatcher() (Matcher, []string) {
	p := c.P
	var names []string
	var ms []Matcher
	if n := p.Named("model", "ValueNode"); n != nil {
		if it, ok := n.Underlying().(*types.Interface); ok {
			for i := 0; i < it.NumMethods(); i++ {
				mn := it.Method(i).Name()
				if strings.HasPrefix(mn, "Set") {
					names = append(names, "ValueNode."+mn)
					ms = append(ms, matchInvoke(it.Method(i)))
					for _, impl := range []string{"GoValueNode", "JSONValueNode"} {
						ms = append(ms, matchNamedMethod(fullPkg("model"), impl, mn))
					}
				}
			}
		}
	}
	if m := p.IfaceMethod("ast", "IDataContext", "Add"); m != nil {
		names = append(names, "IDataContext.Add")
		ms = append(ms, matchInvoke(m), matchNamedMethod(fullPkg("ast"), "DataContext", "Add"))
	}
	sort.Strings(names)
	return matchAny(ms...), names
}

// reachableModuleFuncs returns module functions reachable in the call graph from the roots (incl. modelled
// reflective edges to the exported methods of *ast.BuiltInFunctions when withBuiltins is set).
func (c *Ctx) reachableModuleFuncs(roots []*ssa.Function, withBuiltins bool) map[*ssa.Function]bool {
	return c.reachableStop(roots, withBuiltins, nil)
}

// reachableStop is reachableModuleFuncs that does not descend below functions for which stopBelow is true.
func (c *Ctx) reachableStop(roots []*ssa.Function, withBuiltins bool, stopBelow func(*ssa.Function) bool) map[*ssa.Function]bool {
	cg := c.P.CallGraph()
	seen := map[*ssa.Function]bool{}
	var stack []*ssa.Function
	push := func(f *ssa.Function) {
		if f != nil && !seen[f] {
			seen[f] = true
			stack = append(stack, f)
		}
	}
	for _, r := range roots {
		push(r)
	}
	builtinsAdded := false
	for len(stack) > 0 {
		f := stack[len(stack)-1]
		stack = stack[:len(stack)-1]
		if stopBelow != nil && stopBelow(f) {
			continue
		}
		fMod := fnInModule(f)
		if n := cg.Nodes[f]; n != nil {
			for _, e := range n.Out {
				g := e.Callee.Func
				// The call graph is context-insensitive: a dependency function that calls a function value (sync.Once.Do,
				// sort.Slice, ...) gets an edge to every function value that flows into it from anywhere in the program.
				// Edges from a dependency back into a named module function are therefore followed only for interface
				// dispatch; function values the module itself hands to a dependency are added at the hand-over site below.
				if !fMod && fnInModule(g) && e.Site != nil && !e.Site.Common().IsInvoke() {
					continue
				}
				push(g)
			}
		}
		for _, a := range f.AnonFuncs {
			push(a)
		}
		if fMod {
			for _, g := range c.P.ModuleIfaceCallees(f) {
				push(g)
			}
			for _, ci := range callsIn(f) {
				callee := ci.Common().StaticCallee()
				if callee != nil && fnInModule(callee) {
					continue
				}
				for _, arg := range ci.Common().Args {
					switch x := arg.(type) {
					case *ssa.Function:
						push(x)
					case *ssa.MakeClosure:
						if fn, ok := x.Fn.(*ssa.Function); ok {
							push(fn)
						}
					}
				}
			}
		}
		if withBuiltins && !builtinsAdded && isReflectiveDispatcher(f) {
			builtinsAdded = true
			for _, bf := range c.builtinMethods() {
				push(bf)
			}
		}
	}
	out := map[*ssa.Function]bool{}
	for f := range seen {
		if fnInModule(f) && f.Blocks != nil && !delegationWrapper[f] {
			out[f] = true
		}
	}
	return out
}

// isReflectiveDispatcher: the module functions through which GRL reaches methods by name via reflect.
func isReflectiveDispatcher(f *ssa.Function) bool {
	n := fnName(f)
	return n == "(*model.GoValueNode).CallFunction" || n == "pkg.InvokeFunction"
}

func (c *Ctx) builtinMethods() []*ssa.Function {
	n := c.P.Named("ast", "BuiltInFunctions")
	if n == nil {
		return nil
	}
	var out []*ssa.Function
	ms := c.P.SSA.MethodSets.MethodSet(types.NewPointer(n))
	for i := 0; i < ms.Len(); i++ {
		if !ms.At(i).Obj().Exported() {
			continue
		}
		if fn := c.P.SSA.MethodValue(ms.At(i)); fn != nil {
			out = append(out, fn)
		}
	}
	return out
}

func init() {
	register("INV-1", "write => invalidate: every successful fact write in the assignment call tree is followed on every path by an invalidation of the written variable", 4, ruleINV1)
	register("INV-2", "memo only on success: no path from a failed producer call reaches `Evaluated = true` carrying its value", 10, ruleINV2)
	register("INV-3", "memo consulted first: every fact-touching call of the two Evaluate methods is dominated by the not-yet-evaluated edge of the memo test", 4, ruleINV3)
	register("INV-4", "memo set on success for the documented forms", 8, ruleINV4)
	register("INV-5", "index construction: both node kinds indexed under every variable below them (collected from the children, or by snapshot containment), maps re-made", 4, ruleINV5)
	register("INV-6", "reset functions are complete", 6, ruleINV6)
	register("INV-7", "Forget/Changed wiring and DEFUNC binding", 4, ruleINV7)
	register("INV-8", "who-may-write Evaluated / Retracted / Deleted", 3, ruleINV8)
	register("INV-9", "bulk invalidators stay out of the cycle", 2, ruleINV9)
	register("INV-10", "index rebuilt after every build", 1, ruleINV10)
	register("INV-11", "canonical nodes: listener hands only working-memory canonical nodes to parents; Add* is lookup-before-insert keyed by GetSnapshot", 6, ruleINV11)
}

// INV-1
func ruleINV1(c *Ctx) {
	p := c.P
	m := c.memo()
	asg := p.Method("ast", "Assignment", "Execute")
	if asg == nil {
		c.AnchorLost("(*ast.Assignment).Execute")
		return
	}
	if m.resetVar == nil || len(m.invalidators) == 0 {
		c.AnchorLost("invalidators (functions storing Evaluated=false)")
		return
	}
	sink, sinkNames := c.sinkMatcher()
	c.Notes = append(c.Notes, "INV-1 sinks: "+strings.Join(sinkNames, ", "))
	// invalidator call matcher incl. must-call wrappers (depth 1)
	var invs []*ssa.Function
	for f := range m.invalidators {
		invs = append(invs, f)
	}
	isInv := matchStatic(invs...)
	funcs := c.reachableModuleFuncs([]*ssa.Function{asg}, true)
	var fl []*ssa.Function
	for f := range funcs {
		// the model layer's own implementation of the sinks is below the sink boundary
		if fnPkgShort(f) == "ast" {
			fl = append(fl, f)
		}
	}
	sort.Slice(fl, func(i, j int) bool { return fl[i].String() < fl[j].String() })
	for _, fn := range fl {
		recv := receiver(fn)
		for _, ci := range findCalls(fn, sink) {
			c.Touch(fnName(fn))
			construct := fmt.Sprintf("%s / sink %s", fnName(fn), calleeName(ci))
			ei := errResultIndex(ci.Common().Signature())
			var des []ssa.Value
			if ei >= 0 {
				des = resultValues(ci, ei)
			}
			q := &AQuery{Fn: fn, From: ci.(ssa.Instruction), Designated: des, Assume: AssumeNil,
				IsTarget: func(in ssa.Instruction, st *AState) bool {
					_, ok := in.(*ssa.Return)
					return ok
				},
				IsBlocker: func(in ssa.Instruction, st *AState) bool {
					call, ok := in.(ssa.CallInstruction)
					if !ok {
						return false
					}
					if isInv(call) {
						return invalidationConcerns(call, recv, m)
					}
					// a module helper that performs the invalidation on every path for the variable handed to it
					callee := call.Common().StaticCallee()
					if callee == nil || !fnInModule(callee) || callee.Blocks == nil || recv == nil {
						return false
					}
					for i, arg := range call.Common().Args {
						if i < len(callee.Params) && unspill(arg) == ssa.Value(recv) {
							prm := callee.Params[i]
							if mustPass(callee, func(x ssa.Instruction) bool {
								c2, ok := x.(ssa.CallInstruction)
								return ok && isInv(c2) && invalidationConcerns(c2, prm, m)
							}) {
								return true
							}
						}
					}
					return false
				},
			}
			r := q.Run()
			switch {
			case r.Overflow:
				c.Undecided(construct, p.InstrPos(ci), "path search exceeded its state budget")
			case r.Found != nil:
				c.Fail(construct, p.InstrPos(ci), fmt.Sprintf("a successful write through %s reaches the return at %s without invalidating the written variable (no call of %s on the receiver)", calleeName(ci), p.InstrPos(r.Found), strings.Join(sortedVals(m.invalidators), "/")), pathString(p, r.Path)...)
			default:
				c.OK(construct, p.InstrPos(ci), "every success path passes an invalidation of the written variable")
			}
			// element writes: the same element can be addressed by another selector text (F.Arr[F.I] vs F.Arr[0],
			// F.M["k"] vs F.M[F.Key]), and those nodes are indexed under their own spelling only. What is indexed under
			// the container covers all of them, so a successful element write must also invalidate the container variable.
			cn := calleeName(ci)
			if !(strings.HasSuffix(cn, "SetArrayValueAt") || strings.HasSuffix(cn, "SetMapValueAt") || strings.HasSuffix(cn, "SetObjectValueByField")) || recv == nil {
				continue
			}
			memberSink := strings.HasSuffix(cn, "SetObjectValueByField")
			parentF := p.Field("ast", "Variable", "Variable")
			preciseWhy := ""
			q2 := &AQuery{Fn: fn, From: ci.(ssa.Instruction), Designated: des, Assume: AssumeNil,
				IsTarget: func(in ssa.Instruction, st *AState) bool {
					_, ok := in.(*ssa.Return)
					return ok
				},
				IsBlocker: func(in ssa.Instruction, st *AState) bool {
					call, ok := in.(ssa.CallInstruction)
					if !ok {
						return false
					}
					// the walk over every container on the written path (covers members of elements, nested
					// selectors and dot-vs-selector access of map-like nodes as well)
					callee := call.Common().StaticCallee()
					if callee == nil || !fnInModule(callee) {
						return false
					}
					for i, a := range call.Common().Args {
						if unspill(a) == ssa.Value(recv) && i < len(callee.Params) && c.aliasResetWalkIn(callee, ssa.Value(callee.Params[i]), m) != nil {
							return true
						}
					}
					// the precise form: reset what may name the same location, on every level, and the container when its size changed
					info, why := c.preciseAliasReset(callee, m)
					if info == nil {
						if strings.Contains(strings.ToLower(publicName(callee)), "alias") {
							preciseWhy = fnName(callee) + ": " + why
						}
						return false
					}
					args := call.Common().Args
					if info.varIdx >= len(args) || info.sizeIdx >= len(args) || unspill(args[info.varIdx]) != ssa.Value(recv) {
						preciseWhy = fnName(callee) + " is not called for the written variable"
						return false
					}
					if !lengthBefore(args[info.sizeIdx], recv, ci, parentF, p.Field("ast", "Variable", "ValueNode")) {
						preciseWhy = fnName(callee) + " is not given the length of the container before the write (ValueNode.Length() of the written variable's container, taken before " + cn + ")"
						if lengthOperandWhy != "" {
							preciseWhy += ": " + lengthOperandWhy
						}
						return false
					}
					for _, n := range info.notes {
						noteOnce(c, n)
					}
					return true
				},
			}
			_ = parentF
			if hdr := c.aliasResetWalkIn(fn, ssa.Value(recv), m); hdr != nil {
				inner := q2.IsBlocker
				q2.IsBlocker = func(in ssa.Instruction, st *AState) bool {
					return inner(in, st) || (in.Block() == hdr && instrIndex(in) == 0)
				}
			}
			r2 := q2.Run()
			construct2 := construct + " also invalidates the other spellings of the written location"
			_ = memberSink
			switch {
			case r2.Overflow:
				c.Undecided(construct2, p.InstrPos(ci), "path search exceeded its state budget")
			case r2.Found != nil:
				c.Fail(construct2, p.InstrPos(ci), fmt.Sprintf("a successful write reaches the return at %s having reset only what is indexed under the spelling it was written through, without resetting what else may name the written location on every level of the written path (another selector on the same container, the name/selector pair of a map-like node) and the container whose size changed: a read of the same location through another spelling (F.Arr[0] after F.Arr[F.I] = …, F.Arr[F.I].X after F.Arr[0].X = …, F.Grid[F.R][F.C] after F.Grid[1][2] = …, J[\"k\"] after J.k = …) keeps its remembered value%s", p.InstrPos(r2.Found), map[bool]string{true: " [" + preciseWhy + "]", false: ""}[preciseWhy != ""]), pathString(p, r2.Path)...)
			default:
				c.OK(construct2, p.InstrPos(ci), "every success path also resets what may name the written location on every level of the written path, and the container when its size changed")
			}
		}
	}
	inv1Append(c, m)
}

// inv1Append: Append is the one built-in that writes the fact it is called on (model: CallFunction -> AppendValue). The
// write happens below the method-call form of ExpressionAtom.Evaluate, which therefore has to invalidate what was read
// from the array: on the path where the function name is "Append", a successful CallFunction is followed by
// memory.Reset(text of the receiver) before the return.
func inv1Append(c *Ctx, m *memoAnchors) {
	p := c.P
	fn := m.atomEval
	if fn == nil {
		return
	}
	// the model really dispatches Append to a writing function (otherwise the obligation is void)
	writes := false
	for _, typ := range []string{"GoValueNode", "JSONValueNode"} {
		if cf := p.Method("model", typ, "CallFunction"); cf != nil {
			for _, ci := range callsIn(cf) {
				if strings.HasSuffix(calleeName(ci), ".AppendValue") {
					writes = true
				}
			}
		}
	}
	if !writes {
		c.OK("ExpressionAtom.Evaluate / Append invalidates what was read from the array", p.Pos(fn.Pos()), "no built-in dispatches to AppendValue")
		return
	}
	recv := ssa.Value(receiver(fn))
	atomF := p.Field("ast", "ExpressionAtom", "ExpressionAtom")
	nameF := p.Field("ast", "FunctionCall", "FunctionName")
	var resetFn *ssa.Function = m.reset
	for _, ci := range callsIn(fn) {
		if !strings.HasSuffix(calleeName(ci), ".CallFunction") {
			continue
		}
		// receiver of CallFunction is the ValueNode of e.ExpressionAtom (method form), not the DEFUNC node
		isMethodForm := derivesFrom(ci.Common().Value, func(v ssa.Value) bool {
			f, base := fieldLoad(v)
			return f == atomF && base == recv
		})
		if !isMethodForm {
			continue
		}
		construct := "ExpressionAtom.Evaluate / Append invalidates what was read from the array"
		// follow only the edge on which the function name is "Append"
		appendEdge := func(b *ssa.BasicBlock, si int) bool {
			iff, isIf := b.Instrs[len(b.Instrs)-1].(*ssa.If)
			if !isIf {
				return true
			}
			bo, isBo := iff.Cond.(*ssa.BinOp)
			if !isBo || (bo.Op != token.EQL && bo.Op != token.NEQ) {
				return true
			}
			var other ssa.Value
			if f, _ := fieldLoad(bo.X); f == nameF {
				other = bo.Y
			} else if f, _ := fieldLoad(bo.Y); f == nameF {
				other = bo.X
			}
			if sv, ok := constString(other); other != nil && ok && sv == "Append" {
				if bo.Op == token.EQL {
					return si == 0
				}
				return si == 1
			}
			return true
		}
		successReturn := func(in ssa.Instruction) bool {
			r, ok := in.(*ssa.Return)
			return ok && !returnsNonNilError(r)
		}
		t, path := reach(fn, ci.(ssa.Instruction), successReturn, func(in ssa.Instruction) bool {
			call, ok := in.(ssa.CallInstruction)
			if !ok || call.Common().StaticCallee() != resetFn || len(call.Common().Args) < 2 {
				return false
			}
			f, base := fieldLoad(call.Common().Args[1])
			if f == nil || f.Name() != "GrlText" {
				return false
			}
			bf, bb := fieldLoad(base)
			return bf == atomF && bb == recv
		}, appendEdge)
		hasTest := false
		for _, b := range fn.Blocks {
			if iff, ok := b.Instrs[len(b.Instrs)-1].(*ssa.If); ok {
				if bo, ok := iff.Cond.(*ssa.BinOp); ok {
					for _, o := range []ssa.Value{bo.X, bo.Y} {
						if sv, ok := constString(o); ok && sv == "Append" {
							hasTest = true
						}
					}
				}
			}
		}
		if t == nil && hasTest {
			c.OK(construct, p.InstrPos(ci), "on the Append path every success return follows memory.Reset(receiver text)")
		} else {
			c.Fail(construct, p.InstrPos(ci), "F.L.Append(x) changes the fact, but nothing that was read from F.L is forgotten: `when F.L.Len() < 3 then F.L.Append(7);` keeps firing on the remembered length until the cycle limit", pathString(p, path)...)
		}
		// the array may also have been read through another spelling (F.Lists[F.I] for F.Lists[0]): when the receiver is a
		// variable below a fact, the alias reset of INV-1 follows as for an assignment to it
		construct2 := "ExpressionAtom.Evaluate / Append also invalidates the other spellings of the array"
		varF := p.Field("ast", "ExpressionAtom", "Variable")
		parentF := p.Field("ast", "Variable", "Variable")
		vnF := p.Field("ast", "Variable", "ValueNode")
		isReceiverVar := func(v ssa.Value) bool {
			f, base := fieldLoad(unspill(v))
			if f != varF {
				return false
			}
			bf, bb := fieldLoad(base)
			return bf == atomF && bb == recv
		}
		why := ""
		t2, path2 := reach(fn, ci.(ssa.Instruction), successReturn, func(in ssa.Instruction) bool {
			call, ok := in.(ssa.CallInstruction)
			if !ok {
				return false
			}
			callee := call.Common().StaticCallee()
			if callee == nil || !fnInModule(callee) {
				return false
			}
			args := call.Common().Args
			for i, a := range args {
				if isReceiverVar(a) && i < len(callee.Params) && c.aliasResetWalkIn(callee, ssa.Value(callee.Params[i]), m) != nil {
					return true
				}
			}
			info, w := c.preciseAliasReset(callee, m)
			if info == nil {
				if strings.Contains(strings.ToLower(publicName(callee)), "alias") {
					why = fnName(callee) + ": " + w
				}
				return false
			}
			if info.varIdx >= len(args) || info.sizeIdx >= len(args) || !isReceiverVar(args[info.varIdx]) {
				return false
			}
			// the size handed over is that of the receiver's container, which Append does not change
			node := lengthOperand(args[info.sizeIdx])
			if node == nil {
				why = "the size handed to " + fnName(callee) + " is not the size of the receiver's container"
				if lengthOperandWhy != "" {
					why += ": " + lengthOperandWhy
				}
				return false
			}
			nf, nb := fieldLoad(node)
			pf, pb := fieldLoad(nb)
			if nf != vnF || pf != parentF || !isReceiverVar(pb) {
				why = "the size handed to " + fnName(callee) + " is not the size of the receiver's container"
				return false
			}
			return true
		}, func(b *ssa.BasicBlock, si int) bool {
			if !appendEdge(b, si) {
				return false
			}
			// a receiver that is no variable, or a top-level variable, has no other spelling
			if iff, isIf := b.Instrs[len(b.Instrs)-1].(*ssa.If); isIf {
				if kind, sNil, ok := condOn(iff.Cond, func(x ssa.Value) bool {
					if isReceiverVar(x) {
						return true
					}
					f, base := fieldLoad(x)
					return f == parentF && isReceiverVar(base)
				}); ok && kind == "nil" && si == sNil {
					return false
				}
			}
			return true
		})
		if t2 == nil && hasTest {
			c.OK(construct2, p.InstrPos(ci), "on the Append path every success return with a receiver variable below a fact follows the alias reset for that variable")
		} else {
			msg := "F.Lists[0].Append(7) changes an array that F.Lists[F.I].Len() reads as well; only what is indexed under the receiver's own text is forgotten"
			if why != "" {
				msg += " [" + why + "]"
			}
			c.Fail(construct2, p.InstrPos(ci), msg, pathString(p, path2)...)
		}
	}
}

func sortedVals(m map[*ssa.Function]string) []string {
	var out []string
	for _, v := range m {
		out = append(out, v)
	}
	sort.Strings(out)
	return out
}

// invalidationConcerns: ResetVariable(x): x must be the receiver of the assigning method; Reset(s): s derives
// from the receiver; ResetAll: accepted here (its placement is policed by INV-9).
func invalidationConcerns(call ssa.CallInstruction, recv *ssa.Parameter, m *memoAnchors) bool {
	f, _ := calleeOf(call)
	args := call.Common().Args
	switch f {
	case m.resetVar:
		if recv == nil || len(args) < 2 {
			return false
		}
		return args[1] == ssa.Value(recv)
	case m.reset:
		if recv == nil || len(args) < 2 {
			return false
		}
		return derivesFromValue(args[1], recv)
	default:
		return true
	}
}

// producersOf: calls in fn that return an error and are part of the evaluation machinery.
func errorCalls(fn *ssa.Function) []ssa.CallInstruction {
	var out []ssa.CallInstruction
	for _, ci := range callsIn(fn) {
		if _, isDefer := ci.(*ssa.Defer); isDefer {
			continue
		}
		if errResultIndex(ci.Common().Signature()) < 0 {
			continue
		}
		f, _ := calleeOf(ci)
		if f != nil && alwaysNonNilError(f, 0) {
			continue // error constructors
		}
		out = append(out, ci)
	}
	return out
}

// INV-2
func ruleINV2(c *Ctx) {
	p := c.P
	m := c.memo()
	for _, fn := range []*ssa.Function{m.exprEval, m.atomEval} {
		if fn == nil {
			c.AnchorLost("Evaluate method of Expression/ExpressionAtom")
			continue
		}
		stores := m.evalStores(fn, true)
		if len(stores) == 0 {
			c.Fail(fnName(fn)+" / memo stores", p.Pos(fn.Pos()), "no `Evaluated = true` store found: the memo is never set (anchor lost)")
			continue
		}
		isMemoStore := func(in ssa.Instruction) bool {
			for _, s := range stores {
				if in == ssa.Instruction(s) {
					return true
				}
			}
			return false
		}
		for _, ci := range errorCalls(fn) {
			ei := errResultIndex(ci.Common().Signature())
			des := resultValues(ci, ei)
			construct := fmt.Sprintf("%s / producer %s", fnName(fn), calleeName(ci))
			var tainted []ssa.Value
			if v := ci.Value(); v != nil && ci.Common().Signature().Results().Len() > 1 {
				tainted = []ssa.Value{v}
			}
			q := &AQuery{Fn: fn, From: ci.(ssa.Instruction), Designated: des, Tainted: tainted, Assume: AssumeNonNil,
				IsTarget: func(in ssa.Instruction, st *AState) bool { return isMemoStore(in) },
				IsBlocker: func(in ssa.Instruction, st *AState) bool {
					// a store of a clean (not derived from the failed call) value into the Value field re-validates the path
					f, _, val := fieldStore(in)
					if f == nil {
						return false
					}
					if _, ok := m.valueFields[f]; !ok {
						return false
					}
					return !st.IsTainted(val) && producedAfter(val, ci)
				},
			}
			r := q.Run()
			switch {
			case len(des) == 0:
				c.Fail(construct, p.InstrPos(ci), "the error result of this call is discarded, so a failed evaluation can be remembered")
			case r.Overflow:
				c.Undecided(construct, p.InstrPos(ci), "path search exceeded its state budget")
			case r.Found != nil:
				c.Fail(construct, p.InstrPos(ci), fmt.Sprintf("when %s fails, `Evaluated = true` at %s is still reachable with the failed call's value: a failed evaluation would be remembered", calleeName(ci), p.InstrPos(r.Found)), pathString(p, r.Path)...)
			default:
				c.OK(construct, p.InstrPos(ci), "no memo store reachable when this call fails")
			}
		}
	}
}

// producedAfter: val is the result (possibly through Extract/Phi) of a call instruction different from ci that
// is not an operand-free constant; used to recognise "a fresh value was computed after the failed probe".
func producedAfter(val ssa.Value, ci ssa.CallInstruction) bool {
	ok := false
	backSlice(val, func(x ssa.Value) bool {
		if call, isCall := x.(*ssa.Call); isCall {
			if ssa.Instruction(call) != ci.(ssa.Instruction) {
				ok = true
			}
			return false
		}
		switch x.(type) {
		case *ssa.Phi, *ssa.Extract:
			return true
		}
		return false
	})
	return ok
}

// factTouching: calls that may read facts or run user code.
func factTouching(ci ssa.CallInstruction) bool {
	if _, isDefer := ci.(*ssa.Defer); isDefer {
		return false
	}
	f, m := calleeOf(ci)
	var name string
	var recvT types.Type
	if f != nil {
		name = f.Name()
		if f.Signature.Recv() != nil {
			recvT = f.Signature.Recv().Type()
		} else {
			return false
		}
	} else if m != nil {
		name = m.Name()
		recvT = m.Type().(*types.Signature).Recv().Type()
	} else {
		return false
	}
	switch name {
	case "Evaluate", "EvaluateArgumentList":
		return recvInPkg(recvT, fullPkg("ast"))
	case "CallFunction", "GetChildNodeByField", "GetChildNodeByIndex", "GetChildNodeBySelector", "Value", "ContinueWithValue":
		return recvInPkg(recvT, fullPkg("model"))
	case "Get":
		return recvInPkg(recvT, fullPkg("ast"))
	}
	return false
}

func recvInPkg(t types.Type, pkg string) bool {
	if p, ok := t.(*types.Pointer); ok {
		t = p.Elem()
	}
	if n, ok := t.(*types.Named); ok && n.Obj().Pkg() != nil {
		return n.Obj().Pkg().Path() == pkg
	}
	return false
}

// memoGuard finds the `if e.Evaluated` test on the receiver: returns the If and the successor index taken when
// Evaluated is true.
func memoGuard(fn *ssa.Function, m *memoAnchors) (*ssa.If, int) {
	recv := receiver(fn)
	for _, b := range fn.Blocks {
		if len(b.Instrs) == 0 {
			continue
		}
		iff, ok := b.Instrs[len(b.Instrs)-1].(*ssa.If)
		if !ok {
			continue
		}
		isLoad := func(v ssa.Value) bool {
			f, base := fieldLoad(v)
			if f == nil || base != ssa.Value(recv) {
				return false
			}
			_, ok := m.evalFields[f]
			return ok
		}
		if kind, s, ok := condOn(iff.Cond, isLoad); ok && kind == "bool" {
			return iff, s
		}
	}
	return nil, 0
}

// INV-3
func ruleINV3(c *Ctx) {
	p := c.P
	m := c.memo()
	for _, fn := range []*ssa.Function{m.exprEval, m.atomEval} {
		if fn == nil {
			c.AnchorLost("Evaluate method of Expression/ExpressionAtom")
			continue
		}
		iff, sTrue := memoGuard(fn, m)
		if iff == nil {
			c.Fail(fnName(fn)+" / memo guard", p.Pos(fn.Pos()), "no test of the receiver's Evaluated flag found: the remembered value is never consulted")
			continue
		}
		// the true edge must return the stored Value with nil error without touching facts
		tb := iff.Block().Succs[sTrue]
		okRet := false
		if len(tb.Instrs) > 0 {
			if ret, ok := tb.Instrs[len(tb.Instrs)-1].(*ssa.Return); ok && len(ret.Results) == 2 {
				f, base := fieldLoad(ret.Results[0])
				_, isVal := m.valueFields[f]
				touches := false
				for _, in := range tb.Instrs {
					if ci, ok := in.(ssa.CallInstruction); ok && factTouching(ci) {
						touches = true
					}
				}
				okRet = f != nil && isVal && base == ssa.Value(receiver(fn)) && isNilConst(ret.Results[1]) && !touches
			}
		}
		c.Check(okRet, fnName(fn)+" / memo hit returns stored value", p.InstrPos(iff), "hit edge returns receiver.Value, nil", "the memo-hit edge does not return the receiver's stored Value with a nil error")
		n := 0
		for _, ci := range callsIn(fn) {
			if !factTouching(ci) {
				continue
			}
			n++
			dom := edgesDominate(fn, ci.(ssa.Instruction), func(b *ssa.BasicBlock, si int) bool {
				return b == iff.Block() && si == 1-sTrue
			})
			c.Check(dom, fmt.Sprintf("%s / guarded %s", fnName(fn), calleeName(ci)), p.InstrPos(ci), "dominated by the not-evaluated edge", "this fact-touching call can be reached without passing the memo test: a remembered node would be re-evaluated")
		}
		if n == 0 {
			c.Fail(fnName(fn)+" / fact-touching calls", p.Pos(fn.Pos()), "no fact-touching call found (anchor lost)")
		}
	}
}

// INV-4: memo set on success for the documented forms.
func ruleINV4(c *Ctx) {
	p := c.P
	m := c.memo()
	type form struct {
		fn    *ssa.Function
		name  string
		match Matcher
	}
	astp := fullPkg("ast")
	modelp := fullPkg("model")
	var forms []form
	if m.atomEval != nil {
		forms = append(forms,
			form{m.atomEval, "constant", matchNamedMethod(astp, "Constant", "Evaluate")},
			form{m.atomEval, "variable", matchNamedMethod(astp, "Variable", "Evaluate")},
			form{m.atomEval, "method call on a value node", func(ci ssa.CallInstruction) bool {
				if !matchNamedMethod(modelp, "ValueNode", "CallFunction")(ci) {
					return false
				}
				// exempt: the built-in (DEFUNC) form, whose receiver comes from dataContext.Get
				return !derivesFrom(ci.Common().Value, func(v ssa.Value) bool {
					call, ok := v.(*ssa.Call)
					return ok && matchNamedMethod(astp, "IDataContext", "Get")(call)
				})
			}},
			form{m.atomEval, "member field", matchNamedMethod(modelp, "ValueNode", "GetChildNodeByField")},
		)
	}
	if m.exprEval != nil {
		forms = append(forms,
			form{m.exprEval, "atom expression", matchNamedMethod(astp, "ExpressionAtom", "Evaluate")},
			form{m.exprEval, "binary operator result", func(ci ssa.CallInstruction) bool {
				f, _ := calleeOf(ci)
				return f != nil && fnPkgShort(f) == "pkg" && strings.HasPrefix(f.Name(), "Evaluate") && f.Signature.Params().Len() == 2
			}},
		)
	}
	for _, fm := range forms {
		stores := m.evalStores(fm.fn, true)
		calls := findCalls(fm.fn, fm.match)
		if len(calls) == 0 {
			c.Fail(fmt.Sprintf("%s / form %s", fnName(fm.fn), fm.name), p.Pos(fm.fn.Pos()), "no call site of this form found (anchor lost)")
			continue
		}
		for _, ci := range calls {
			construct := fmt.Sprintf("%s / form %s / %s", fnName(fm.fn), fm.name, calleeName(ci))
			ei := errResultIndex(ci.Common().Signature())
			var des []ssa.Value
			if ei >= 0 {
				des = resultValues(ci, ei)
			}
			// search for a nil-error return reachable without passing a memo store
			q := &AQuery{Fn: fm.fn, From: ci.(ssa.Instruction), Designated: des, Assume: AssumeNil,
				IsTarget: func(in ssa.Instruction, st *AState) bool {
					ret, ok := in.(*ssa.Return)
					if !ok || len(ret.Results) < 2 {
						return false
					}
					return st.Tri(ret.Results[1]) != TriNonNil
				},
				IsBlocker: func(in ssa.Instruction, st *AState) bool {
					for _, s := range stores {
						if in == ssa.Instruction(s) {
							return true
						}
					}
					// a later failing call ends the success path: model by stopping at returns of non-nil errors
					return false
				},
			}
			r := q.Run()
			if r.Found != nil && !returnIsErrorOfLaterCall(r.Found.(*ssa.Return), ci, fm.fn) {
				c.Fail(construct, p.InstrPos(ci), fmt.Sprintf("a successful evaluation of this form can return at %s without setting `Evaluated = true`: the value would be recomputed on every use", p.InstrPos(r.Found)), pathString(p, r.Path)...)
			} else if r.Overflow {
				c.Undecided(construct, p.InstrPos(ci), "path search exceeded its state budget")
			} else {
				c.OK(construct, p.InstrPos(ci), "every nil-error return after this call passes a memo store")
			}
		}
	}
}

// returnIsErrorOfLaterCall: the return's error operand is the error result of a call executed after ci (its failure
// path): such a return is not a success return even though the search could not prove it non-nil.
func returnIsErrorOfLaterCall(ret *ssa.Return, ci ssa.CallInstruction, fn *ssa.Function) bool {
	if len(ret.Results) < 2 {
		return false
	}
	res := false
	backSlice(ret.Results[len(ret.Results)-1], func(x ssa.Value) bool {
		switch v := x.(type) {
		case *ssa.Extract:
			if call, ok := v.Tuple.(*ssa.Call); ok && ssa.Instruction(call) != ci.(ssa.Instruction) {
				// guarded by err != nil test of that same extract?
				if dominatedByNonNilTest(ret.Block(), v) {
					res = true
				}
			}
			return false
		case *ssa.Phi:
			return true
		}
		return false
	})
	return res
}

// dominatedByNonNilTest: block b is dominated by the non-nil edge of a test of value v.
func dominatedByNonNilTest(b *ssa.BasicBlock, v ssa.Value) bool {
	for _, r := range *v.Referrers() {
		bo, ok := r.(*ssa.BinOp)
		if !ok {
			continue
		}
		for _, rr := range *bo.Referrers() {
			iff, ok := rr.(*ssa.If)
			if !ok {
				continue
			}
			kind, sNil, ok := condOn(iff.Cond, func(x ssa.Value) bool { return x == v })
			if !ok || kind != "nil" {
				continue
			}
			nn := iff.Block().Succs[1-sNil]
			if nn.Dominates(b) && len(nn.Preds) == 1 {
				return true
			}
		}
	}
	return false
}

// INV-5
func ruleINV5(c *Ctx) {
	p := c.P
	fn := p.Method("ast", "WorkingMemory", "IndexVariables")
	if fn == nil {
		c.AnchorLost("(*ast.WorkingMemory).IndexVariables")
		return
	}
	wmField := func(name string) *types.Var { return p.Field("ast", "WorkingMemory", name) }
	varSnap, exprSnap, atomSnap := wmField("variableSnapshotMap"), wmField("expressionSnapshotMap"), wmField("expressionAtomSnapshotMap")
	exprVar, atomVar := wmField("expressionVariableMap"), wmField("expressionAtomVariableMap")
	if varSnap == nil || exprSnap == nil || atomSnap == nil || exprVar == nil || atomVar == nil {
		c.AnchorLost("WorkingMemory map fields")
		return
	}
	recv := receiver(fn)
	loops := naturalLoops(fn)
	// which loop ranges over which field of the receiver
	loopOf := map[*types.Var]*Loop{}
	for _, l := range loops {
		x := rangeOperand(l)
		if x == nil {
			continue
		}
		f, base := fieldLoad(x)
		if f != nil && base == ssa.Value(recv) {
			loopOf[f] = l
		}
	}
	outer := loopOf[varSnap]
	// Two forms are known. The containment form ranges over the node registries inside a range over the variable registry
	// and searches the variable's snapshot in the node's; the structural form (D43) ranges over each node registry on its
	// own and collects the variables below the node from its children (inv5Structural).
	structural := loopOf[exprSnap] != nil && loopOf[atomSnap] != nil && (outer == nil || (!outer.Contains(loopOf[exprSnap].Header) && !outer.Contains(loopOf[atomSnap].Header)))
	if outer == nil && !structural {
		c.Fail("IndexVariables / outer range over variableSnapshotMap", p.Pos(fn.Pos()), "no range over the variable snapshot map")
		return
	}
	first := []*Loop{outer}
	if structural {
		first = []*Loop{loopOf[exprSnap], loopOf[atomSnap]}
		if outer != nil {
			first = append(first, outer)
		}
	}
	// re-made maps: a store of a fresh MakeMap into each index field before the loops
	for _, f := range []*types.Var{exprVar, atomVar} {
		remade := false
		for _, b := range fn.Blocks {
			for _, in := range b.Instrs {
				sf, base, val := fieldStore(in)
				if sf == f && base == ssa.Value(recv) {
					if _, ok := val.(*ssa.MakeMap); ok {
						before := true
						for _, l := range first {
							if l.Contains(b) || !b.Dominates(l.Header) {
								before = false
							}
						}
						if before {
							remade = true
						}
					}
				}
			}
		}
		c.Check(remade, "IndexVariables / "+f.Name()+" re-made before indexing", p.Pos(fn.Pos()), "fresh map stored before the loops", "the index map "+f.Name()+" is not replaced by a fresh map before indexing: stale entries of an earlier build would survive")
	}
	if structural {
		inv5Structural(c, fn, loops, loopOf, varSnap, [][2]*types.Var{{exprSnap, exprVar}, {atomSnap, atomVar}})
		return
	}
	for _, pr := range []struct {
		snap, idx *types.Var
	}{{exprSnap, exprVar}, {atomSnap, atomVar}} {
		name := "IndexVariables / append into " + pr.idx.Name()
		inner := loopOf[pr.snap]
		if inner == nil || !outer.Contains(inner.Header) {
			c.Fail(name, p.Pos(fn.Pos()), "no range over "+pr.snap.Name()+" nested in the range over the variable snapshot map: nodes of this kind are not indexed")
			continue
		}
		// find map update on idx field inside inner loop
		var upd *ssa.MapUpdate
		for b := range inner.Blocks {
			for _, in := range b.Instrs {
				if mu, ok := in.(*ssa.MapUpdate); ok {
					if f, base := fieldLoad(mu.Map); f == pr.idx && base == ssa.Value(recv) {
						upd = mu
					}
				}
			}
		}
		if upd == nil {
			c.Fail(name, p.InstrPos(inner.Header.Instrs[0]), "no update of "+pr.idx.Name()+" inside the nested loop")
			continue
		}
		// guard: strings.Contains(innerKey, outerKey) true edge dominates upd
		okGuard := false
		var why string
		for b := range inner.Blocks {
			if len(b.Instrs) == 0 {
				continue
			}
			iff, ok := b.Instrs[len(b.Instrs)-1].(*ssa.If)
			if !ok {
				continue
			}
			call, ok := iff.Cond.(*ssa.Call)
			if !ok || !matchPkgFunc("strings", "Contains")(call) {
				continue
			}
			hay, needle := call.Call.Args[0], call.Call.Args[1]
			// the key of a snapshot map is the node's snapshot: GetSnapshot() of the range value is the same string
			snapOf := func(v ssa.Value, l *Loop) bool {
				call, ok := v.(*ssa.Call)
				if !ok || !calleeNameIs(call, "GetSnapshot") {
					return false
				}
				if call.Call.IsInvoke() {
					return isRangeValueOf(call.Call.Value, l)
				}
				return len(call.Call.Args) == 1 && isRangeValueOf(call.Call.Args[0], l)
			}
			hayOK := isRangeKeyOf(hay, inner) || snapOf(hay, inner)
			needleOK := isRangeKeyOf(needle, outer) || snapOf(needle, outer)
			if !hayOK || !needleOK {
				why = "strings.Contains arguments are not (key of " + pr.snap.Name() + ", key of variableSnapshotMap) in this order"
				continue
			}
			if edgesDominate(fn, upd, func(bb *ssa.BasicBlock, si int) bool { return bb == b && si == 0 }) {
				okGuard = true
			}
		}
		if why == "" {
			why = "the append is not guarded by strings.Contains(nodeSnapshot, variableSnapshot)"
		}
		// key of the update must be the outer range value (the variable), value must append the inner range value
		keyOK := isRangeValueOf(upd.Key, outer)
		valOK := derivesFrom(upd.Value, func(v ssa.Value) bool { return isRangeValueOf(v, inner) }) || appendOfRangeValue(upd.Value, inner)
		c.Check(okGuard && keyOK && valOK, name, p.InstrPos(upd), "guarded by Contains(nodeSnapshot, varSnapshot), keyed by the variable, appends the node",
			fmt.Sprintf("index construction broken: guardOK=%v keyIsVariable=%v appendsNode=%v (%s)", okGuard, keyOK, valOK, why))
	}
}

func isRangeKeyOf(v ssa.Value, l *Loop) bool   { return isRangeComponent(v, l, 1) }
func isRangeValueOf(v ssa.Value, l *Loop) bool { return isRangeComponent(v, l, 2) }

func isRangeComponent(v ssa.Value, l *Loop, idx int) bool {
	ex, ok := v.(*ssa.Extract)
	if !ok || ex.Index != idx {
		return false
	}
	nx, ok := ex.Tuple.(*ssa.Next)
	if !ok {
		return false
	}
	return nx.Block() == l.Header
}

func appendOfRangeValue(v ssa.Value, l *Loop) bool {
	call, ok := v.(*ssa.Call)
	if !ok {
		return false
	}
	b, ok := call.Call.Value.(*ssa.Builtin)
	if !ok || b.Name() != "append" || len(call.Call.Args) < 2 {
		return false
	}
	// second arg is a slice literal holding the range value
	found := false
	backSlice(call.Call.Args[1], func(x ssa.Value) bool {
		if isRangeValueOf(x, l) {
			found = true
			return false
		}
		if a, ok := x.(*ssa.Alloc); ok {
			for _, r := range *a.Referrers() {
				if ia, ok := r.(*ssa.IndexAddr); ok {
					for _, rr := range *ia.Referrers() {
						if st, ok := rr.(*ssa.Store); ok && isRangeValueOf(st.Val, l) {
							found = true
						}
					}
				}
			}
		}
		return true
	})
	return found
}

// INV-6
func ruleINV6(c *Ctx) {
	p := c.P
	m := c.memo()
	wmField := func(name string) *types.Var { return p.Field("ast", "WorkingMemory", name) }
	exprSnap, atomSnap := wmField("expressionSnapshotMap"), wmField("expressionAtomSnapshotMap")
	exprVar, atomVar := wmField("expressionVariableMap"), wmField("expressionAtomVariableMap")
	if m.resetVar == nil || m.resetAll == nil || m.reset == nil {
		c.AnchorLost("WorkingMemory.ResetVariable/ResetAll/Reset")
		return
	}
	// helper: in fn, find a loop over (a lookup in / the whole of) field f of the receiver that stores Evaluated=false
	// on its element unconditionally (cond==false) or under some guard (cond==true allowed).
	check := func(fn *ssa.Function, f *types.Var, lookupKeyedByParam bool, allowGuard bool, label string) {
		recv := receiver(fn)
		construct := fmt.Sprintf("%s / clears %s", fnName(fn), f.Name())
		ok := false
		var why = "no loop over " + f.Name() + " storing Evaluated=false on its elements"
		for _, l := range naturalLoops(fn) {
			x := rangeOperand(l)
			if x == nil {
				continue
			}
			fromField := false
			keyed := false
			backSlice(x, func(v ssa.Value) bool {
				if ff, base := fieldLoad(v); ff == f && base == ssa.Value(recv) {
					fromField = true
					return false
				}
				if lk, ok := v.(*ssa.Lookup); ok {
					if len(fn.Params) > 1 && lk.Index == ssa.Value(fn.Params[1]) {
						keyed = true
					}
				}
				return true
			})
			if !fromField || (lookupKeyedByParam && !keyed) {
				continue
			}
			// find store Evaluated=false on an element of the loop
			for b := range l.Blocks {
				for _, in := range b.Instrs {
					sf, base, val := fieldStore(in)
					if sf == nil {
						continue
					}
					if _, isEval := m.evalFields[sf]; !isEval {
						continue
					}
					if bv, isb := constBool(val); !isb || bv {
						continue
					}
					if !derivesFrom(base, func(v ssa.Value) bool {
						return isRangeValueOf(v, l) || isIndexOfRanged(v, x)
					}) {
						continue
					}
					// unconditional within the loop body: the store's block post-dominates... approximate:
					// every path from the loop header's "has next" edge back to the header passes the store.
					uncond := passesOnEveryIteration(l, in)
					if uncond || allowGuard {
						ok = true
					} else {
						why = "the store of Evaluated=false is conditional inside the loop over " + f.Name()
					}
					// no early exit other than exhaustion
					for _, ex := range l.Exits() {
						eb := ex[0].(*ssa.BasicBlock)
						if eb != l.Header {
							ok = false
							why = "the loop over " + f.Name() + " has an early exit"
						}
					}
				}
			}
		}
		c.Check(ok, construct, p.Pos(fn.Pos()), label, why)
	}
	check(m.resetVar, exprVar, true, false, "ranges over expressionVariableMap[param], clears every element")
	check(m.resetVar, atomVar, true, false, "ranges over expressionAtomVariableMap[param], clears every element")
	check(m.resetAll, exprSnap, false, false, "clears every expression")
	check(m.resetAll, atomSnap, false, false, "clears every expression atom")
	// Reset(name): either forwards to ResetVariable or clears by containment in both snapshot maps
	check(m.reset, exprSnap, false, true, "clears matching expressions")
	check(m.reset, atomSnap, false, true, "clears matching expression atoms")
	// Reset's guard must use the parameter `name` via strings.Contains on the key or GrlText
	{
		fn := m.reset
		n := 0
		for _, ci := range findCalls(fn, matchPkgFunc("strings", "Contains")) {
			if len(fn.Params) > 1 && ci.Common().Args[1] == ssa.Value(fn.Params[1]) {
				n++
			}
		}
		c.Check(n >= 2, fnName(fn)+" / containment tests use the name parameter as needle", p.Pos(fn.Pos()), fmt.Sprintf("%d containment tests with the parameter as needle", n), "Reset(name) does not test containment of its parameter in both node kinds")
		// each fallback loop clears an element as soon as its registry key OR its rule text contains the name: the true
		// edge of both containment tests leads straight to the store (no further condition in between)
		for _, f := range []*types.Var{exprSnap, atomSnap} {
			var loop *Loop
			for _, l := range naturalLoops(fn) {
				x := rangeOperand(l)
				if x == nil {
					continue
				}
				if ff, base := fieldLoad(x); ff == f && base == ssa.Value(receiver(fn)) {
					loop = l
				}
			}
			construct := fmt.Sprintf("%s / %s: key or text containing the name is enough", fnName(fn), f.Name())
			if loop == nil {
				c.Fail(construct, p.Pos(fn.Pos()), "no loop over "+f.Name())
				continue
			}
			storeBlocks := map[*ssa.BasicBlock]bool{}
			for b := range loop.Blocks {
				for _, in := range b.Instrs {
					if sf, _, val := fieldStore(in); sf != nil {
						if _, isEval := m.evalFields[sf]; isEval {
							if bv, isb := constBool(val); isb && !bv {
								storeBlocks[b] = true
							}
						}
					}
				}
			}
			byKey, byText := false, false
			for b := range loop.Blocks {
				iff, isIf := b.Instrs[len(b.Instrs)-1].(*ssa.If)
				if !isIf {
					continue
				}
				call, isCall := iff.Cond.(*ssa.Call)
				if !isCall || !matchPkgFunc("strings", "Contains")(call) || len(fn.Params) < 2 || call.Call.Args[1] != ssa.Value(fn.Params[1]) {
					continue
				}
				// true edge leads to the store through unconditional jumps only
				t := b.Succs[0]
				for i := 0; i < 4 && !storeBlocks[t]; i++ {
					if _, isJump := t.Instrs[len(t.Instrs)-1].(*ssa.Jump); !isJump || len(t.Succs) != 1 {
						break
					}
					t = t.Succs[0]
				}
				if !storeBlocks[t] {
					continue
				}
				hay := call.Call.Args[0]
				if hf, _ := fieldLoad(hay); hf != nil && hf.Name() == "GrlText" {
					byText = true
				} else if isRangeKeyOf(hay, loop) {
					byKey = true
				}
			}
			c.Check(byKey && byText, construct, p.Pos(fn.Pos()), "strings.Contains(key, name) || strings.Contains(node.GrlText, name) lead straight to the store", fmt.Sprintf("the fallback of Reset(name) no longer clears every node whose registry key or rule text contains the name (byKey=%v byText=%v): Forget/Changed with a snippet that is not a variable leaves matching nodes remembered", byKey, byText))
		}
		// forwarding branch: ResetVariable called with the range value whose GrlText equals the name
		fw := findCalls(fn, matchStatic(m.resetVar))
		okFw := len(fw) >= 1
		whyFw := "Reset(name) no longer forwards a matching variable to ResetVariable"
		for _, ci := range fw {
			v := ci.Common().Args[1]
			// dominated by the true edge of `v.GrlText == name` (exact match: a looser test would stop at the first
			// partially matching variable and skip the containment pass for everything else)
			dom := edgesDominate(fn, ci.(ssa.Instruction), func(b *ssa.BasicBlock, si int) bool {
				iff, isIf := b.Instrs[len(b.Instrs)-1].(*ssa.If)
				if !isIf {
					return false
				}
				bo, isBo := iff.Cond.(*ssa.BinOp)
				if !isBo || (bo.Op != token.EQL && bo.Op != token.NEQ) {
					return false
				}
				isText := func(x ssa.Value) bool {
					f, base := fieldLoad(x)
					return f != nil && f.Name() == "GrlText" && base == v
				}
				isName := func(x ssa.Value) bool { return len(fn.Params) > 1 && x == ssa.Value(fn.Params[1]) }
				if !((isText(bo.X) && isName(bo.Y)) || (isText(bo.Y) && isName(bo.X))) {
					return false
				}
				if bo.Op == token.EQL {
					return si == 0
				}
				return si == 1
			})
			if !dom {
				okFw = false
				whyFw = "the early forward to ResetVariable is not guarded by an exact match of the variable's text with the name: Reset(name) can return after resetting a merely similar variable, leaving the named one remembered"
			}
		}
		c.Check(okFw, fnName(fn)+" / forwards a matching variable to ResetVariable", p.Pos(fn.Pos()), "forwarding call under variable.GrlText == name", whyFw)
	}
}

func isIndexOfRanged(v ssa.Value, ranged ssa.Value) bool {
	switch x := v.(type) {
	case *ssa.IndexAddr:
		return x.X == ranged
	case *ssa.Index:
		return x.X == ranged
	}
	return false
}

// passesOnEveryIteration: every path from the header around the loop back to the header passes instruction in.
func passesOnEveryIteration(l *Loop, in ssa.Instruction) bool {
	fn := in.Parent()
	// search from header start to a back edge source's end avoiding `in`
	visited := map[*ssa.BasicBlock]bool{}
	var stack []*ssa.BasicBlock
	for _, s := range l.Header.Succs {
		if l.Blocks[s] {
			stack = append(stack, s)
		}
	}
	_ = fn
	for len(stack) > 0 {
		b := stack[len(stack)-1]
		stack = stack[:len(stack)-1]
		if visited[b] {
			continue
		}
		visited[b] = true
		if b == l.Header {
			return false // came around without meeting `in`
		}
		has := false
		for _, x := range b.Instrs {
			if x == in {
				has = true
			}
		}
		if has {
			continue
		}
		for _, s := range b.Succs {
			if l.Blocks[s] {
				stack = append(stack, s)
			}
		}
	}
	return true
}

// INV-7
func ruleINV7(c *Ctx) {
	p := c.P
	m := c.memo()
	wmF := p.Field("ast", "BuiltInFunctions", "WorkingMemory")
	for _, name := range []string{"Forget", "Changed"} {
		fn := p.Method("ast", "BuiltInFunctions", name)
		if fn == nil {
			c.AnchorLost("(*ast.BuiltInFunctions)." + name)
			continue
		}
		ok := false
		for _, ci := range findCalls(fn, matchStatic(m.reset)) {
			args := ci.Common().Args
			if len(args) == 2 && len(fn.Params) == 2 && args[1] == ssa.Value(fn.Params[1]) {
				f, base := fieldLoad(args[0])
				viaKB := false
				if f == p.Field("ast", "KnowledgeBase", "WorkingMemory") {
					if f2, base2 := fieldLoad(base); f2 == p.Field("ast", "BuiltInFunctions", "Knowledge") && base2 == ssa.Value(fn.Params[0]) {
						viaKB = true
					}
				}
				if (f == wmF && base == ssa.Value(fn.Params[0])) || viaKB {
					// must be on every path entry->return
					t, _ := reach(fn, nil, func(in ssa.Instruction) bool { _, r := in.(*ssa.Return); return r }, func(in ssa.Instruction) bool { return in == ci.(ssa.Instruction) }, nil)
					ok = t == nil
				}
			}
		}
		c.Check(ok, "BuiltInFunctions."+name+" / forwards its parameter to gf.WorkingMemory.Reset", p.Pos(fn.Pos()), "must-call Reset(param) on the bound working memory", name+"(x) does not (on every path) call WorkingMemory.Reset(x) on the working memory bound to the built-ins")
	}
	// DEFUNC binding in both engine entry points
	for _, en := range []string{"ExecuteWithContext", "FetchMatchingRules"} {
		fn := p.Method("engine", "GruleEngine", en)
		if fn == nil {
			c.AnchorLost("(*engine.GruleEngine)." + en)
			continue
		}
		c.Check(defuncBinding(c, fn), "engine."+en+" / DEFUNC bound to the call's knowledge base, its working memory and the call's data context", p.Pos(fn.Pos()), "literal fields and Add(\"DEFUNC\", lit) on the call's data context", "the built-in function object is not bound to this call's knowledge base / working memory / data context")
	}
}

func defuncBinding(c *Ctx, fn *ssa.Function) bool {
	p := c.P
	bt := p.Named("ast", "BuiltInFunctions")
	if bt == nil {
		return false
	}
	var kbParam, dcParam *ssa.Parameter
	for _, prm := range fn.Params {
		if isNamed(prm.Type(), fullPkg("ast"), "KnowledgeBase") {
			kbParam = prm
		}
		if isNamed(prm.Type(), fullPkg("ast"), "IDataContext") {
			dcParam = prm
		}
	}
	if kbParam == nil || dcParam == nil {
		return false
	}
	wmOfKB := p.Field("ast", "KnowledgeBase", "WorkingMemory")
	for _, b := range fn.Blocks {
		for _, in := range b.Instrs {
			al, ok := in.(*ssa.Alloc)
			if !ok || !types.Identical(al.Type(), types.NewPointer(bt)) {
				continue
			}
			got := map[string]bool{}
			for _, r := range *al.Referrers() {
				fa, ok := r.(*ssa.FieldAddr)
				if !ok {
					continue
				}
				f := fieldOfAddr(fa)
				for _, rr := range *fa.Referrers() {
					st, ok := rr.(*ssa.Store)
					if !ok {
						continue
					}
					switch f.Name() {
					case "Knowledge":
						got["Knowledge"] = st.Val == ssa.Value(kbParam)
					case "DataContext":
						got["DataContext"] = st.Val == ssa.Value(dcParam)
					case "WorkingMemory":
						ff, base := fieldLoad(st.Val)
						got["WorkingMemory"] = ff == wmOfKB && base == ssa.Value(kbParam)
					}
				}
			}
			if !(got["Knowledge"] && got["DataContext"] && got["WorkingMemory"]) {
				continue
			}
			// Add("DEFUNC", lit) on dcParam
			for _, ci := range findCalls(fn, matchNamedMethod(fullPkg("ast"), "IDataContext", "Add")) {
				cc := ci.Common()
				if cc.Value != ssa.Value(dcParam) || len(cc.Args) != 2 {
					continue
				}
				if s, ok := constString(cc.Args[0]); !ok || s != "DEFUNC" {
					continue
				}
				if derivesFromValue(cc.Args[1], al) {
					return true
				}
			}
		}
	}
	return false
}

// INV-8 who-may-write the flags
func ruleINV8(c *Ctx) {
	p := c.P
	allowed := map[string]map[string]bool{
		"Expression.Evaluated=true":      {"(*ast.Expression).Evaluate": true},
		"ExpressionAtom.Evaluated=true":  {"(*ast.ExpressionAtom).Evaluate": true},
		"Expression.Evaluated=false":     {"(*ast.WorkingMemory).Reset": true, "(*ast.WorkingMemory).ResetVariable": true, "(*ast.WorkingMemory).ResetAll": true},
		"ExpressionAtom.Evaluated=false": {"(*ast.WorkingMemory).Reset": true, "(*ast.WorkingMemory).ResetVariable": true, "(*ast.WorkingMemory).ResetAll": true},
		"RuleEntry.Retracted=true":       {"(*ast.KnowledgeBase).RetractRule": true},
		"RuleEntry.Retracted=false":      {"(*ast.KnowledgeBase).Reset": true, "(*ast.RuleEntry).Clone": true},
		"RuleEntry.Deleted=true":         {"(*ast.KnowledgeBase).RemoveRuleEntry": true, "(*ast.KnowledgeLibrary).RemoveRuleEntry": true},
		"RuleEntry.Deleted=copy":         {"(*ast.RuleEntry).Clone": true, "(*ast.Catalog).BuildKnowledgeBase": true},
		"RuleEntry.Retracted=copy":       {},
		"Expression.Evaluated=copy":      {},
		"ExpressionAtom.Evaluated=copy":  {},
	}
	watch := map[*types.Var]string{}
	for _, tf := range [][2]string{{"Expression", "Evaluated"}, {"ExpressionAtom", "Evaluated"}, {"RuleEntry", "Retracted"}, {"RuleEntry", "Deleted"}} {
		if f := p.Field("ast", tf[0], tf[1]); f != nil {
			watch[f] = tf[0] + "." + tf[1]
		} else {
			c.AnchorLost("field ast." + tf[0] + "." + tf[1])
		}
	}
	count := map[string]int{}
	var extraWriters []string
	defer func() {
		if len(extraWriters) > 0 {
			c.Notes = append(c.Notes, "INV-8 additional conservative writers (not judged): "+strings.Join(extraWriters, "; "))
		}
	}()
	for _, fn := range p.ModuleFuncs() {
		for _, b := range fn.Blocks {
			for _, in := range b.Instrs {
				f, _, val := fieldStore(in)
				if f == nil {
					continue
				}
				name, ok := watch[f]
				if !ok {
					continue
				}
				kind := "copy"
				if bv, isb := constBool(val); isb {
					kind = fmt.Sprint(bv)
				}
				key := name + "=" + kind
				count[key]++
				if allowed[key][fnName(fn)] {
					continue
				}
				// clearing a memo flag or un-retracting somewhere else is the conservative direction for the properties this
				// rule serves (more re-evaluation, more active rules): recorded, not judged (INV-9 polices wholesale clearing)
				if key == "Expression.Evaluated=false" || key == "ExpressionAtom.Evaluated=false" || key == "RuleEntry.Retracted=false" {
					extraWriters = append(extraWriters, key+" in "+fnName(fn))
					continue
				}
				c.Fail(fmt.Sprintf("%s written in %s", key, fnName(fn)), p.InstrPos(in), fmt.Sprintf("store of %s outside its owners %v", key, keysOf(allowed[key])))
			}
		}
	}
	var ks []string
	for k := range count {
		ks = append(ks, k)
	}
	sort.Strings(ks)
	for _, k := range ks {
		c.OK(fmt.Sprintf("%s owners", k), "-", fmt.Sprintf("%d stores, all inside the owner set", count[k]))
	}
}

func keysOf(m map[string]bool) []string {
	var out []string
	for k := range m {
		out = append(out, k)
	}
	sort.Strings(out)
	return out
}

// bulkInvalidators: functions storing Evaluated=false for every element of a snapshot map (no guard depending on a parameter).
func (c *Ctx) bulkInvalidators(m *memoAnchors) []*ssa.Function {
	p := c.P
	snap := map[*types.Var]bool{}
	for _, n := range []string{"expressionSnapshotMap", "expressionAtomSnapshotMap"} {
		if f := p.Field("ast", "WorkingMemory", n); f != nil {
			snap[f] = true
		}
	}
	var out []*ssa.Function
	for fn := range m.invalidators {
		bulk := false
		for _, l := range naturalLoops(fn) {
			x := rangeOperand(l)
			if x == nil {
				continue
			}
			f, _ := fieldLoad(x)
			if f == nil || !snap[f] {
				continue
			}
			for b := range l.Blocks {
				for _, in := range b.Instrs {
					sf, _, val := fieldStore(in)
					if sf == nil {
						continue
					}
					if _, ok := m.evalFields[sf]; !ok {
						continue
					}
					if bv, isb := constBool(val); isb && !bv && passesOnEveryIteration(l, in) {
						bulk = true
					}
				}
			}
		}
		if bulk {
			out = append(out, fn)
		}
	}
	sort.Slice(out, func(i, j int) bool { return out[i].String() < out[j].String() })
	return out
}

// engineCycleLoop returns the outermost loop of ExecuteWithContext that contains the RuleEntry.Evaluate call.
func (c *Ctx) engineCycleLoop() (*ssa.Function, *Loop, *Loop, []*Loop) {
	fn := c.P.Method("engine", "GruleEngine", "ExecuteWithContext")
	if fn == nil {
		return nil, nil, nil, nil
	}
	loops := naturalLoops(fn)
	evals := findCalls(fn, matchNamedMethod(fullPkg("ast"), "RuleEntry", "Evaluate"))
	if len(evals) == 0 {
		return fn, nil, nil, loops
	}
	var outer, inner *Loop
	for _, l := range loops {
		if l.Blocks[evals[0].Block()] {
			if outer == nil || len(l.Blocks) > len(outer.Blocks) {
				outer = l
			}
			if inner == nil || len(l.Blocks) < len(inner.Blocks) {
				inner = l
			}
		}
	}
	return fn, outer, inner, loops
}

// INV-9
func ruleINV9(c *Ctx) {
	p := c.P
	m := c.memo()
	bulks := c.bulkInvalidators(m)
	if len(bulks) == 0 {
		c.Fail("bulk invalidator", "-", "no function clears the whole memo (anchor lost: ENG-1 needs one)")
		return
	}
	isBulk := map[*ssa.Function]bool{}
	for _, b := range bulks {
		isBulk[b] = true
	}
	// transitively: module functions that call a bulk invalidator
	reachesBulk := func(f *ssa.Function) bool {
		r := c.reachableModuleFuncs([]*ssa.Function{f}, true)
		for b := range isBulk {
			if r[b] {
				return true
			}
		}
		return false
	}
	// (a) not from the call trees of RuleEntry.Evaluate / Execute
	for _, name := range []string{"Evaluate", "Execute"} {
		fn := p.Method("ast", "RuleEntry", name)
		if fn == nil {
			c.AnchorLost("(*ast.RuleEntry)." + name)
			continue
		}
		c.Check(!reachesBulk(fn), "call tree of RuleEntry."+name+" / no bulk invalidator", p.Pos(fn.Pos()), "not reachable", "a function that clears the whole memo ("+fnName(bulks[0])+") is reachable from RuleEntry."+name+": shared sub-expressions would be re-evaluated for every rule/cycle")
	}
	// (b) not called inside the engine's cycle loop
	fn, outer, _, _ := c.engineCycleLoop()
	if fn == nil || outer == nil {
		c.AnchorLost("cycle loop of ExecuteWithContext")
		return
	}
	bad := ""
	for _, ci := range callsIn(fn) {
		if !outer.Blocks[ci.Block()] {
			continue
		}
		f, _ := calleeOf(ci)
		if f == nil || !fnInModule(f) {
			continue
		}
		if isBulk[f] || (f.Blocks != nil && fnName(f) != "(*ast.RuleEntry).Evaluate" && fnName(f) != "(*ast.RuleEntry).Execute" && reachesBulk(f)) {
			bad = calleeName(ci) + " at " + p.InstrPos(ci)
		}
	}
	c.Check(bad == "", "engine cycle loop / no bulk invalidator", p.Pos(fn.Pos()), "none inside the loop", "the whole memo is cleared inside the cycle loop ("+bad+")")
}

// INV-10
func ruleINV10(c *Ctx) {
	p := c.P
	fn := p.Method("builder", "RuleBuilder", "BuildRuleFromResource")
	idx := p.Method("ast", "WorkingMemory", "IndexVariables")
	if fn == nil || idx == nil {
		c.AnchorLost("BuildRuleFromResource / IndexVariables")
		return
	}
	walks := findCalls(fn, func(ci ssa.CallInstruction) bool {
		f, _ := calleeOf(ci)
		return f != nil && f.Name() == "Walk" && strings.Contains(f.String(), "antlr")
	})
	if len(walks) == 0 {
		c.Fail("BuildRuleFromResource / tree walk", p.Pos(fn.Pos()), "no ParseTreeWalker.Walk call (anchor lost)")
		return
	}
	for _, w := range walks {
		t, path := reach(fn, w.(ssa.Instruction), func(in ssa.Instruction) bool { _, r := in.(*ssa.Return); return r }, func(in ssa.Instruction) bool {
			ci, ok := in.(ssa.CallInstruction)
			return ok && matchStatic(idx)(ci)
		}, nil)
		if t != nil {
			c.Fail("BuildRuleFromResource / IndexVariables after the walk", p.InstrPos(w), "a return at "+p.InstrPos(t)+" is reachable after the tree walk without re-indexing the working memory", pathString(p, path)...)
		} else {
			c.OK("BuildRuleFromResource / IndexVariables after the walk", p.InstrPos(w), "every path from the walk to a return passes IndexVariables")
		}
	}
}

// INV-11
func ruleINV11(c *Ctx) {
	p := c.P
	astp := fullPkg("ast")
	pairs := []struct{ accept, add, recvIface string }{
		{"AcceptExpression", "AddExpression", "ExpressionReceiver"},
		{"AcceptExpressionAtom", "AddExpressionAtom", "ExpressionAtomReceiver"},
		{"AcceptVariable", "AddVariable", "VariableReceiver"},
	}
	lp := p.SSAPkg("antlr")
	if lp == nil {
		c.AnchorLost("package antlr")
		return
	}
	var lfuncs []*ssa.Function
	for _, f := range p.ModuleFuncs() {
		if fnPkgShort(f) == "antlr" {
			lfuncs = append(lfuncs, f)
		}
	}
	for _, pr := range pairs {
		addFn := p.Method("ast", "WorkingMemory", pr.add)
		if addFn == nil {
			c.AnchorLost("(*ast.WorkingMemory)." + pr.add)
			continue
		}
		n := 0
		for _, fn := range lfuncs {
			for _, ci := range callsIn(fn) {
				f, m := calleeOf(ci)
				name := ""
				if f != nil {
					name = f.Name()
				} else if m != nil {
					name = m.Name()
				}
				if name != pr.accept {
					continue
				}
				n++
				args := ci.Common().Args
				arg := args[len(args)-1]
				ok := derivesFrom(arg, func(v ssa.Value) bool {
					call, isCall := v.(*ssa.Call)
					return isCall && matchStatic(addFn)(call)
				}) && !derivesFromOtherThanCall(arg, addFn)
				c.Check(ok, fmt.Sprintf("%s / %s argument is the canonical node", fnName(fn), pr.accept), p.InstrPos(ci), "argument is the result of WorkingMemory."+pr.add,
					"the node handed to "+pr.accept+" is not the result of WorkingMemory."+pr.add+": a raw parsed node would bypass sharing and the invalidation index")
			}
		}
		if n == 0 {
			c.Fail("listener / calls of "+pr.accept, "-", "no call found (anchor lost)")
		}
		// Add* is lookup-before-insert keyed by GetSnapshot of its argument
		ok := false
		var pos string
		for _, b := range addFn.Blocks {
			for _, in := range b.Instrs {
				mu, isMU := in.(*ssa.MapUpdate)
				if !isMU {
					continue
				}
				pos = p.InstrPos(in)
				keyIsSnap := derivesFrom(mu.Key, func(v ssa.Value) bool {
					call, isCall := v.(*ssa.Call)
					return isCall && calleeNameIs(call, "GetSnapshot") && len(addFn.Params) > 1 && call.Call.Args[0] == ssa.Value(addFn.Params[1])
				})
				valIsArg := len(addFn.Params) > 1 && mu.Value == ssa.Value(addFn.Params[1])
				// dominated by the miss edge of a comma-ok lookup with the same key in the same map
				guarded := false
				for _, bb := range addFn.Blocks {
					if len(bb.Instrs) == 0 {
						continue
					}
					iff, isIf := bb.Instrs[len(bb.Instrs)-1].(*ssa.If)
					if !isIf {
						continue
					}
					kind, sTrue, okc := condOn(iff.Cond, func(v ssa.Value) bool {
						ex, isEx := v.(*ssa.Extract)
						if !isEx || ex.Index != 1 {
							return false
						}
						lk, isLk := ex.Tuple.(*ssa.Lookup)
						return isLk && lk.CommaOk && lk.Index == mu.Key && sameFieldLoad(lk.X, mu.Map)
					})
					if !okc || kind != "bool" {
						continue
					}
					// hit edge returns the stored node
					hit := bb.Succs[sTrue]
					hitReturnsStored := false
					if r, isRet := hit.Instrs[len(hit.Instrs)-1].(*ssa.Return); isRet && len(r.Results) == 1 {
						if ex, isEx := r.Results[0].(*ssa.Extract); isEx && ex.Index == 0 {
							if _, isLk := ex.Tuple.(*ssa.Lookup); isLk {
								hitReturnsStored = true
							}
						}
					}
					if hitReturnsStored && edgesDominate(addFn, mu, func(x *ssa.BasicBlock, si int) bool { return x == bb && si == 1-sTrue }) {
						guarded = true
					}
				}
				ok = keyIsSnap && valIsArg && guarded
			}
		}
		c.Check(ok, fnName(addFn)+" / lookup-before-insert keyed by GetSnapshot", pos, "hit returns the stored node, miss inserts the argument under its snapshot", "WorkingMemory."+pr.add+" is not a lookup-before-insert keyed by the argument's GetSnapshot()")
	}
	_ = astp
	_ = token.NoPos
}

func calleeNameIs(ci ssa.CallInstruction, name string) bool {
	f, m := calleeOf(ci)
	if f != nil {
		return publicName(f) == name
	}
	if m != nil {
		return m.Name() == name
	}
	return false
}

// publicName: the name a function is known under: its own, or that of the one-line wrapper that delegates to it.
func publicName(f *ssa.Function) string {
	if f == nil {
		return ""
	}
	if w := delegateName[f]; w != nil {
		return w.Name()
	}
	return f.Name()
}

func sameFieldLoad(a, b ssa.Value) bool {
	fa, ba := fieldLoad(a)
	fb, bb := fieldLoad(b)
	return fa != nil && fa == fb && ba == bb
}

// derivesFromOtherThanCall: the value has a Phi edge / alternative source that is not a result of addFn
// (e.g. `if x { v = wm.Add(v) }` leaves the raw node on one edge).
func derivesFromOtherThanCall(v ssa.Value, addFn *ssa.Function) bool {
	bad := false
	seen := map[ssa.Value]bool{}
	var rec func(v ssa.Value)
	rec = func(v ssa.Value) {
		if seen[v] {
			return
		}
		seen[v] = true
		switch x := v.(type) {
		case *ssa.Phi:
			for _, e := range x.Edges {
				rec(e)
			}
		case *ssa.Call:
			if !matchStatic(addFn)(x) {
				bad = true
			}
		case *ssa.UnOp:
			if a, ok := x.X.(*ssa.Alloc); ok {
				for _, r := range *a.Referrers() {
					if st, ok := r.(*ssa.Store); ok && st.Addr == ssa.Value(a) {
						rec(st.Val)
					}
				}
				return
			}
			bad = true
		default:
			bad = true
		}
	}
	rec(v)
	return bad
}

func init() {
	register("INV-13", "only registration, indexing, cloning and loading write the working memory's registry and index; nothing removes from them", 12, ruleINV13)
}

// INV-13 (who-may-write): the registry (…SnapshotMap) and the invalidation index (…VariableMap) of a working memory are
// append-only for the life of a knowledge base. A function that deletes from them, or replaces them outside
// IndexVariables / the constructors, disconnects remembered values from the events that must clear them.
func ruleINV13(c *Ctx) {
	p := c.P
	wmT := p.Named("ast", "WorkingMemory")
	if wmT == nil {
		c.AnchorLost("ast.WorkingMemory")
		return
	}
	st, _ := wmT.Underlying().(*types.Struct)
	isWMMap := func(f *types.Var) bool {
		if f == nil || st == nil {
			return false
		}
		for i := 0; i < st.NumFields(); i++ {
			if st.Field(i) == f {
				_, isMap := f.Type().Underlying().(*types.Map)
				return isMap
			}
		}
		return false
	}
	type perm struct{ regUpdate, idxUpdate, idxReplace, onOwnAllocOnly bool }
	allowed := map[*ssa.Function]perm{}
	names := map[*ssa.Function]string{}
	add := func(fn *ssa.Function, name string, pm perm) {
		if fn == nil {
			c.AnchorLost(name)
			return
		}
		allowed[fn] = pm
		names[fn] = name
	}
	add(p.Func("ast", "NewWorkingMemory"), "NewWorkingMemory", perm{onOwnAllocOnly: true, regUpdate: true, idxUpdate: true, idxReplace: true})
	add(p.Method("ast", "WorkingMemory", "Clone"), "WorkingMemory.Clone", perm{onOwnAllocOnly: true, regUpdate: true, idxUpdate: true, idxReplace: true})
	add(p.Method("ast", "Catalog", "BuildKnowledgeBase"), "Catalog.BuildKnowledgeBase", perm{onOwnAllocOnly: true, regUpdate: true, idxUpdate: true, idxReplace: true})
	add(p.Method("ast", "WorkingMemory", "IndexVariables"), "WorkingMemory.IndexVariables", perm{idxUpdate: true, idxReplace: true})
	add(p.Method("ast", "WorkingMemory", "AddExpression"), "WorkingMemory.AddExpression", perm{regUpdate: true})
	add(p.Method("ast", "WorkingMemory", "AddExpressionAtom"), "WorkingMemory.AddExpressionAtom", perm{regUpdate: true})
	add(p.Method("ast", "WorkingMemory", "AddVariable"), "WorkingMemory.AddVariable", perm{regUpdate: true})
	fromWM := func(v ssa.Value) (*types.Var, ssa.Value) {
		var hit *types.Var
		var base ssa.Value
		backSlice(v, func(w ssa.Value) bool {
			if f, b := fieldLoad(w); isWMMap(f) {
				hit, base = f, b
				return false
			}
			if fa, ok := w.(*ssa.FieldAddr); ok && isWMMap(fieldOfAddr(fa)) {
				hit, base = fieldOfAddr(fa), unspill(fa.X)
				return false
			}
			return hit == nil
		})
		return hit, base
	}
	isIdx := func(f *types.Var) bool { return strings.HasSuffix(f.Name(), "VariableMap") }
	writes := 0
	for _, fn := range p.ModuleFuncs() {
		if strings.HasSuffix(p.Pos(fn.Pos()), "_test.go") {
			continue
		}
		root := fn
		for root.Parent() != nil {
			root = root.Parent()
		}
		for _, b := range fn.Blocks {
			for _, in := range b.Instrs {
				var f *types.Var
				var base ssa.Value
				kind := ""
				switch in := in.(type) {
				case *ssa.Store:
					if ff, bb, _ := fieldStore(in); isWMMap(ff) {
						f, base, kind = ff, bb, "replace"
					} else if ia, ok := in.Addr.(*ssa.IndexAddr); ok {
						if ff, bb := fromWM(ia.X); ff != nil {
							f, base, kind = ff, bb, "update"
						}
					}
				case *ssa.MapUpdate:
					if ff, bb := fromWM(in.Map); ff != nil {
						f, base, kind = ff, bb, "update"
					}
				case ssa.CallInstruction:
					if bi, ok := in.Common().Value.(*ssa.Builtin); ok && (bi.Name() == "delete" || bi.Name() == "clear") && len(in.Common().Args) >= 1 {
						if ff, _ := fromWM(in.Common().Args[0]); ff != nil {
							if why := c.unreachablePruneOK(fn, in.(ssa.Instruction), ff); bi.Name() == "delete" && why == "" {
								c.OK(fmt.Sprintf("%s / removes from WorkingMemory.%s only what no rule links to", fnName(fn), ff.Name()), p.InstrPos(in.(ssa.Instruction)), "delete of the range key under `not in the reachable set`, index rebuilt afterwards, set = the knowledge base's own catalogue")
								continue
							}
							c.Fail(fmt.Sprintf("%s / removes from WorkingMemory.%s", fnName(fn), ff.Name()), p.InstrPos(in.(ssa.Instruction)), fmt.Sprintf("%s(…) on WorkingMemory.%s: nodes stay linked into the rules but lose their registration/index entry, so no later assignment or Forget clears what they remember", bi.Name(), ff.Name()))
						}
					}
				}
				if f == nil {
					continue
				}
				writes++
				key := fmt.Sprintf("%s / %s of WorkingMemory.%s", fnName(fn), kind, f.Name())
				pm, ok := allowed[root]
				if !ok {
					c.Fail(key, p.InstrPos(in), fmt.Sprintf("WorkingMemory.%s is written outside registration (Add*), IndexVariables, Clone, NewWorkingMemory and BuildKnowledgeBase", f.Name()))
					continue
				}
				good := false
				switch {
				case kind == "replace" && isIdx(f):
					good = pm.idxReplace
				case kind == "replace":
					good = pm.onOwnAllocOnly
				case isIdx(f):
					good = pm.idxUpdate
				default:
					good = pm.regUpdate
				}
				if good && pm.onOwnAllocOnly {
					_, isAlloc := base.(*ssa.Alloc)
					isNew := false
					if call, ok := base.(*ssa.Call); ok {
						isNew = call.Call.StaticCallee() != nil && call.Call.StaticCallee() == p.Func("ast", "NewWorkingMemory")
					}
					if !isAlloc && !isNew {
						good = false
					}
				}
				if !good {
					c.Fail(key, p.InstrPos(in), fmt.Sprintf("%s may not %s WorkingMemory.%s (constructors write only the memory they allocate; Add* only register; IndexVariables only rebuilds the index)", names[root], kind, f.Name()))
					continue
				}
				c.OK(key, p.InstrPos(in), "writer is "+names[root])
			}
		}
	}
	c.Notes = append(c.Notes, fmt.Sprintf("working-memory map writes found: %d", writes))
}

// unreachablePruneOK recognises the one legitimate removal from the working memory's registry: a garbage collection of
// nodes that no rule entry links to. Returns "" when the delete has exactly that shape, otherwise the reason.
//
//	for k, n := range recv.<registry> { if _, ok := reachable[n.AstID]; !ok { delete(recv.<registry>, k) } } ; recv.IndexVariables()
//
// and every call site passes kb.MakeCatalog().Data for the receiver kb.WorkingMemory of the same kb.
func (c *Ctx) unreachablePruneOK(fn *ssa.Function, del ssa.Instruction, f *types.Var) string {
	p := c.P
	if isIdxName(f.Name()) {
		return "index maps are rebuilt, not pruned"
	}
	recv := receiver(fn)
	if recv == nil || len(fn.Params) != 2 {
		return "not a method (receiver, reachable set)"
	}
	set := ssa.Value(fn.Params[1])
	call := del.(ssa.CallInstruction).Common()
	if mf, base := fieldLoad(call.Args[0]); mf != f || base != ssa.Value(recv) {
		return "deletes from another working memory than the receiver's"
	}
	var loop *Loop
	for _, l := range naturalLoops(fn) {
		if l.Blocks[del.Block()] {
			if x := rangeOperand(l); x != nil {
				if rf, rb := fieldLoad(x); rf == f && rb == ssa.Value(recv) {
					loop = l
				}
			}
		}
	}
	if loop == nil {
		return "not inside a range over the same registry"
	}
	if !isRangeKeyOf(call.Args[1], loop) {
		return "the key deleted is not the key being visited"
	}
	guarded := edgesDominate(fn, del, func(b *ssa.BasicBlock, si int) bool {
		iff, isIf := b.Instrs[len(b.Instrs)-1].(*ssa.If)
		if !isIf {
			return false
		}
		kind, sTrue, okc := condOn(iff.Cond, func(v ssa.Value) bool {
			ex, isEx := v.(*ssa.Extract)
			if !isEx || ex.Index != 1 {
				return false
			}
			lk, isLk := ex.Tuple.(*ssa.Lookup)
			if !isLk || !lk.CommaOk || lk.X != set {
				return false
			}
			kf, kb := fieldLoad(lk.Index)
			return kf != nil && kf.Name() == "AstID" && isRangeValueOf(kb, loop)
		})
		return okc && kind == "bool" && si == 1-sTrue
	})
	if !guarded {
		return "the delete is not under `the visited node's AstID is missing from the reachable set`"
	}
	idx := p.Method("ast", "WorkingMemory", "IndexVariables")
	t, _ := reach(fn, del, func(in ssa.Instruction) bool { _, isRet := in.(*ssa.Return); return isRet }, func(in ssa.Instruction) bool {
		ci, ok := in.(ssa.CallInstruction)
		return ok && ci.Common().StaticCallee() == idx && len(ci.Common().Args) > 0 && ci.Common().Args[0] == ssa.Value(recv)
	}, nil)
	if t != nil || idx == nil {
		return "the variable index is not rebuilt after the removal"
	}
	// call sites
	mk := p.Method("ast", "KnowledgeBase", "MakeCatalog")
	wmF := p.Field("ast", "KnowledgeBase", "WorkingMemory")
	n := 0
	for _, caller := range p.ModuleFuncs() {
		for _, ci := range findCalls(caller, matchStatic(fn)) {
			n++
			args := ci.Common().Args
			df, dbase := fieldLoad(args[1])
			mkCall, isCall := dbase.(*ssa.Call)
			if df == nil || df.Name() != "Data" || !isCall || mkCall.Call.StaticCallee() != mk {
				return "a caller passes something other than KnowledgeBase.MakeCatalog().Data at " + p.InstrPos(ci.(ssa.Instruction))
			}
			wf, wbase := fieldLoad(args[0])
			if wf != wmF || unspill(wbase) != unspill(mkCall.Call.Args[0]) {
				return "the reachable set is catalogued from another knowledge base than the one whose working memory is pruned at " + p.InstrPos(ci.(ssa.Instruction))
			}
		}
	}
	if n == 0 {
		return "no caller found"
	}
	return ""
}

func isIdxName(n string) bool { return strings.HasSuffix(n, "VariableMap") }

func init() {
	register("INV-14", "the memo flag is cleared only by the working memory's reset functions and, for its own action atom, by ThenExpression.Execute", 5, ruleINV14)
}

// INV-14 (who-may-write, the clearing side): a store of Evaluated=false anywhere else forgets a remembered value without
// an invalidation event (C13) or, placed on the evaluation path, makes remembering pointless.
func ruleINV14(c *Ctx) {
	p := c.P
	m := c.memo()
	allowed := map[*ssa.Function]string{}
	for _, f := range []*ssa.Function{m.resetVar, m.resetAll, m.reset} {
		if f != nil {
			allowed[f] = "working-memory reset function"
		}
	}
	thenExec := p.Method("ast", "ThenExpression", "Execute")
	atomF := p.Field("ast", "ThenExpression", "ExpressionAtom")
	n := 0
	for _, fn := range p.ModuleFuncs() {
		if strings.HasSuffix(p.Pos(fn.Pos()), "_test.go") {
			continue
		}
		for _, b := range fn.Blocks {
			for _, in := range b.Instrs {
				sf, base, val := fieldStore(in)
				if sf == nil {
					continue
				}
				if _, isEval := m.evalFields[sf]; !isEval {
					continue
				}
				bv, isb := constBool(val)
				if !isb || bv {
					continue
				}
				n++
				key := fmt.Sprintf("%s / clears %s", fnName(fn), p.fieldOwner(sf))
				if why, ok := allowed[fn]; ok {
					c.OK(key, p.InstrPos(in), why)
					continue
				}
				if fn == thenExec {
					if f, b2 := fieldLoad(base); f == atomF && b2 == ssa.Value(receiver(fn)) {
						c.OK(key, p.InstrPos(in), "the action statement's own atom: an action is carried out on every firing")
						continue
					}
				}
				if _, isAlloc := base.(*ssa.Alloc); isAlloc {
					c.OK(key, p.InstrPos(in), "initialisation of a node the function allocates itself")
					continue
				}
				c.Fail(key, p.InstrPos(in), "a remembered value is dropped outside the working memory's reset functions: either an invalidation event the working memory does not know about, or remembering is switched off on this path (shared sub-expressions are then evaluated again and again)")
			}
		}
	}
	// the action atom is evaluated afresh: the store dominates the evaluation
	if thenExec != nil {
		ok := false
		for _, ci := range callsIn(thenExec) {
			call, isCall := ci.(*ssa.Call)
			if !isCall || !calleeNameIs(call, "Evaluate") || len(call.Call.Args) == 0 {
				continue
			}
			f, base := fieldLoad(call.Call.Args[0])
			if f != atomF || base != ssa.Value(receiver(thenExec)) {
				continue
			}
			// every path from entry to this call passes a store Evaluated=false on the same atom
			t, _ := reach(thenExec, nil, func(in ssa.Instruction) bool { return in == ssa.Instruction(call) }, func(in ssa.Instruction) bool {
				sf, sbase, val := fieldStore(in)
				if sf == nil {
					return false
				}
				if _, isEval := m.evalFields[sf]; !isEval {
					return false
				}
				bv, isb := constBool(val)
				bf, bb := fieldLoad(sbase)
				return isb && !bv && bf == atomF && bb == ssa.Value(receiver(thenExec))
			}, nil)
			ok = t == nil
		}
		c.Check(ok, "ThenExpression.Execute / a call statement is carried out on every firing", p.Pos(thenExec.Pos()), "the action atom's memo flag is cleared before it is evaluated", "a method-call action (F.Inc();) is answered from the working memory when its rule, or a sibling with the same statement, fires again: the rule is reported as fired but the action does not run (built-in function calls are not remembered, method calls are)")
	} else {
		c.AnchorLost("(*ast.ThenExpression).Execute")
	}
	c.Notes = append(c.Notes, fmt.Sprintf("INV-14 stores of Evaluated=false: %d", n))
}

// lengthBefore: v is the length of the container of the written variable, taken before the sink call.
func lengthBefore(v ssa.Value, recv *ssa.Parameter, sink ssa.CallInstruction, parentF, vnF *types.Var) bool {
	node := lengthOperand(v)
	if node == nil {
		return false
	}
	var call ssa.Instruction
	uv := unspill(v)
	if ph, ok := uv.(*ssa.Phi); ok {
		for _, e := range ph.Edges {
			if _, isK := constInt(e); !isK {
				uv = unspill(e)
			}
		}
	}
	switch x := uv.(type) {
	case *ssa.Extract:
		call = x.Tuple.(*ssa.Call)
	case *ssa.Call:
		call = x
	default:
		return false
	}
	f, base := fieldLoad(node)
	if f != vnF {
		return false
	}
	if pf, pb := fieldLoad(base); pf != parentF || pb != ssa.Value(recv) {
		return false
	}
	sb := sink.(ssa.Instruction).Block()
	if call.Block() == sb {
		return instrIndex(call) < instrIndex(sink.(ssa.Instruction))
	}
	return call.Block().Dominates(sb)
}

func noteOnce(c *Ctx, n string) {
	for _, x := range c.Notes {
		if x == n {
			return
		}
	}
	c.Notes = append(c.Notes, n)
}

// isAliasResetWalk: fn(v0 *Variable, memory) walks v = v0, v.Variable, ... while v.Variable != nil and calls
// memory.ResetVariable(v.Variable) at least whenever v.ArrayMapSelector != nil and whenever v.Variable.ValueNode.IsMap().
func (c *Ctx) isAliasResetWalk(fn *ssa.Function, m *memoAnchors) bool {
	if fn == nil || fn.Blocks == nil || len(fn.Params) < 2 {
		return false
	}
	return c.aliasResetWalkIn(fn, ssa.Value(fn.Params[0]), m) != nil
}

// aliasResetWalkIn returns the header of a loop in fn that performs the walk starting at v0 (nil if there is none).
func (c *Ctx) aliasResetWalkIn(fn *ssa.Function, v0 ssa.Value, m *memoAnchors) *ssa.BasicBlock {
	p := c.P
	parentF := p.Field("ast", "Variable", "Variable")
	selF := p.Field("ast", "Variable", "ArrayMapSelector")
	vnF := p.Field("ast", "Variable", "ValueNode")
	for _, l := range naturalLoops(fn) {
		// the walking variable: a header phi with edges {v0, phi.Variable}
		var phi *ssa.Phi
		for _, in := range l.Header.Instrs {
			ph, ok := in.(*ssa.Phi)
			if !ok {
				continue
			}
			hasInit, hasStep := false, false
			for _, e := range ph.Edges {
				if e == v0 {
					hasInit = true
				}
				if f, base := fieldLoad(e); f == parentF && base == ssa.Value(ph) {
					hasStep = true
				}
			}
			if hasInit && hasStep {
				phi = ph
			}
		}
		if phi == nil {
			continue
		}
		isParentOfV := func(x ssa.Value) bool {
			f, base := fieldLoad(x)
			return f == parentF && base == ssa.Value(phi)
		}
		// the reset call on v.Variable
		resetBlocks := map[*ssa.BasicBlock]bool{}
		for b := range l.Blocks {
			for _, in := range b.Instrs {
				if call, ok := in.(ssa.CallInstruction); ok && call.Common().StaticCallee() == m.resetVar && len(call.Common().Args) >= 2 && isParentOfV(call.Common().Args[1]) {
					resetBlocks[b] = true
				}
			}
		}
		if len(resetBlocks) == 0 {
			continue
		}
		leadsToReset := func(b *ssa.BasicBlock) bool {
			for i := 0; i < 4 && !resetBlocks[b]; i++ {
				if _, isJump := b.Instrs[len(b.Instrs)-1].(*ssa.Jump); !isJump || len(b.Succs) != 1 {
					break
				}
				b = b.Succs[0]
			}
			return resetBlocks[b]
		}
		bySelector, byMap := false, false
		for b := range l.Blocks {
			iff, isIf := b.Instrs[len(b.Instrs)-1].(*ssa.If)
			if !isIf {
				continue
			}
			if kind, sNil, ok := condOn(iff.Cond, func(x ssa.Value) bool {
				f, base := fieldLoad(x)
				return f == selF && base == ssa.Value(phi)
			}); ok && kind == "nil" && leadsToReset(b.Succs[1-sNil]) {
				bySelector = true
			}
			if kind, sTrue, ok := condOn(iff.Cond, func(x ssa.Value) bool {
				call, isCall := x.(*ssa.Call)
				if !isCall || !call.Call.IsInvoke() || call.Call.Method.Name() != "IsMap" {
					return false
				}
				f, base := fieldLoad(call.Call.Value)
				return f == vnF && isParentOfV(base)
			}); ok && kind == "bool" && leadsToReset(b.Succs[sTrue]) {
				byMap = true
			}
		}
		// the walk ends only when there is no parent left
		exitsOK := true
		for _, ex := range l.Exits() {
			eb := ex[0].(*ssa.BasicBlock)
			iff, isIf := eb.Instrs[len(eb.Instrs)-1].(*ssa.If)
			if !isIf {
				exitsOK = false
				continue
			}
			if _, _, ok := condOn(iff.Cond, isParentOfV); !ok {
				exitsOK = false
			}
		}
		if bySelector && byMap && exitsOK {
			return l.Header
		}
	}
	return nil
}
