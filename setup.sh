#!/bin/bash
# Builds /verif/bin/grulecheck from /verif/checker (vendored dependencies, offline) when sources are newer.
set -eu
cd "$(dirname "$0")"
VERIF=$(pwd)
export PATH=/opt/veriftools/go1.26.8/bin:$PATH GOTOOLCHAIN=local GOPROXY=off GOSUMDB=off GOWORK=off GOFLAGS=-mod=vendor
BIN="$VERIF/bin/grulecheck"
need=0
if [ ! -x "$BIN" ]; then need=1; else
  if [ -n "$(find "$VERIF/checker" -maxdepth 1 \( -name '*.go' -o -name go.mod \) -newer "$BIN" -print -quit)" ]; then need=1; fi
fi
if [ $need = 1 ]; then
  mkdir -p "$VERIF/bin"
  TMP=$(mktemp "$VERIF/bin/.grulecheck.XXXXXX")
  (cd "$VERIF/checker" && go build -o "$TMP" .)
  mv -f "$TMP" "$BIN"
fi
echo "grulecheck ready: $BIN"
